"""C09 - zones survive write-then-read as text; equivalent zone-file spellings agree.

Case shapes (first element = op):
  [1, origin|None, rel, check, text]            read a zone file            (model + impl)
  [2, origin, rel, nodes, style]                print a zone                (model + impl)
  [3, text] / [4, text]                         dns.ttl.from_text / dns.grange.from_text (model + impl)
  [20, origin, rel, text, styleobj]             print under a lossless style and read back (impl, oracle)
  [21, origin, rel, text1, text2]               two spellings of the same data             (impl, oracle)
  [23, n]                                       ttl text round trip                        (impl, oracle)
"""
import io
import os
import random
import re
import tempfile

import dns.exception
import dns.name
import dns.node
import dns.rdata
import dns.rdataclass
import dns.rdataset
import dns.rdatatype
import dns.grange
import dns.ttl
import dns.zone
import dns.zonefile

import namelib as nl
from lib import Err

ID = "C09"
COQ_IMPORTS = "From DV Require Import Model.ZoneTextM."
COQ_RUN = "ZoneTextM.run"
CASE_TIMEOUT = 30.0
TRUSTED = [
    "model: coq/Model/ZoneTextM.v (tokenizer as a logical-line lexer, Reader.read/_rr_line/_generate_line, txn.add + node/rdataset updates, read_rrsets over the RRsets transaction, ttl/grange from_text, Zone/Node/Rdataset.to_styled_text incl. the RFC 3597 output of the wire-able types); RDATA is a parameter: 13 types are modelled as field lists (names, integers, TTLs, IPv4, character-strings, verbatim tokens), every other type and the base64/hex chunking, comment, nl, $INCLUDE, $UNICODE options are exercised by the oracle only",
    "names and their text form are imported from coq/Model/NameM.v; the name round-trip and relativization theorems of C01/C06 (Proofs/NameText, NameTok, NameRel, NameOrder, NameValid) are used by the C09 proofs",
]
ASSUMPTIONS = [
    "per-type RDATA text codecs outside the 13 modelled types are C05's property; here they only appear through the implementation-only oracle",
    "zone_roundtrip is proved for the styles in `lossless` (no want_generic / comments / chunking options: those are covered by the oracle over the style product)",
]
RULE = ("read/print/ttl/grange cases are evaluated by the model (vm_compute) and the implementation and compared exactly "
        "(node, rdataset and rdata order included); round-trip, respelling, outside-origin and CNAME oracles are evaluated on the "
        "implementation only, over the product of lossless style options")

# ------------------------------------------------------------------ exceptions -> codes


def exc_code(e):
    t = type(e)
    if t is dns.exception.SyntaxError:
        return Err(1, "SyntaxError")
    if t is dns.name.NameTooLong:
        return Err(2, "NameTooLong")
    if t is dns.zone.UnknownOrigin:
        return Err(3, "UnknownOrigin")
    if t is dns.zonefile.CNAMEAndOtherData:
        return Err(4, "CNAMEAndOtherData")
    if t is dns.zone.NoSOA:
        return Err(5, "NoSOA")
    if t is dns.zone.NoNS:
        return Err(6, "NoNS")
    if t is dns.ttl.BadTTL:
        return Err(10, "BadTTL")
    if t is dns.name.NeedAbsoluteNameOrOrigin:
        return Err(8, "NeedAbsoluteNameOrOrigin")
    if t is ValueError:
        return Err(107, "ValueError:" + str(e)[:60])
    if t is AssertionError:
        return Err(108, "AssertionError")
    if isinstance(e, dns.exception.SyntaxError):
        return Err(11, t.__name__)
    if isinstance(e, dns.exception.DNSException):
        return Err(800, t.__name__ + ":" + str(e)[:60])
    return Err(900, t.__name__ + ":" + str(e)[:80])


# ------------------------------------------------------------------ text helpers (independent of the library)

ESCAPED = b'"().;\\@$'


def esc_label(l):
    out = bytearray()
    for c in l:
        if c in ESCAPED:
            out += b"\\" + bytes([c])
        elif 0x20 < c < 0x7F:
            out.append(c)
        else:
            out += b"\\%03d" % c
    return bytes(out)


def name_text(labels):
    """text of a label list (absolute if it ends with b'')"""
    if labels == []:
        return b"@"
    if labels == [b""]:
        return b"."
    return b".".join(esc_label(l) for l in labels)


def lower(b):
    return bytes(c + 32 if 65 <= c <= 90 else c for c in b)


def is_sub(n, o):
    return len(n) >= len(o) and [lower(x) for x in n[len(n) - len(o):]] == [lower(x) for x in o]


def stored(n_abs, origin, rel):
    if rel and is_sub(n_abs, origin):
        return n_abs[: len(n_abs) - len(origin)]
    return n_abs


def esc_string(b):
    out = bytearray()
    for c in b:
        if c in b'"\\':
            out += b"\\" + bytes([c])
        elif 0x20 <= c < 0x7F:
            out.append(c)
        else:
            out += b"\\%03d" % c
    return bytes(out)


# ------------------------------------------------------------------ abstract records of the modelled types

T = {"A": 1, "NS": 2, "CNAME": 5, "SOA": 6, "PTR": 12, "MX": 15, "TXT": 16, "KEY": 25, "AAAA": 28, "SRV": 33,
     "DNAME": 39, "RRSIG": 46, "NSEC": 47}
TNAME = {v: k for k, v in T.items()}
SINGLETON = {5, 6, 39, 47}
B64 = ["AQID", "AAECAwQFBgcICQoLDA0ODxAREhMUFRYX", "/97dzLuqmYh3ZlVEMyIRAA==", "Zm9v"]


def simple_label(rng):
    r = rng.random()
    if r < 0.7:
        return bytes(rng.choice(b"abcdwxyzNS0123-_") for _ in range(rng.randint(1, 6)))
    if r < 0.85:
        return nl.gen_label(rng, rng.choice([3, 8, 20]))
    return nl.gen_label(rng, 63)


def gen_origin(rng):
    r = rng.random()
    if r < 0.1:
        return [b""]
    k = rng.choice([1, 1, 2, 2, 3])
    ls = [simple_label(rng) for _ in range(k)] + [b""]
    return ls if nl.fits(ls) else [b"example", b""]


def gen_under(rng, base, depth=None):
    """absolute name that is a subdomain of base"""
    k = rng.choice([0, 1, 1, 1, 2, 3]) if depth is None else depth
    ls = [simple_label(rng) for _ in range(k)] + base
    return ls if nl.fits(ls) else base


def gen_target(rng, origin):
    r = rng.random()
    if r < 0.65:
        return gen_under(rng, origin)
    if r < 0.75:
        return origin
    if r < 0.8:
        return [b""]
    return gen_origin(rng) if rng.random() < 0.5 else [simple_label(rng), b"other", b""]


def gen_rdata(rng, ty, origin):
    """fields: ('n', abs labels) | ('t', bytes) | ('i', int) | ('s', [bytes]) | ('r', [bytes])"""
    nm = lambda: ("n", gen_target(rng, origin))
    u16 = lambda: ("i", rng.choice([0, 1, 10, 65535, rng.randrange(65536)]))
    ttlv = lambda: ("i", rng.choice([0, 1, 300, 3600, 86400, 2**31 - 1, 2**32 - 1, rng.randrange(2**32)]))
    if ty == 1:
        return [("t", b"%d.%d.%d.%d" % tuple(rng.randrange(256) for _ in range(4)))]
    if ty == 28:
        return [("t", rng.choice([b"::1", b"2001:db8::%x" % rng.randrange(1, 65536), b"fe80::1:2:3:4"]))]
    if ty in (2, 5, 12, 39):
        return [nm()]
    if ty == 6:
        return [nm(), nm(), ("i", rng.randrange(2**32)), ttlv(), ttlv(), ttlv(), ttlv()]
    if ty == 15:
        return [u16(), nm()]
    if ty == 16:
        strs = []
        for _ in range(rng.randint(1, 3)):
            raw = bytes(rng.choice(b"abc xyz;()\\\"$@.\t\x00\x7f\xc8019") for _ in range(rng.choice([0, 1, 3, 8, 20])))
            strs.append(raw)
        return [("s", strs)]
    if ty == 25:
        return [("i", rng.choice([0, 256, 257, 16383])), ("i", rng.choice([0, 3, 255])), ("t", b"%d" % rng.choice([1, 5, 8, 13])),
                ("r", [rng.choice(B64).encode()])]
    if ty == 33:
        return [u16(), u16(), u16(), nm()]
    if ty == 46:
        cov = rng.choice([1, 2, 5, 6, 15, 16, 47, 25, 28])
        return [("i", cov), ("t", b"%d" % rng.choice([5, 8, 13])), ("t", b"%d" % rng.randrange(0, 8)), ttlv(),
                ("t", b"20260101000000"), ("t", b"20250101000000"), ("t", b"%d" % rng.randrange(65536)), nm(),
                ("r", [rng.choice(B64).encode()])]
    if ty == 47:
        k = rng.randint(0, 4)
        tys = sorted(rng.sample([1, 2, 5, 6, 15, 16, 28, 46, 47], k))
        return [nm(), ("r", [TNAME[t].encode() for t in tys])]
    # unknown type: generic syntax
    data = bytes(rng.randrange(256) for _ in range(rng.choice([0, 1, 4, 9, 30])))
    return [("t", b"\\#"), ("i", len(data)), ("r", [data.hex().encode()] if data else [])]


UNKNOWN_TYPES = [65280, 65281, 65534, 731, 20000]


def covers_of(ty, fields):
    return fields[0][1] if ty == 46 else 0


def kind_of(ty, cov):
    if ty == 5 or (ty == 46 and cov == 5):
        return "C"
    if ty in (47, 50, 25) or (ty == 46 and cov in (47, 50, 25)):
        return "N"
    return "R"


def rdata_tokens(ty, fields, spell, qspell=None):
    """zone-file tokens of the rdata; spell(labels_abs) -> bytes spells a name"""
    out = []
    for i, (k, v) in enumerate(fields):
        if k == "n":
            out.append(spell(v))
        elif k == "t":
            out.append(v)
        elif k == "i":
            out.append(TNAME[v].encode() if (ty == 46 and i == 0) else b"%d" % v)
        elif k == "s":
            out += [qspell(s) if qspell else b'"' + esc_string(s) + b'"' for s in v]
        elif k == "r":
            out += v
    return out


def field_obs(f, origin, rel):
    k, v = f
    if k == "n":
        return [0, stored(v, origin, rel)]
    if k == "t":
        return [1, v]
    if k == "i":
        return [2, v]
    if k == "s":
        return [3, list(v)]
    return [4, list(v)]


def type_text(ty):
    return TNAME[ty] if ty in TNAME else "TYPE%d" % ty


def gen_zone(rng, max_names=6, want_apex=True, simple=False):
    """abstract zone: (origin, rel, [(name_abs, [(ty, cov, ttl, [fields...])...])...]) obeying the zone invariants"""
    origin = gen_origin(rng)
    rel = rng.random() < 0.5
    nodes = []
    used = set()

    def add_node(n_abs, cname_ok):
        key = tuple(lower(x) for x in n_abs)
        if key in used:
            return
        used.add(key)
        rdss = []
        r = rng.random()
        if cname_ok and r < 0.2:
            tys = [5] + ([] if simple else rng.sample([47, 25, 46], rng.randint(0, 2)))
            kinds_ok = {"C", "N"}
        else:
            pool = [1, 2, 12, 15, 16, 33, 39] if simple else [1, 2, 12, 15, 16, 28, 33, 47, 25, 46, 39] + UNKNOWN_TYPES
            tys = rng.sample(pool, rng.randint(1, 4))
            kinds_ok = {"R", "N"}
        seen = set()
        for ty in tys:
            ttl = rng.choice([0, 1, 300, 300, 3600, 86400, 2**31 - 1, 2**32 - 1, rng.randrange(2**32)])
            k = 1 if ty in SINGLETON or ty == 46 else rng.randint(1, 3)
            rds = []
            texts = set()
            cov = 0
            for _ in range(k):
                f = gen_rdata(rng, ty, origin)
                if ty == 46:
                    if kind_of(46, f[0][1]) not in kinds_ok:
                        f[0] = ("i", 47)
                    cov = f[0][1]
                tx = b" ".join(lower(t) for t in rdata_tokens(ty, f, name_text))
                if tx in texts:
                    continue
                texts.add(tx)
                rds.append(f)
            if (ty, cov) in seen:
                continue
            seen.add((ty, cov))
            rdss.append((ty, cov, ttl, rds))
        nodes.append((n_abs, rdss))

    if want_apex:
        used.add(tuple(lower(x) for x in origin))
        soa = gen_rdata(rng, 6, origin)
        ns = [gen_rdata(rng, 2, origin) for _ in range(rng.randint(1, 2))]
        if len(ns) == 2 and [lower(x) for x in ns[0][0][1]] == [lower(x) for x in ns[1][0][1]]:
            ns = ns[:1]
        apex = [(6, 0, rng.choice([300, 3600, 0]), [soa]), (2, 0, rng.choice([300, 3600, 86400]), ns)]
        if rng.random() < 0.4:
            apex.append((15, 0, 300, [gen_rdata(rng, 15, origin)]))
        rng.shuffle(apex)
        nodes.append((origin, apex))
    for _ in range(rng.randint(0, max_names)):
        add_node(gen_under(rng, origin, rng.choice([1, 1, 1, 2, 3])), True)
    if rng.random() < 0.5:
        rng.shuffle(nodes)
    return origin, rel, nodes


def zone_obs(origin, rel, nodes):
    return [[stored(n, origin, rel), [[ty, cov, ttl, [[field_obs(f, origin, rel) for f in rd] for rd in rds]]
                                      for ty, cov, ttl, rds in rdss]] for n, rdss in nodes]


def build_pyzone(origin, rel, nodes_obs):
    """a dns.zone.Zone holding exactly the given nodes / rdatasets / rdatas in the given order"""
    o = dns.name.Name(origin)
    z = dns.zone.Zone(o, relativize=rel)
    for n, rdss in nodes_obs:
        node = dns.node.Node()
        for ty, cov, ttl, rds in rdss:
            r = dns.rdataset.Rdataset(dns.rdataclass.IN, dns.rdatatype.RdataType.make(ty), dns.rdatatype.RdataType.make(cov), ttl)
            for rd in rds:
                toks = []
                for i, (k, v) in enumerate(rd):
                    if k == 0:
                        toks.append(name_text(v))
                    elif k == 1:
                        toks.append(v)
                    elif k == 2:
                        toks.append(TNAME[v].encode() if (ty == 46 and i == 0) else b"%d" % v)
                    elif k == 3:
                        toks += [b'"' + esc_string(s) + b'"' for s in v]
                    else:
                        toks += v
                # names are given in their stored form: parse them without any origin
                obj = dns.rdata.from_text(dns.rdataclass.IN, ty, b" ".join(toks).decode("latin-1"), origin=None, relativize=False)
                r.items[obj] = None
            node.rdatasets.append(r)
        z.nodes[dns.name.Name(n)] = node
    return z


# ------------------------------------------------------------------ styles

STYLE_FIELDS = ["sorted", "want_origin", "default_ttl", "deduplicate_names", "first_name_is_duplicate", "omit_rdclass",
                "omit_ttl", "want_generic", "name_just", "ttl_just", "rdclass_just", "rdtype_just", "origin", "relativize",
                "omit_final_dot"]


def gen_style(rng, origin, lossless=True, generic_ok=False):
    st = {
        "sorted": rng.random() < 0.6,
        "want_origin": rng.random() < 0.4,
        "default_ttl": rng.choice([None, None, 0, 300, 3600, 2**32 - 1]),
        "deduplicate_names": rng.random() < 0.5,
        "first_name_is_duplicate": False,
        "omit_rdclass": rng.random() < 0.3,
        "omit_ttl": False,
        "want_generic": generic_ok and rng.random() < 0.3,
        "name_just": rng.choice([0, 0, -1, -8, -24]),
        "ttl_just": rng.choice([0, 0, -12, -1, 1, 6, 12]),
        "rdclass_just": rng.choice([0, 0, -6, 1, 4]),
        "rdtype_just": rng.choice([0, 0, -8, 1, 8]),
        "origin": None,
        "relativize": False,
        "omit_final_dot": False,
    }
    r = rng.random()
    if r < 0.35:
        st["origin"], st["relativize"] = origin, True
    elif r < 0.6:
        st["origin"], st["relativize"] = origin, False
    elif r < 0.7:
        st["relativize"] = True
    if not lossless:
        r = rng.random()
        if r < 0.25:
            st["omit_ttl"] = True
        elif r < 0.5:
            st["name_just"] = rng.choice([1, 9, 30])
        elif r < 0.75:
            st["first_name_is_duplicate"] = True
        else:
            st["omit_final_dot"] = True
    return st


def style_obs(st):
    return [int(st[k]) if isinstance(st[k], bool) else st[k] for k in STYLE_FIELDS]


def py_style(so, **extra):
    kw = dict(zip(STYLE_FIELDS, so))
    for k in ("sorted", "want_origin", "deduplicate_names", "first_name_is_duplicate", "omit_rdclass", "omit_ttl",
              "want_generic", "relativize", "omit_final_dot"):
        kw[k] = bool(kw[k])
    if kw["origin"] is not None:
        kw["origin"] = dns.name.Name(kw["origin"])
    kw.update(extra)
    return dns.zone.ZoneStyle(**kw)


# ------------------------------------------------------------------ zone-file text generation


class Speller:
    """renders abstract records as zone-file lines, choosing among equivalent spellings"""

    def __init__(self, rng, origin, plain=False, exact=False, sloppy=False):
        self.exact = exact
        self.sloppy = sloppy  # also omit TTLs that nothing implies (only for model/implementation comparison)
        self.rng = rng
        self.zone_origin = origin
        self.cur = origin
        self.last = None  # last owner (abs labels)
        self.plain = plain
        self.ttl_default = None
        self.last_ttl = None

    def ws(self):
        if self.plain:
            return b" "
        return self.rng.choice([b" ", b" ", b"\t", b"  ", b" \t "])

    def name(self, n_abs):
        """some spelling of an absolute name under the current origin"""
        rng = self.rng
        cur = self.cur
        if is_sub(n_abs, cur) and len(cur) > 0 and n_abs[len(n_abs) - len(cur):] == cur:
            relp = n_abs[: len(n_abs) - len(cur)]
            if relp == []:
                if self.plain or rng.random() < 0.6:
                    return b"@"
            elif self.plain or rng.random() < 0.6:
                return name_text(relp)
        return name_text(n_abs)

    def qstring(self, raw):
        """some spelling of a character-string"""
        rng = self.rng
        r = rng.random()
        if r < 0.6:
            return b'"' + esc_string(raw) + b'"'
        if r < 0.8:
            # every octet as \DDD or \c where possible
            out = bytearray()
            for c in raw:
                if rng.random() < 0.5 or not (0x20 < c < 0x7F) or c in b"0123456789":
                    out += b"\\%03d" % c
                else:
                    out += b"\\" + bytes([c])
            return b'"' + bytes(out) + b'"'
        if raw and all(0x20 < c < 0x7F and c not in b'"\\;()$@' for c in raw):
            return raw  # unquoted
        return b'"' + esc_string(raw) + b'"'

    def ttl_text(self, ttl):
        rng = self.rng
        if not self.plain and rng.random() < 0.15:
            for unit, k in ((b"w", 604800), (b"d", 86400), (b"h", 3600), (b"m", 60)):
                if ttl and ttl % k == 0 and rng.random() < 0.7:
                    u = unit.upper() if rng.random() < 0.3 else unit
                    return b"%d%s" % (ttl // k, u)
            if ttl > 60:
                return b"%dm%ds" % (ttl // 60, ttl % 60)
        return b"%d" % ttl

    def record(self, n_abs, ty, ttl, fields, force=None):
        rng = self.rng
        f = force or {}
        parts = []
        inherit = f.get("inherit", (not self.plain) and self.last == n_abs and rng.random() < 0.5)
        if inherit:
            lead = rng.choice([b" ", b"\t", b"    "])
        else:
            lead = b""
            parts.append(self.name(n_abs))
        self.last = n_abs
        tt = self.ttl_text(ttl)
        # an omitted TTL means: the $TTL default, else the SOA minimum once the SOA was read, else
        # the TTL of the previous record (RFC 1035 5.1 / RFC 2308 4)
        inherited = self.ttl_default if self.ttl_default is not None else self.last_ttl
        omit_ttl = f.get("omit_ttl", (not self.plain) and inherited == ttl and rng.random() < 0.5)
        if self.sloppy and rng.random() < 0.08:
            omit_ttl = True
        cls = f.get("cls", rng.choice([b"IN", b"IN", b"in", b"CLASS1", None]) if not self.plain else b"IN")
        if omit_ttl:
            mid = [cls] if cls else []
        else:
            self.last_ttl = ttl
            if cls and f.get("class_first", (not self.plain) and rng.random() < 0.3):
                mid = [cls, tt]
            else:
                mid = [tt] + ([cls] if cls else [])
        parts += mid
        if ty == 6 and self.ttl_default is None:
            self.ttl_default = fields[6][1]  # no $TTL so far: the SOA minimum becomes the default
        tyt = type_text(ty).encode()
        if not self.plain:
            r = rng.random()
            if r < 0.15:
                tyt = tyt.lower()
            elif r < 0.25 and not self.exact:
                tyt = b"TYPE%d" % ty
        parts.append(tyt)
        parts += rdata_tokens(ty, fields, self.name, None if self.plain else self.qstring)
        if not self.plain and rng.random() < 0.15 and len(parts) > 3:
            # parenthesised multi-line form
            i = rng.randrange(2 if not inherit else 1, len(parts))
            j = rng.randrange(i, len(parts) + 1)
            seg = [b"("] + parts[i:j]
            k = rng.randrange(1, len(seg) + 1)
            seg = seg[:k] + [b"\n" + rng.choice([b"", b"  ", b"\t"]) + (b"; c\n" if rng.random() < 0.2 else b"")] + seg[k:] + [b")"]
            parts = parts[:i] + seg + parts[j:]
        line = lead + self.ws().join(parts)
        line = line.replace(b" \n", b"\n")
        if not self.plain and rng.random() < 0.1:
            line += rng.choice([b" ; comment", b";x", b"   "])
        return line + b"\n"

    def set_origin(self, o):
        self.cur = o
        return b"$ORIGIN" + self.ws() + name_text(o) + b"\n"

    def set_ttl(self, t):
        self.ttl_default = t
        return self.rng.choice([b"$TTL", b"$ttl"]) + self.ws() + self.ttl_text(t) + b"\n"


def zone_file(rng, origin, rel, nodes, plain=False, noise=0.0, exact=False, directives=True, sloppy=False):
    """text of a zone file holding the records of the abstract zone (one spelling among many)"""
    sp = Speller(rng, origin, plain, exact, sloppy)
    out = []
    if not plain and directives and rng.random() < 0.3:
        out.append(sp.set_origin(origin))
    if not plain and directives and rng.random() < 0.3:
        out.append(sp.set_ttl(rng.choice([0, 300, 3600])))
    for n_abs, rdss in nodes:
        if not plain and directives and rng.random() < 0.15:
            o2 = n_abs[rng.randrange(len(n_abs)):] if rng.random() < 0.7 else gen_origin(rng)
            if o2 and o2[-1] == b"":
                out.append(sp.set_origin(o2))
        for ty, cov, ttl, rds in rdss:
            for rd in rds:
                if rng.random() < noise:
                    out.append(rng.choice([b"\n", b"; comment line\n", b"   \n", b" ; indented comment\n", b"\t\n"]))
                if not plain and directives and rng.random() < 0.05:
                    # a directive between two records of one name: the owner may still be inherited
                    if rng.random() < 0.5:
                        o2 = n_abs[rng.randrange(len(n_abs)):] if rng.random() < 0.6 else gen_origin(rng)
                        if o2 and o2[-1] == b"":
                            out.append(sp.set_origin(o2))
                    else:
                        out.append(sp.set_ttl(rng.choice([0, 300, 3600, ttl])))
                out.append(sp.record(n_abs, ty, ttl, rd))
    return b"".join(out)


def outside_block(rng, origin, allow_origin_switch=True):
    """an out-of-zone record followed by 1..3 continuation lines that inherit its owner (leading white
    space), spelled (a) with the inherited owner, (b) with the owner repeated on every line"""
    out_origin = [simple_label(rng), b"outside-%d" % rng.randrange(9), b""]
    host = [simple_label(rng)]
    recs = [b"300 IN A 192.0.2.%d", b"IN 300 TXT \"x%d\"", b"300 IN MX %d mail.elsewhere.", b"60 IN CNAME t%d.elsewhere.",
            b"300 NS ns%d.elsewhere.", b"3600 IN AAAA 2001:db8::1%d"]
    rec = lambda: rng.choice(recs) % rng.randrange(9)
    first, cont = rec(), [rec() for _ in range(rng.randint(1, 3))]
    switch = allow_origin_switch and rng.random() < 0.4
    pre, post = [], []
    if switch:
        pre = [b"$ORIGIN " + name_text(out_origin)]
        post = [b"$ORIGIN " + name_text(origin)]
        owner = name_text(host)
    else:
        owner = name_text(host + out_origin)
    inherit = pre + [owner + b" " + first] + [rng.choice([b" ", b"\t", b"    "]) + r for r in cont] + post
    explicit = pre + [owner + b" " + first] + [owner + b" " + r for r in cont] + post
    return inherit, explicit


def with_block(rng, base, block):
    """the lines of `block` inserted after some complete record line of the (plain, one record per line) text"""
    lines = base.split(b"\n")
    if lines and lines[-1] == b"":
        lines.pop()
    k = rng.randint(1, len(lines)) if lines else 0
    return b"\n".join(lines[:k] + block + lines[k:]) + b"\n"


def gen_generate(rng, sp, origin):
    """a $GENERATE line and the lines of its expansion"""
    start = rng.choice([0, 1, 1, 5, 10])
    stop = start + rng.choice([0, 1, 2, 4])
    step = rng.choice([1, 1, 2, 3])
    rng_t = b"%d-%d" % (start, stop) + (b"/%d" % step if step != 1 or rng.random() < 0.2 else b"")

    def modifier():
        r = rng.random()
        if r < 0.35:
            return b"$", (0, 0, "d")
        off = rng.choice([0, 1, 3, 20, -1, -3])
        if r < 0.5:
            return b"${%s%d}" % (b"+" if off >= 0 and rng.random() < 0.3 else b"", off), (off, 0, "d")
        width = rng.choice([0, 1, 3, 5])
        if r < 0.7:
            return b"${%d,%d}" % (off, width), (off, width, "d")
        base = rng.choice("doxXnN")
        return b"${%d,%d,%s}" % (off, width, base.encode()), (off, width, base)

    def fmt(i, m):
        off, width, base = m
        v = i + off
        if base in "doxX":
            return format(v, base).zfill(width).encode()
        h = format(v, "x").zfill(width)
        s = ".".join(h[::-1])[:width]
        return (s.upper() if base == "N" else s).encode()

    lm, lmeta = modifier()
    rm, rmeta = modifier()
    kind = rng.choice(["A", "PTR", "CNAME", "TXT"])
    if kind == "A" and (rmeta[2] != "d" or rmeta[0] < 0 or rmeta[1] > 1):
        rm, rmeta = b"$", (0, 0, "d")
    lhs_pre = rng.choice([b"host", b"h-", b"", b"a.b"])
    lhs_post = rng.choice([b"", b".sub", b"x"])
    lhs = lhs_pre + lm + lhs_post
    if kind == "A":
        rhs = b"10.0." + rm + b".1" if rng.random() < 0.5 else b"10.0.0." + rm
        # keep octets in range
        rmeta2 = rmeta
        ty = 1
    elif kind == "TXT":
        rhs = b"v" + rm + b"w"
        ty = 16
    else:
        rhs = rng.choice([b"t", b"t-", b""]) + rm + rng.choice([b"", b".tgt", b".other."])
        ty = 12 if kind == "PTR" else 5
    ttl = rng.choice([None, 300, 60])
    cls = rng.choice([None, b"IN"])
    line = b"$GENERATE " + rng_t + b" " + lhs + (b" %d" % ttl if ttl is not None else b"") + (b" " + cls if cls else b"") + \
        b" " + kind.encode() + b" " + rhs + b"\n"
    exp = []
    for i in range(start, stop + 1, step):
        owner = lhs.replace(lm, fmt(i, lmeta)) or b"@"  # an empty owner text is the current origin
        rd = rhs.replace(rm, fmt(i, rmeta))
        exp.append(owner + (b" %d" % ttl if ttl is not None else b"") + (b" " + cls if cls else b"") + b" " + kind.encode() + b" " + rd + b"\n")
    return line, exp


def gen_generate_under(rng, origin):
    """a $GENERATE with a RELATIVE-name right-hand side under a $ORIGIN below the zone origin:
    (lines with the statement, lines with its expansion under the same $ORIGIN, the expansion spelled
    with absolute names and no $ORIGIN)"""
    sub = [simple_label(rng)] + ([simple_label(rng)] if rng.random() < 0.3 else []) + origin
    if not nl.fits([b"x" * 24] + sub):
        sub = [b"s"] + origin
    subt = name_text(sub)
    start = rng.choice([0, 1, 7])
    stop = start + rng.choice([0, 1, 2])
    kind = rng.choice([b"CNAME", b"PTR", b"NS", b"DNAME"])
    lhs_pre = rng.choice([b"alias", b"a-", b"x.y"])
    r = rng.random()
    if r < 0.25:
        rhs_rel = None            # "@": the current origin
        rhs = b"@"
    elif r < 0.5:
        rhs_rel = b"host$"
        rhs = rhs_rel
    elif r < 0.75:
        rhs_rel = b"t${0,2}.deep"
        rhs = rhs_rel
    else:
        rhs_rel = b"host"         # a constant relative name
        rhs = rhs_rel
    ttl = rng.choice([b"300 ", b"60 ", b""]) if True else b""
    cls = rng.choice([b"IN ", b""])
    stmt = b"$GENERATE %d-%d %s$ %s%s%s %s" % (start, stop, lhs_pre, ttl, cls, kind, rhs)
    rel_lines, abs_lines = [], []
    for i in range(start, stop + 1):
        owner = lhs_pre + b"%d" % i
        if rhs_rel is None:
            tr, ta = b"@", subt
        else:
            tr = rhs_rel.replace(b"${0,2}", b"%02d" % i).replace(b"$", b"%d" % i)
            ta = tr + b"." + subt
        rel_lines.append(owner + b" " + (ttl or b"300 ") + b"IN " + kind + b" " + tr)
        abs_lines.append(owner + b"." + subt + b" " + (ttl or b"300 ") + b"IN " + kind + b" " + ta)
    # without a TTL field the statement uses the default/last TTL: make that 300 in every spelling
    pre = b"$TTL 300\n"
    origin_line = b"$ORIGIN " + subt
    return pre, [origin_line, stmt], [origin_line] + rel_lines, abs_lines


NEUTRAL_RECS = [b"NSEC @ A NSEC", b"KEY 256 3 8 AQID", b"RRSIG NSEC 8 2 300 20260101000000 20250101000000 1 @ AQID",
                b"RRSIG KEY 8 2 300 20260101000000 20250101000000 2 @ AQID"]
REGULAR_RECS = [b"A 10.0.0.5", b"TXT \"x\"", b"MX 10 mail", b"AAAA 2001:db8::5"]
CNAME_RECS = [b"CNAME www", b"RRSIG CNAME 8 2 300 20260101000000 20250101000000 3 @ AQID"]


def gen_order_lines(rng):
    """record lines of one owner mixing neutral types, CNAME and other data"""
    recs = rng.sample(NEUTRAL_RECS, rng.randint(1, 2))
    r = rng.random()
    if r < 0.45:
        recs += [CNAME_RECS[0]] + rng.sample(REGULAR_RECS, rng.randint(1, 2))   # must be rejected in every order
    elif r < 0.7:
        recs += rng.sample(CNAME_RECS, rng.randint(1, 2))                        # CNAME + neutral: accepted
    else:
        recs += rng.sample(REGULAR_RECS, rng.randint(1, 2))                      # other data + neutral: accepted
    rng.shuffle(recs)
    return [b"web 300 IN " + x for x in recs]


# ------------------------------------------------------------------ $INCLUDE scripts (reference interpretation)


def _rr_ttl(s, ttl, soa_min):
    """the TTL a record gets (Reader._rr_line): explicit, else $TTL/SOA-minimum default, else the last
    explicit TTL; an SOA met while no default is known sets the default to its minimum"""
    if ttl is not None:
        t = ttl
        s["last"] = ttl
    elif s["default"] is not None:
        t = s["default"]
    else:
        t = s["last"]
    if soa_min is not None and s["default"] is None:
        s["default"] = soa_min
        if t is None:
            t = soa_min
    return t


def gen_include_case(rng, max_depth=2):
    """a zone spread over a main file and (nested) $INCLUDEd files, with the reader state that $INCLUDE saves
    and restores made observable: $TTL set / unset (SOA minimum, last explicit TTL), explicit TTLs before the
    $INCLUDE and inside the included file, TTL-less and owner-less records after it, $ORIGIN and $TTL changes
    inside the included file.  Returns (origin, files, explicit, inlined): files[0] is the main file, the
    others are referred to as @@FILEk@@; `explicit` spells every record with absolute names and its TTL;
    `inlined` is the main file with the included text put in place of the directives, the directives that
    restore origin and default TTL after it, and inherited owner / TTL only where the one-file reader state
    agrees with the state $INCLUDE restores."""
    origin = rng.choice([[b"example", b""], [b"zone-1", b"test", b""], [b"x", b""]])
    ttls = [5, 60, 300, 1234, 3600, 7200, 86400]
    files = [None]
    explicit = []
    cnt = [0]
    soa_where = rng.choice([0, 0, 0, 0, 1, 1, 2])    # main file / an included file / no SOA
    soa_done = [False]
    ist = {"origin": origin, "name": origin, "last": None, "default": None}   # the one-file reader

    def under(o):
        return [rng.choice([b"sub", b"s2", b"deep-1"])] + o

    def record(st, depth, force_soa=False):
        cnt[0] += 1
        n = cnt[0]
        # owner
        r = rng.random()
        if force_soa:
            owner = origin
            otext = b"@" if st["origin"] == origin and rng.random() < 0.5 else name_text(origin)
        elif r < 0.35:
            owner, otext = st["name"], None                      # inherited
        elif r < 0.7:
            lab = rng.choice([b"a", b"b", b"www", b"mail", b"h%d" % n])
            owner, otext = [lab] + st["origin"], lab
        elif r < 0.85:
            owner = [b"abs%d" % (n % 3)] + origin
            otext = name_text(owner)
        else:
            owner, otext = st["origin"], b"@"
        # rdata
        soa_min = None
        if force_soa:
            soa_min = rng.choice([300, 900, 10800])
            ty = b"SOA"
            rd_rel = b"ns hostmaster 1 7200 900 1209600 %d" % soa_min
            rd_abs = name_text([b"ns"] + st["origin"]) + b" " + name_text([b"hostmaster"] + st["origin"]) + \
                b" 1 7200 900 1209600 %d" % soa_min
        else:
            k = rng.random()
            if k < 0.5:
                ty, rd_rel = b"A", b"192.0.2.%d" % (n % 250)
                rd_abs = rd_rel
            elif k < 0.7:
                ty, rd_rel = b"NS", b"ns%d" % n
                rd_abs = name_text([rd_rel] + st["origin"])
            elif k < 0.85:
                ty, rd_rel = b"MX", b"%d mx%d" % (n % 50, n)
                rd_abs = b"%d " % (n % 50) + name_text([b"mx%d" % n] + st["origin"])
            else:
                ty, rd_rel = b"TXT", b"\"t%d\"" % n
                rd_abs = rd_rel
        # TTL
        ttl = rng.choice(ttls) if rng.random() < 0.45 else None
        probe = dict(st)
        if _rr_ttl(probe, ttl, soa_min) is None:
            ttl = rng.choice(ttls)
        t = _rr_ttl(st, ttl, soa_min)
        st["name"] = owner
        cls = rng.choice([b"IN ", b""])
        line = (otext if otext is not None else b"") + b" " + (b"%d " % ttl if ttl is not None else b"") + cls + ty + b" " + rd_rel + b"\n"
        explicit.append(name_text(owner) + b" %d IN " % t + ty + b" " + rd_abs + b"\n")
        # the same record in the one-file spelling
        io = otext
        if otext is None and ist["name"] != owner:
            io = name_text(owner)
        probe = dict(ist)
        it = ttl
        if _rr_ttl(probe, ttl, soa_min) != t:
            it = t
        _rr_ttl(ist, it, soa_min)
        ist["name"] = owner
        iline = (io if io is not None else b"") + b" " + (b"%d " % it if it is not None else b"") + cls + ty + b" " + rd_rel + b"\n"
        return line, iline

    def block(st, depth):
        text, inl = b"", b""
        n_items = rng.randint(2, 5)
        included = False
        for i in range(n_items + 1):
            want_soa = (not soa_done[0]) and ((soa_where == 0 and depth == 0 and i <= 1) or (soa_where == 1 and depth >= 1))
            r = rng.random()
            if want_soa and (i == 1 or depth >= 1 or r < 0.6):
                soa_done[0] = True
                a, b = record(st, depth, force_soa=True)
            elif r < 0.12:
                v = rng.choice(ttls)
                st["default"] = v
                ist["default"] = v
                a = b = b"$TTL %d\n" % v
            elif r < 0.22:
                o = rng.choice([origin, under(origin), under(st["origin"])])
                if not nl.fits([b"x" * 12] + o):
                    o = origin
                st["origin"] = o
                ist["origin"] = o
                a = b = b"$ORIGIN " + name_text(o) + b"\n"
            elif depth < max_depth and (r < 0.45 or (depth == 0 and not included and i >= n_items - 1)):
                included = True
                child = dict(st)
                k = rng.random()
                if k < 0.4:
                    arg, b0 = b"", b""
                elif k < 0.7:
                    child["origin"] = under(origin)
                    arg = b" " + name_text(child["origin"])
                    b0 = b"$ORIGIN" + arg + b"\n"
                else:
                    lab = rng.choice([b"inc", b"part-2"])          # relative to the current origin
                    child["origin"] = [lab] + st["origin"]
                    arg = b" " + lab
                    b0 = b"$ORIGIN " + name_text(child["origin"]) + b"\n"
                if not nl.fits([b"x" * 12] + child["origin"]):
                    child["origin"], arg, b0 = st["origin"], b"", b""
                ist["origin"] = child["origin"]
                ctext, cinl = block(child, depth + 1)
                files.append(ctext)
                idx = len(files) - 1
                a = b"$INCLUDE @@FILE%d@@" % idx + arg + b"\n"
                # after the included text: what $INCLUDE restores and directives can express
                b = b0 + cinl + b"$ORIGIN " + name_text(st["origin"]) + b"\n"
                ist["origin"] = st["origin"]
                if st["default"] is not None:
                    b += b"$TTL %d\n" % st["default"]
                    ist["default"] = st["default"]
            else:
                a, b = record(st, depth)
            text += a
            inl += b
        return text, inl

    st = {"origin": origin, "name": origin, "last": None, "default": None}
    main, inlined = block(st, 0)
    files[0] = main
    return origin, files, b"".join(explicit), inlined


# ------------------------------------------------------------------ RFC 3597 spelling of known types


def wire_name(labels):
    """uncompressed wire form of an absolute label list (ends with b'')"""
    return b"".join(bytes([len(l)]) + l for l in labels)


# type code, mnemonic, layout: "n" name, "1"/"2"/"4" unsigned integers, "b" opaque tail (bytes, text spelling)
GENERIC_TYPES = [
    (2, b"NS", "n"), (5, b"CNAME", "n"), (12, b"PTR", "n"), (39, b"DNAME", "n"),
    (15, b"MX", "2n"), (33, b"SRV", "222n"), (6, b"SOA", "nn44444"),
    (17, b"RP", "nn"), (18, b"AFSDB", "2n"), (36, b"KX", "2n"), (21, b"RT", "2n"),
    (46, b"RRSIG", "R"), (47, b"NSEC", "N"),
]


def gen_generic_record(rng, ty_entry, names):
    """one record of a type with embedded names: (type code, mnemonic, [text fields], wire); a text field is
    bytes (verbatim) or a label list (a name, absolute)"""
    code, mn, layout = ty_entry
    fields, wire = [], b""
    if layout == "R":
        signer = rng.choice(names)
        fields = [b"A", b"8", b"2", b"300", b"20260101000000", b"20250101000000", b"4242", signer, b"AQID"]
        wire = (b"\x00\x01\x08\x02" + (300).to_bytes(4, "big") + (1767225600).to_bytes(4, "big")
                + (1735689600).to_bytes(4, "big") + (4242).to_bytes(2, "big") + wire_name(signer) + b"\x01\x02\x03")
        return code, mn, fields, wire
    if layout == "N":
        nxt = rng.choice(names)
        fields = [nxt, b"A", b"NSEC"]
        wire = wire_name(nxt) + b"\x00\x06\x40\x00\x00\x00\x00\x01"
        return code, mn, fields, wire
    for ch in layout:
        if ch == "n":
            n = rng.choice(names)
            fields.append(n)
            wire += wire_name(n)
        else:
            w = int(ch)
            v = rng.choice([0, 1, 10, 256 ** w - 1, rng.randrange(256 ** w)])
            fields.append(b"%d" % v)
            wire += v.to_bytes(w, "big")
    return code, mn, fields, wire


def gen_respell_generic(rng):
    """one record of a known type with embedded names in four spellings (relative names, absolute names,
    RFC 3597 `# len hex` with the backslash, and the same after `CLASS1 TYPEn`) under the zone origin, under a `$ORIGIN` below it, or in a file
    included with an origin below it.  Returns (origin, head, [body per spelling], how, cur)"""
    origin = rng.choice([[b"example", b""], [b"zone-1", b"test", b""], [b"x", b""]])
    how = rng.choice(["zone", "origin", "origin", "include", "include"])
    cur = origin if how == "zone" else [rng.choice([b"sub", b"s2", b"deep-1"])] + ([b"mid"] if rng.random() < 0.3 else []) + origin
    names = [[b"target"] + cur, cur, [b"a", b"b"] + cur, [b"other"] + origin, origin,
             [b"ext", b"example", b"net", b""], [b"Target"] + cur, [b"sub"] + cur]
    ent = rng.choice(GENERIC_TYPES)
    code, mn, fields, wire = gen_generic_record(rng, ent, names)
    owner = [rng.choice([b"rec", b"www", b"r-1"])] + cur
    ttl = rng.choice([b"300", b"60", b"3600"])

    def rel_text(n):
        if n == cur:
            return b"@"
        if len(n) > len(cur) and n[len(n) - len(cur):] == cur:
            return name_text(n[:len(n) - len(cur)])
        return name_text(n)

    hexs = wire.hex().encode()
    if rng.random() < 0.3 and len(hexs) > 8:
        k = rng.randrange(2, len(hexs) - 2, 2)
        hexs = hexs[:k] + b" " + hexs[k:]            # the hex may come in several tokens
    gen_tail = b"\\# %d " % len(wire) + hexs
    own_rel, own_abs = rel_text(owner), name_text(owner)
    bodies = [
        own_rel + b" " + ttl + b" IN " + mn + b" " + b" ".join(rel_text(f) if isinstance(f, list) else f for f in fields) + b"\n",
        own_abs + b" " + ttl + b" IN " + mn + b" " + b" ".join(name_text(f) if isinstance(f, list) else f for f in fields) + b"\n",
        own_rel + b" " + ttl + b" IN " + mn + b" " + gen_tail + b"\n",
        own_abs + b" " + ttl + b" CLASS1 TYPE%d " % code + gen_tail + b"\n",
    ]
    head = (b"@ 300 IN SOA ns hostmaster 1 7200 900 1209600 300\n@ 300 IN NS ns\n" if code != 6 else b"@ 300 IN NS ns\n")
    if code == 6:
        # the SOA under test is the zone's SOA: its owner is the zone origin, spelled from the current origin
        bodies = [b.replace(own_rel + b" ", name_text(origin) + b" ", 1).replace(own_abs + b" ", name_text(origin) + b" ", 1) for b in bodies]
    return origin, head, bodies, how, cur


WIRE_MODELLED = {1, 2, 5, 6, 12, 15, 33, 39}       # layouts of names, integers, IPv4: the model decodes these
_NOT_WIRE_MODELLED = {b"TXT", b"KEY", b"AAAA", b"RRSIG", b"NSEC", b"TYPE16", b"TYPE25", b"TYPE28", b"TYPE46", b"TYPE47"}


def gen_generic_read(rng):
    """a zone file with one record of a wire-modelled known type in RFC 3597 syntax, well formed or damaged
    (truncated, one octet too many, compression pointer, bad label type, name longer than 255 octets, wrong
    length field): (origin, text)"""
    while True:
        origin, head, bodies, how, cur = gen_respell_generic(rng)
        code = int(bodies[3].split(b"TYPE")[1].split(b" ")[0])
        if code in WIRE_MODELLED:
            break
    pre = b"" if how == "zone" else b"$ORIGIN " + name_text(cur) + b"\n"
    r = rng.random()
    if r < 0.1:
        a = bytes(rng.randrange(256) for _ in range(rng.choice([3, 4, 4, 4, 5])))
        return origin, head + pre + b"addr 300 IN %s \\# %d %s\n" % (rng.choice([b"A", b"TYPE1"]), len(a), a.hex().encode())
    body = bodies[rng.choice([2, 3])]
    if r < 0.45:
        return origin, head + pre + body
    front, _, tail = body.rpartition(b"\\# ")
    wire = bytes.fromhex(tail.split(b" ", 1)[1].decode().replace(" ", ""))
    k = rng.randrange(8)
    n = None
    if k == 0:
        wire = wire[:-1]
    elif k == 1:
        wire = wire + bytes([rng.randrange(256)])
    elif k == 2:
        i = rng.randrange(len(wire))
        wire = wire[:i] + b"\xc0" + bytes([rng.randrange(len(wire))]) + wire[i + 1:]
    elif k == 3:
        i = rng.randrange(len(wire))
        wire = wire[:i] + bytes([rng.choice([64, 128, 191, 192, 255])]) + wire[i + 1:]
    elif k == 4:
        wire = (b"\x3f" + b"x" * 63) * 4 + wire              # the first name becomes too long
    elif k == 5:
        n = len(wire) + rng.choice([-1, 1])
    elif k == 6:
        i = rng.randrange(len(wire))
        wire = wire[:i] + bytes([rng.randrange(256)]) + wire[i + 1:]
    else:
        wire = b""
    return origin, head + pre + front + b"\\# %d %s\n" % (len(wire) if n is None else n, wire.hex().encode())


def gen_multisig_lines(rng, modelled=True):
    """record lines (relative to the zone origin, explicit owners and TTLs) where one or two owners hold 2-3
    RRSIGs covering the SAME type (an rrset signed by several keys), interleaved with the covered records,
    with RRSIGs covering other types and with other owners' records"""
    lines = []
    sig_no = [0]

    def sig(owner, covered, ttl):
        sig_no[0] += 1
        k = sig_no[0]
        return b"%s %d IN RRSIG %s %d 2 %d 20260101000000 20250101000000 %d @ %s" % (
            owner, ttl, covered, rng.choice([8, 13]), ttl, 1000 + 7 * k, [b"AQID", b"BAUG", b"BwgJ", b"CgsM", b"DQ4P", b"EBES", b"ExQV"][k % 7])
    owners = rng.sample([b"signed", b"www", b"k-1", b"@"], rng.choice([1, 2]))
    for owner in owners:
        ttl = rng.choice([300, 3600, 60])
        covered = rng.choice([b"A", b"TXT", b"MX", b"KEY"] if modelled else [b"DNSKEY", b"A", b"AAAA", b"DS"])
        data = {b"A": [b"A 192.0.2.%d" % rng.randrange(1, 250) for _ in range(2)],
                b"TXT": [b"TXT \"one\"", b"TXT \"two\" \"2\""],
                b"MX": [b"MX 10 mail", b"MX 20 mail2"],
                b"KEY": [b"KEY 256 3 8 AQID", b"KEY 257 3 8 BAUG"],
                b"DNSKEY": [b"DNSKEY 256 3 8 AQID", b"DNSKEY 257 3 8 BAUG"],
                b"AAAA": [b"AAAA 2001:db8::1", b"AAAA 2001:db8::2"],
                b"DS": [b"DS 12345 8 2 " + b"ab" * 32]}[covered]
        mine = [b"%s %d IN %s" % (owner, ttl, d) for d in data[:rng.choice([1, 2])]]
        mine += [sig(owner, covered, ttl) for _ in range(rng.choice([2, 2, 3]))]
        if rng.random() < 0.6:
            other = b"NSEC" if covered != b"NSEC" else b"A"
            mine.append(b"%s %d IN NSEC %s %s RRSIG NSEC" % (owner, ttl, rng.choice([b"@", b"zz"]), covered))
            mine += [sig(owner, other, ttl) for _ in range(rng.choice([1, 2]))]
        rng.shuffle(mine)
        lines += mine
    lines += [b"plain 300 IN A 192.0.2.%d" % rng.randrange(1, 250), b"mail 300 IN A 192.0.2.9"][:rng.choice([0, 1, 2])]
    if rng.random() < 0.5:
        rng.shuffle(lines)              # the owners' records interleaved
    return lines


def gen_generate_inherit(rng, origin):
    """a $GENERATE statement followed by records that inherit the owner (leading white space): they belong to
    the LAST generated name - or are ignored with it when the generated names lie outside the zone.  Returns
    (statement spelling, expansion + inherited lines, expansion + explicit owner, None | spelling without the
    out-of-zone part)"""
    how = rng.choice(["zone", "sub", "sub", "outside", "outside"])
    if origin == [b""] and how == "outside":
        how = "zone"                    # nothing is outside the root zone
    cur = origin if how in ("zone", "outside") else [rng.choice([b"sub", b"s2"])] + origin
    if not nl.fits([b"x" * 24] + cur):
        cur, how = origin, "zone"
    head = b"$TTL 300\n" + (b"$ORIGIN " + name_text(cur) + b"\n" if cur != origin or rng.random() < 0.3 else b"")
    before = b"before 300 IN A 192.0.2.1\n"
    start = rng.choice([0, 1, 7])
    step = rng.choice([1, 1, 2])
    stop = start + rng.choice([0, 1, 2, 3])
    idx = list(range(start, stop + 1, step))
    suffix = b".outside.test." if how == "outside" else rng.choice([b"", b".deep"])
    lhs = rng.choice([b"g$", b"gen-$", b"$"]) + suffix
    ttl = rng.choice([b"300 ", b"60 ", b""])
    stmt = b"$GENERATE %d-%d%s %s %sIN A 10.0.%d.$\n" % (start, stop, b"/%d" % step if step != 1 else b"", lhs, ttl, rng.randrange(4))
    third = stmt.split(b"10.0.")[1].split(b".")[0]
    exp = [lhs.replace(b"$", b"%d" % i) + b" " + (ttl or b"300 ") + b"IN A 10.0." + third + b".%d\n" % i for i in idx]
    n_tail = rng.choice([1, 1, 2])
    tails = [rng.choice([b"300 IN TXT \"after\"", b"IN A 192.0.2.77", b"60 MX 5 mail", b"IN TXT \"more\""]) for _ in range(n_tail)]
    tails = list(dict.fromkeys(tails))
    last = lhs.replace(b"$", b"%d" % idx[-1])
    inh = b"".join(rng.choice([b" ", b"\t", b"   "]) + t + b"\n" for t in tails)
    explicit = b"".join(last + b" " + t + b"\n" for t in tails)
    after = b"later 300 IN A 192.0.2.2\n" if rng.random() < 0.5 else b""
    t_stmt = head + before + stmt + inh + after
    t_exp = head + before + b"".join(exp) + inh + after
    t_explicit = head + before + b"".join(exp) + explicit + after
    t_without = head + before + after if how == "outside" else None
    return t_stmt, t_exp, t_explicit, t_without


def mutate_text(rng, text):
    b = bytearray(text)
    if not b:
        return bytes(b)
    for _ in range(rng.choice([1, 1, 2, 3])):
        r = rng.random()
        if not b:
            break
        i = rng.randrange(len(b))
        if r < 0.3:
            b[i] = rng.choice(b' \t\n;()"\\$@.0aZ\x00\x7f')
        elif r < 0.5:
            del b[i]
        elif r < 0.7:
            b.insert(i, rng.choice(b' \t\n;()"\\$@.0aZ'))
        elif r < 0.8:
            del b[i:i + rng.randrange(1, 12)]
        else:
            j = rng.randrange(len(b))
            b[i:i] = b[j:j + rng.randrange(1, 10)]
    return bytes(b)


TTL_TEXTS = [b"", b"0", b"1", b"300", b"4294967295", b"4294967296", b"1w", b"1W2d3h4m5s", b"1h30", b"1h0", b"h", b"1x", b"1hh",
             b"12 ", b"-1", b"1d1d", b"99999999999w", b"0w", b"1w6d4h3m10s", b"7102w", b"7101w", b"s1", b"1s1", b"00012", b"1.5h",
             b"9" * 30, b"IN", b"A", b"3600S"]
GRANGE_TEXTS = [b"", b"1-5", b"0-0", b"1-5/2", b"5-1", b"-1-5", b"1-", b"-", b"1", b"1/2", b"1-5/", b"1-5/0", b"1-5/2/3", b"1--5",
                b"1-5-7", b"a-b", b"1-5/x", b"/", b"10-20/5", b"1-5 ", b"01-05", b"1-99999999999999999999"]


# ------------------------------------------------------------------ dumps


def labels_of(n):
    return [bytes(l) for l in n.labels]


def rd_text(rd):
    return rd.to_text().encode("latin-1", "replace")


def dump(z):
    nodes = []
    for name, node in z.nodes.items():
        nodes.append([labels_of(name), [[int(r.rdtype), int(r.covers), int(r.ttl), [rd_text(rd) for rd in r]] for r in node.rdatasets]])
    return [labels_of(z.origin) if z.origin is not None else None, nodes]


def rd_key(rd):
    """what Rdata.__eq__ compares: the DNSSEC canonical wire form (+ whether a relative name is involved)"""
    try:
        return (0, rd.to_digestable())
    except dns.name.NeedAbsoluteNameOrOrigin:
        return (1, rd.to_digestable(dns.name.root))


def nodes_well_formed(z):
    """one rdataset per (class, type, covers) at every node, no rdata twice"""
    for node in z.nodes.values():
        keys = [(int(r.rdclass), int(r.rdtype), int(r.covers)) for r in node.rdatasets]
        if len(set(keys)) != len(keys):
            return False
    return True


def zcanon(z):
    """the zone up to what zone equality ignores (every order, letter case of names), but with the TTLs"""
    out = []
    for name, node in z.nodes.items():
        out.append((tuple(lower(x) for x in labels_of(name)),
                    tuple(sorted((int(r.rdtype), int(r.covers), int(r.ttl), tuple(sorted(rd_key(rd) for rd in r)))
                                 for r in node.rdatasets))))
    return (tuple(lower(x) for x in labels_of(z.origin)) if z.origin is not None else None, tuple(sorted(out)))


def canon(d):
    """order-insensitive form of a dump (names lower-cased)"""
    origin, nodes = d
    out = []
    for n, rdss in nodes:
        out.append((tuple(lower(x) for x in n), tuple(sorted((ty, cov, ttl, tuple(sorted(rds))) for ty, cov, ttl, rds in rdss))))
    return (tuple(lower(x) for x in origin) if origin is not None else None, tuple(sorted(out)))


# ------------------------------------------------------------------ cases


def oname(o):
    return None if o is None else dns.name.Name(o)


def rich_zone_text(rng, origin):
    """a zone file (canonical spelling) using many more record types than the model knows"""
    lines = []
    o = name_text(origin)
    lines.append(b"@ 3600 IN SOA ns hostmaster %d 7200 900 1209600 %d" % (rng.randrange(2**32), rng.choice([0, 300, 86400])))
    lines.append(b"@ 3600 IN NS ns")
    lines.append(b"@ 3600 IN NS ns2.elsewhere.")
    import base64
    RICH = [
        lambda: b"A %d.%d.%d.%d" % tuple(rng.randrange(256) for _ in range(4)),
        lambda: b"AAAA 2001:db8::%x" % rng.randrange(1, 65536),
        lambda: b"MX %d mail%d" % (rng.randrange(65536), rng.randrange(9)),
        lambda: b"TXT " + b" ".join(b'"' + esc_string(bytes(rng.choice(b"abc xyz;()\\\"$@.\t\x00\xc8") for _ in range(rng.choice([0, 1, 5, 40])))) + b'"' for _ in range(rng.randint(1, 3))),
        lambda: b"SRV %d %d %d target%d.example.net." % (rng.randrange(65536), rng.randrange(65536), rng.randrange(65536), rng.randrange(9)),
        lambda: b"DNSKEY 256 3 8 " + base64.b64encode(bytes(rng.randrange(256) for _ in range(rng.choice([1, 24, 33, 70, 130])))),
        lambda: b"DS %d 8 2 " % rng.randrange(65536) + bytes(rng.randrange(256) for _ in range(32)).hex().encode(),
        lambda: b"TLSA 3 1 1 " + bytes(rng.randrange(256) for _ in range(rng.choice([32, 70]))).hex().encode(),
        lambda: b"SSHFP 1 1 " + bytes(rng.randrange(256) for _ in range(20)).hex().encode(),
        lambda: b"CAA 0 issue \"ca%d.example.net\"" % rng.randrange(9),
        lambda: b"HINFO \"cpu %d\" \"os\"" % rng.randrange(9),
        lambda: b"NAPTR 100 10 \"u\" \"sip+E2U\" \"!^.*$!sip:info@example.com!\" .",
        lambda: b"LOC 37 23 30.900 N 121 59 19.000 W 7.00m 100.00m 100.00m 2.00m",
        lambda: b"RP mbox%d mbox-txt" % rng.randrange(9),
        lambda: b"NSEC3 1 1 12 aabbccdd 2t7b4g4vsa5smi47k61mv5bv1a22bojr A RRSIG",
        lambda: b"NSEC3PARAM 1 0 12 aabbccdd",
        lambda: b"SVCB 1 svc%d alpn=h2,h3 port=8443" % rng.randrange(9),
        lambda: b"URI 10 1 \"https://www%d.example/\"" % rng.randrange(9),
        lambda: b"OPENPGPKEY " + base64.b64encode(bytes(rng.randrange(256) for _ in range(rng.choice([3, 50, 100])))),
        lambda: b"TYPE65280 \\# %d %s" % ((lambda d: (len(d), d.hex().encode()))(bytes(rng.randrange(256) for _ in range(rng.choice([1, 8, 80]))))),
        lambda: b"PTR host%d" % rng.randrange(9),
        lambda: b"CERT 1 0 0 " + base64.b64encode(bytes(rng.randrange(256) for _ in range(12))),
        lambda: b"RRSIG A 8 2 300 20260101000000 20250101000000 %d @ " % rng.randrange(65536) + base64.b64encode(bytes(rng.randrange(256) for _ in range(rng.choice([16, 64])))),
    ]
    names = set()
    for _ in range(rng.randint(1, 6)):
        n = gen_under(rng, origin, rng.choice([1, 1, 2]))
        nt = name_text(n)
        if lower(nt) in names:
            continue
        names.add(lower(nt))
        if rng.random() < 0.15:
            lines.append(nt + b" %d IN CNAME target%d" % (rng.choice([300, 7]), rng.randrange(9)))
            if rng.random() < 0.5:
                lines.append(nt + b" 300 IN NSEC @ CNAME RRSIG NSEC")
            continue
        for mk in rng.sample(RICH, rng.randint(1, 4)):
            ttl = rng.choice([0, 1, 300, 300, 3600, 2**31 - 1, 2**32 - 1])
            first = mk()
            tyname = first.split(b" ")[0]
            seen = {first}
            lines.append(nt + b" %d IN " % ttl + first + (b" ; note %d" % rng.randrange(9) if rng.random() < 0.2 else b""))
            if tyname not in (b"RRSIG",):
                for _ in range(rng.randint(0, 2)):
                    more = mk()
                    if more not in seen:
                        seen.add(more)
                        lines.append(nt + b" %d IN " % ttl + more)
    return b"\n".join(lines) + b"\n"


def rich_style(rng, origin):
    st = gen_style(rng, origin, lossless=True, generic_ok=True)
    so = style_obs(st)
    extra = {}
    if rng.random() < 0.5:
        extra["base64_chunk_size"] = rng.choice([0, 1, 4, 7, 32, 64, 1000])
    if rng.random() < 0.5:
        extra["hex_chunk_size"] = rng.choice([0, 1, 2, 3, 64, 128, 1000])
    if rng.random() < 0.3:
        extra["base64_chunk_separator"] = rng.choice([" ", "  ", "\t"])
    if rng.random() < 0.3:
        extra["hex_chunk_separator"] = rng.choice([" ", "  ", "\t"])
    if rng.random() < 0.3:
        extra["want_comments"] = True
    if rng.random() < 0.2:
        extra["nl"] = rng.choice(["\n", "\r\n"])
    if rng.random() < 0.2:
        extra["txt_is_utf8"] = True
    return [so, sorted([k, v] for k, v in extra.items())]


def cases(ctx):
    rng = ctx.rng
    for t in TTL_TEXTS:
        yield "ttl", [3, t]
    for t in GRANGE_TEXTS:
        yield "grange", [4, t]
    for _ in range(ctx.n(150, 3000)):
        r = rng.random()
        if r < 0.5:
            parts = []
            for _ in range(rng.randint(1, 4)):
                parts.append(b"%d" % rng.choice([0, 1, 7, 59, 1000, rng.randrange(10**rng.randint(1, 11))]) +
                             rng.choice([b"w", b"d", b"h", b"m", b"s", b"W", b"S", b"", b"x"]))
            yield "ttl", [3, b"".join(parts)]
        elif r < 0.7:
            yield "ttl", [3, mutate_text(rng, rng.choice(TTL_TEXTS))]
        else:
            yield "grange", [4, mutate_text(rng, rng.choice(GRANGE_TEXTS))]
        n = rng.choice([0, 1, 299, 2**31, 2**32 - 1, 2**32, rng.randrange(2**33)])
        yield "ttl-rt", [23, n]

    # --- print: model vs implementation text, every style combination incl. lossy ones
    for i in range(ctx.n(60, 800)):
        wireable = rng.random() < 0.35   # only types whose RFC 3597 form the model can print
        origin, rel, nodes = gen_zone(rng, max_names=rng.choice([0, 2, 5]), simple=wireable)
        zo = zone_obs(origin, rel, nodes)
        if rng.random() < 0.1 and zo:
            zo[rng.randrange(len(zo))][1].clear()  # an empty node prints an empty line
        for _ in range(ctx.n(3, 4)):
            st = gen_style(rng, origin, lossless=rng.random() < 0.75, generic_ok=wireable)
            yield "print", [2, origin, int(rel), zo, style_obs(st)]

    # --- read: zone files in many spellings
    for i in range(ctx.n(250, 4000)):
        r = rng.random()
        mutated = 0.32 <= r < 0.42
        # mutated files only use types whose rdata the model validates exactly
        origin, rel, nodes = gen_zone(rng, max_names=rng.choice([0, 1, 3, 6]), want_apex=rng.random() < 0.9, simple=mutated)
        text = zone_file(rng, origin, rel, nodes, plain=rng.random() < 0.2, noise=rng.choice([0, 0.1, 0.3]), exact=mutated,
                         sloppy=rng.random() < 0.3)
        give_origin = rng.random() < 0.85
        if not give_origin and not text.startswith(b"$ORIGIN"):
            text = b"$ORIGIN " + name_text(origin) + b"\n" + text
        chk = int(rng.random() < 0.8)
        if r < 0.12:
            # out-of-zone records in between
            lines = text.split(b"\n")
            ks = [k for k in range(len(lines)) if b"(" not in b"".join(lines[:k])]  # never inside a multi-line record
            k = rng.choice(ks)
            lines.insert(k, b"out.of-zone-%d. 300 IN A 192.0.2.1" % rng.randrange(9))
            text = b"\n".join(lines)
        elif r < 0.22 and nodes:
            # a CNAME next to other data somewhere
            n_abs, rdss = nodes[rng.randrange(len(nodes))]
            text += name_text(n_abs) + b" 300 IN " + rng.choice([b"CNAME somewhere", b"A 192.0.2.7", b"NSEC @ A", b"RRSIG CNAME 8 2 300 20260101000000 20250101000000 1 @ AQID"]) + b"\n"
        elif r < 0.32:
            sp = Speller(rng, origin)
            if rng.random() < 0.4:
                _, stmt, _, _ = gen_generate_under(rng, origin)
                line = b"\n".join(stmt) + b"\n"
            else:
                line, _ = gen_generate(rng, sp, origin)
            if rng.random() < 0.3 and b"$TTL" not in text:
                text = b"$TTL 300\n" + text
            text += line
        elif r < 0.42:
            text = mutate_text(rng, text)
        elif r < 0.47:
            text += rng.choice([b"$INCLUDE foo\n", b"$FOO bar\n", b"$UNICODE 2008 TXT\n", b"$unicode\n", b"$TTL\n", b"$TTL 1h extra\n",
                                b"$ORIGIN\n", b"$ORIGIN a..b.\n", b"$GENERATE 1-2\n", b"$GENERATE 1-3 a$ A\n", b"\"$TTL\" 5\n",
                                b"\"x\" 300 IN A 1.2.3.4\n", b"@ 300 CH A 1.2.3.4\n", b"@ 300 IN BOGUS 1\n", b"@ IN 300 IN A 1.2.3.4\n",
                                b"sub 300 IN SOA a b 1 2 3 4 5\n", b"@ 300 IN A 1.2.3.4 extra\n", b"@ 300 IN MX 10\n",
                                b" 300 IN A 10.9.8.7\n", b"$ORIGIN " + name_text(origin) + b"\n@ A 10.0.0.9\n"])
        yield "read", [1, origin if give_origin else None, int(rel), chk, text]

    # --- read_rrsets: the same reader without directives, into a list of rrsets
    for i in range(ctx.n(80, 1500)):
        r = rng.random()
        mutated = r < 0.15
        origin, rel, nodes = gen_zone(rng, max_names=rng.choice([0, 1, 3]), want_apex=rng.random() < 0.7, simple=mutated)
        text = zone_file(rng, origin, rel, nodes, plain=rng.random() < 0.2, noise=rng.choice([0, 0.2]), exact=mutated,
                         directives=False, sloppy=rng.random() < 0.3)
        if mutated:
            text = mutate_text(rng, text)
        elif r < 0.3:
            inh, exp = outside_block(rng, origin, allow_origin_switch=False)
            text = with_block(rng, text, inh) if text.count(b"(") == 0 else text
        elif r < 0.4 and nodes:
            n_abs, rdss = nodes[rng.randrange(len(nodes))]
            text += name_text(n_abs) + b" 300 IN " + rng.choice([b"CNAME somewhere", b"A 192.0.2.7", b"NSEC @ A"]) + b"\n"
        elif r < 0.45:
            text += rng.choice([b"$TTL 300\n", b"$ORIGIN x.\n", b"sub 300 IN SOA a b 1 2 3 4 5\n", b"@ 300 CH A 1.2.3.4\n"])
        yield "rrsets", [6, origin, int(rel), text]
    # --- oracle-only: rich record types, printed under lossless styles and read back
    for i in range(ctx.n(80, 800)):
        origin = gen_origin(rng)
        rel = rng.random() < 0.5
        text = rich_zone_text(rng, origin)
        for _ in range(ctx.n(4, 6)):
            yield "roundtrip", [20, origin, int(rel), text, rich_style(rng, origin)]
    # the same on the modelled types with the structured generator (odd names, boundary TTLs)
    for i in range(ctx.n(80, 800)):
        origin, rel, nodes = gen_zone(rng, max_names=rng.choice([1, 3, 6]))
        text = zone_file(rng, origin, rel, nodes, plain=True)
        for _ in range(ctx.n(3, 4)):
            yield "roundtrip", [20, origin, int(rel), text, rich_style(rng, origin)]

    # --- oracle-only: respellings
    for i in range(ctx.n(150, 2000)):
        origin, rel, nodes = gen_zone(rng, max_names=rng.choice([1, 3, 6]))
        t1 = zone_file(rng, origin, rel, nodes, plain=True)
        t2 = zone_file(rng, origin, rel, nodes, plain=False, noise=0.2)
        yield "respell", [21, origin, int(rel), t1, t2]
    for i in range(ctx.n(100, 1200)):
        origin, rel, nodes = gen_zone(rng, max_names=1)
        base = zone_file(rng, origin, rel, nodes, plain=True)
        sp = Speller(rng, origin)
        line, exp = gen_generate(rng, sp, origin)
        pre = b"$TTL 300\n" if rng.random() < 0.5 else b""
        yield "respell-generate", [21, origin, int(rel), pre + base + line, pre + base + b"".join(exp)]
    for i in range(ctx.n(60, 1000)):
        origin, rel, nodes = gen_zone(rng, max_names=3)
        if origin == [b""]:
            continue
        base = zone_file(rng, origin, rel, nodes, plain=True)
        lines = base.split(b"\n")
        for _ in range(rng.randint(1, 3)):
            k = rng.randrange(len(lines))
            lines.insert(k, rng.choice([b"www.outside-%d. 300 IN A 192.0.2.1", b"outside-%d. 300 IN CNAME x.", b"a.b.outside-%d. IN 5 TXT \"x\""]) % rng.randrange(9))
        yield "respell-outside", [21, origin, int(rel), base, b"\n".join(lines)]
    # an out-of-zone owner that following lines inherit: the whole block is ignored, and the
    # inherited-owner spelling equals the explicit-owner spelling (from_text and read_rrsets)
    for i in range(ctx.n(80, 1200)):
        origin, rel, nodes = gen_zone(rng, max_names=rng.choice([1, 3]))
        if origin == [b""]:
            continue
        base = zone_file(rng, origin, rel, nodes, plain=True)
        inh, exp = outside_block(rng, origin)
        k = rng.randrange(10**6)
        t_inh = with_block(random.Random(k), base, inh)
        t_exp = with_block(random.Random(k), base, exp)
        yield "respell-outside-inherit", [21, origin, int(rel), base, t_inh]
        yield "respell-owner-outside", [21, origin, int(rel), t_exp, t_inh]
    # $GENERATE under a $ORIGIN below the zone origin, relative-name right-hand side (and "@")
    for i in range(ctx.n(60, 800)):
        origin, rel, nodes = gen_zone(rng, max_names=1)
        base = zone_file(rng, origin, rel, nodes, plain=True)
        pre, stmt, exp_rel, exp_abs = gen_generate_under(rng, origin)
        t_stmt = pre + base + b"\n".join(stmt) + b"\n"
        t_rel = pre + base + b"\n".join(exp_rel) + b"\n"
        t_abs = pre + base + b"\n".join(exp_abs) + b"\n"
        yield "respell-generate", [21, origin, int(rel), t_stmt, t_rel]
        yield "respell-generate-absolute", [21, origin, int(rel), t_stmt, t_abs]
        yield "read", [1, origin, int(rel), 1, t_stmt]
    # the order of the records of one owner that mixes neutral types (NSEC, KEY, their RRSIGs), CNAME and
    # other data: every order must end alike (all rejected, or equal zones) - from_text and read_rrsets
    import itertools
    for i in range(ctx.n(40, 500)):
        origin, rel, nodes = gen_zone(rng, max_names=1)
        base = zone_file(rng, origin, rel, nodes, plain=True)
        lines = gen_order_lines(rng)
        perms = list(itertools.permutations(lines))
        first = base + b"\n".join(perms[0]) + b"\n"
        others = perms[1:] if len(perms) <= 6 else rng.sample(perms[1:], ctx.n(4, 8))
        yield "read", [1, origin, int(rel), 1, first]
        yield "rrsets", [6, origin, int(rel), first]
        for pm in others:
            t = base + b"\n".join(pm) + b"\n"
            yield "respell-order", [21, origin, int(rel), first, t]
            yield "rrsets-order", [24, origin, int(rel), first, t]
            if rng.random() < 0.3:
                yield "read", [1, origin, int(rel), 1, t]
                yield "rrsets", [6, origin, int(rel), t]
    # $INCLUDE (file system; oracle only): a file split into a main part and an included part, optionally
    # with an origin for the included part, loads like the flat file with $ORIGIN around the part
    for i in range(ctx.n(40, 600)):
        origin, rel, nodes = gen_zone(rng, max_names=rng.choice([2, 4]))
        if len(nodes) < 2:
            continue
        k = rng.randint(1, len(nodes) - 1)
        inc_origin = None
        if rng.random() < 0.5:
            inc_origin = gen_under(rng, origin, 1) if rng.random() < 0.7 else gen_origin(rng)
        main1 = zone_file(rng, origin, rel, nodes[:k], plain=True)
        sp = Speller(rng, origin, plain=True)
        if inc_origin is not None:
            sp.cur = inc_origin
        inc = b"".join(sp.record(n_abs, ty, ttl, rd) for n_abs, rdss in nodes[k:] for ty, cov, ttl, rds in rdss for rd in rds)
        main2 = b"" if rng.random() < 0.5 else b"tail-%d 300 IN A 192.0.2.%d\n" % (rng.randrange(9), rng.randrange(250))
        flat = main1 + (b"$ORIGIN " + name_text(inc_origin) + b"\n" if inc_origin is not None else b"") + inc + \
            (b"$ORIGIN " + name_text(origin) + b"\n" if inc_origin is not None else b"") + main2
        yield "respell-include", [25, origin, int(rel), main1, inc_origin, inc, main2, flat]
    # $INCLUDE scripts: main file + nested included files against the explicit and the inlined spelling
    # (names, rdatas AND TTLs), from_text(allow_include=True) and from_file
    for i in range(ctx.n(150, 2500)):
        origin, files, explicit, inlined = gen_include_case(rng)
        if len(files) < 2:
            continue
        yield "respell-include-state", [28, origin, int(rng.random() < 0.5), files, explicit, inlined]
    # $GENERATE followed by inherited-owner records (zone origin, sub-$ORIGIN, generated names outside the zone);
    # dns.zonefile.read_rrsets reads with directives disabled, so $GENERATE cannot be reached through it
    for i in range(ctx.n(80, 1000)):
        origin, rel, nodes = gen_zone(rng, max_names=1)
        base = zone_file(rng, origin, rel, nodes, plain=True)
        t_stmt, t_exp, t_explicit, t_without = gen_generate_inherit(rng, origin)
        yield "read", [1, origin, int(rel), 1, base + t_stmt]
        yield "respell-generate-inherit", [21, origin, int(rel), base + t_stmt, base + t_exp]
        yield "respell-generate-inherit", [21, origin, int(rel), base + t_stmt, base + t_explicit]
        if t_without is not None:
            yield "respell-generate-inherit", [21, origin, int(rel), base + t_stmt, base + t_without]
    # several RRSIGs covering the same type at one owner (an rrset signed by more than one key): read / rrsets
    # correspondence, write-then-read, record order
    for i in range(ctx.n(60, 700)):
        origin, rel, nodes = gen_zone(rng, max_names=1)
        base = zone_file(rng, origin, rel, nodes, plain=True)
        modelled = rng.random() < 0.7
        lines = gen_multisig_lines(rng, modelled)
        text = base + b"\n".join(lines) + b"\n"
        if modelled:
            yield "read", [1, origin, int(rel), 1, text]
            yield "rrsets", [6, origin, int(rel), text]
        for _ in range(ctx.n(2, 4)):
            yield "roundtrip", [20, origin, int(rel), text, rich_style(rng, origin)]
        for _ in range(ctx.n(2, 4)):
            other = list(lines)
            rng.shuffle(other)
            t2 = base + b"\n".join(other) + b"\n"
            yield "respell-order", [21, origin, int(rel), text, t2]
            yield "rrsets-order", [24, origin, int(rel), text, t2]
    # RFC 3597 syntax of wire-modelled known types, well formed and damaged: model correspondence
    for i in range(ctx.n(120, 1500)):
        origin, text = gen_generic_read(rng)
        yield "read", [1, origin, int(rng.random() < 0.7), 1, text]
        if b"$ORIGIN" not in text and rng.random() < 0.5:
            yield "rrsets", [6, origin, int(rng.random() < 0.7), text]
    # RFC 3597 spelling of known types with embedded names, under the zone origin / a $ORIGIN below it / an
    # $INCLUDE origin below it, relativized and absolute zones
    for i in range(ctx.n(160, 2500)):
        origin, head, bodies, how, cur = gen_respell_generic(rng)
        rel = int(rng.random() < 0.7)
        if how == "include":
            texts = [head + b"$INCLUDE @@FILE1@@ " + name_text(cur) + b"\ntail 300 IN A 192.0.2.1\n" for b in bodies]
            yield "respell-generic", [29, origin, rel, texts, [[b] for b in bodies], cur]
        else:
            pre = b"" if how == "zone" else b"$ORIGIN " + name_text(cur) + b"\n"
            texts = [head + pre + b for b in bodies]
            yield "respell-generic", [29, origin, rel, texts, [], cur]
    # $UNICODE (oracle only): UTF-8 TXT data and IDNA owner names survive write-then-read
    for i in range(ctx.n(30, 300)):
        origin = [b"example", b""]
        rel = rng.random() < 0.5
        words = ["gr\u00fc\u00dfe", "caf\u00e9 \\\" ; x", "\u65e5\u672c", "plain", "na\u00efve (x)"]
        names = ["b\u00fccher", "m\u00fcnchen.sub", "www", "\u00e9cole"]
        lines = ["$UNICODE " + rng.choice(["2003 TXT", "TXT", "2003", "txt 2003"]),
                 "@ 300 IN SOA ns hostmaster 1 2 3 4 5", "@ 300 IN NS ns"]
        idn = "2003" in lines[0]
        for n in rng.sample(names, rng.randint(1, 3)):
            if not idn and any(ord(ch) > 127 for ch in n):
                continue
            lines.append('%s %d IN A 10.0.0.%d' % (n, rng.choice([300, 60]), rng.randrange(250)))
            if rng.random() < 0.6:
                lines.append('%s 300 IN TXT %s' % (n, " ".join('"%s"' % rng.choice(words) for _ in range(rng.randint(1, 2)))))
        yield "unicode-roundtrip", [26, origin, int(rel), ("\n".join(lines) + "\n").encode("utf-8")]
    for i in range(ctx.n(80, 1200)):
        origin, rel, nodes = gen_zone(rng, max_names=rng.choice([1, 3]))
        base = zone_file(rng, origin, rel, nodes, plain=True)
        fancy = zone_file(rng, origin, rel, nodes, plain=False, noise=0.2, directives=False)
        yield "rrsets-respell", [24, origin, int(rel), base, fancy]
        yield "rrsets-roundtrip", [27, origin, int(rel), base, int(rng.random() < 0.5)]
        if origin != [b""]:
            inh, exp = outside_block(rng, origin, allow_origin_switch=False)
            k = rng.randrange(10**6)
            t_inh = with_block(random.Random(k), base, inh)
            t_exp = with_block(random.Random(k), base, exp)
            yield "rrsets-outside-inherit", [24, origin, int(rel), base, t_inh]
            yield "rrsets-owner-outside", [24, origin, int(rel), t_exp, t_inh]


_WEIRD_INT = re.compile(rb"^[0-9+_-]*[+_-][0-9+_-]*$")
_ESC_BLANK_INT = re.compile(rb'(?:^|[ \t\n()";])(?:[0-9]+\\[ \t]|\\[ \t][0-9]+(?:$|[ \t\n()";]))')
_SPLIT = re.compile(rb"[ \t\n()\";]+")
_MODEL_TYPES = {k.encode() for k in T}


def unmodelled_token(text):
    """a token the library would read as a record type the model has no schema for, or an
    integer spelling only Python's int() accepts: such files are compared by the oracle only"""
    if _ESC_BLANK_INT.search(text):
        return True         # an escaped blank next to digits: int("65535 ") is Python's reading
    prev = b""
    for t in _SPLIT.split(text):
        if not t:
            continue
        was_generate, pprev, prev = prev.upper() == b"$GENERATE", prev, t
        if t.startswith(b"$"):
            continue
        u = t.upper()
        if t == b"\\#" and pprev.upper() in _NOT_WIRE_MODELLED:
            return True     # RFC 3597 syntax of a known type whose wire layout the model does not decode
        if was_generate and re.match(rb"^[0-9]+-[0-9]+(/[0-9]+)?$", t):
            continue        # a plain $GENERATE range (the model's grange reads these)
        if _WEIRD_INT.match(t) and any(48 <= c <= 57 for c in t):
            return True
        if u in _MODEL_TYPES or b"\\" in t:
            continue
        try:
            v = int(dns.rdatatype.from_text(t.decode("latin-1")))
        except Exception:
            continue
        if u.startswith(b"TYPE"):
            if v in TNAME or dns.rdatatype.to_text(v).startswith("TYPE"):
                continue
        return True
    return False


def relative_origin_directive(text):
    """a $ORIGIN whose argument is not an absolute name: the reader then works with a relative
    current origin, which the model does not cover (it answers eUnmodelled)"""
    toks = [t for t in _SPLIT.split(text) if t]
    for i, t in enumerate(toks):
        if t.upper() == b"$ORIGIN" and i + 1 < len(toks):
            a = toks[i + 1]
            if not a.endswith(b".") or a.endswith(b"\\."):
                return True
    return False


def in_model(kind, case):
    if case[0] == 1:
        return (not unmodelled_token(case[4]) and all(c < 128 for c in case[4])
                and not relative_origin_directive(case[4]))
    if case[0] == 6:
        return not unmodelled_token(case[3]) and all(c < 128 for c in case[3])
    return case[0] in (2, 3, 4)


# ------------------------------------------------------------------ implementation


def load(text, origin, rel, chk=True):
    return dns.zone.from_text(text.decode("latin-1"), origin=oname(origin), relativize=bool(rel), check_origin=bool(chk))


def impl(case):
    op = case[0]
    try:
        if op == 1:
            return dump(load(case[4], case[1], case[2], case[3]))
        if op == 2:
            z = build_pyzone(case[1], bool(case[2]), case[3])
            return z.to_styled_text(py_style(case[4], nl="\n")).encode("latin-1")
        if op == 3:
            return dns.ttl.from_text(bytes(case[1]).decode("latin-1"))
        if op == 4:
            try:
                return list(dns.grange.from_text(bytes(case[1]).decode("latin-1")))
            except dns.exception.SyntaxError:
                return Err(1, "SyntaxError")
        if op == 20:
            z = load(case[3], case[1], case[2])
            so, extra = case[4]
            extra = {(k.decode() if isinstance(k, bytes) else k): (v.decode() if isinstance(v, bytes) else v) for k, v in extra}
            for k in ("want_comments", "txt_is_utf8"):
                if k in extra:
                    extra[k] = bool(extra[k])
            st = py_style(so, **extra)
            res = []
            # (a) to_styled_text / from_text, (b) to_file(binary) / from_file
            t = z.to_styled_text(st)
            if st.nl in (None, "\n"):
                z2 = dns.zone.from_text(t, origin=oname(case[1]), relativize=bool(case[2]))
                res.append([int(z2 == z), int(zcanon(z2) == zcanon(z)), t.encode("latin-1", "replace")[:4000]])
                # the zone read back writes the same text again, and every node holds one rdataset per (type, covers)
                t2 = z2.to_styled_text(st)
                res.append([int(t2 == t), int(nodes_well_formed(z) and nodes_well_formed(z2)), t2.encode("latin-1", "replace")[:4000]])
            f = io.BytesIO()
            z.to_file(f, style=st)
            with tempfile.NamedTemporaryFile(delete=False) as tf:
                tf.write(f.getvalue().replace(os.linesep.encode(), b"\n") if st.nl is None else f.getvalue())
                path = tf.name
            try:
                z3 = dns.zone.from_file(path, origin=oname(case[1]), relativize=bool(case[2]))
            finally:
                os.unlink(path)
            res.append([int(z3 == z), int(zcanon(z3) == zcanon(z)), f.getvalue()[:4000]])
            # (b') to_file(filename) / from_file(open text file object)
            d = tempfile.mkdtemp(prefix="c09f")
            try:
                path = os.path.join(d, "out.zone")
                z.to_file(path, style=st if st.nl is not None else st.replace(nl="\n"))
                with open(path, encoding="utf-8") as fo:
                    z5 = dns.zone.from_file(fo, origin=oname(case[1]), relativize=bool(case[2]))
                with open(path, "rb") as fo:
                    raw = fo.read()
            finally:
                for fn in os.listdir(d):
                    os.unlink(os.path.join(d, fn))
                os.rmdir(d)
            res.append([int(z5 == z), int(zcanon(z5) == zcanon(z)), raw[:4000]])
            # (c) the keyword API: Zone.to_text(sorted, relativize, nl, want_comments, want_origin)
            t = z.to_text(sorted=st.sorted, relativize=st.relativize or z.relativize, nl="\n",
                          want_comments=st.want_comments, want_origin=st.want_origin)
            z4 = dns.zone.from_text(t, origin=oname(case[1]), relativize=bool(case[2]))
            res.append([int(z4 == z), int(zcanon(z4) == zcanon(z)), t.encode("latin-1", "replace")[:4000]])
            return res
        if op == 21:
            zs, codes = [], []
            for t in (case[3], case[4]):
                try:
                    zs.append(load(t, case[1], case[2]))
                    codes.append(0)
                except Exception as e:  # noqa
                    zs.append(None)
                    codes.append(exc_code(e).code)
            if codes != [0, 0]:
                return [codes[0], codes[1], 0, 0]
            return [0, 0, int(zs[0] == zs[1]), int(zcanon(zs[0]) == zcanon(zs[1]))]
        if op == 6:
            rr = dns.zonefile.read_rrsets(bytes(case[3]).decode("latin-1"), rdclass=None, origin=oname(case[1]),
                                          relativize=bool(case[2]))
            return [[labels_of(r.name), [int(r.rdtype), int(r.covers), int(r.ttl), [rd_text(rd) for rd in r]]] for r in rr]
        if op == 25:
            main1, inc_origin, inc, main2, flat = case[3:8]
            d = tempfile.mkdtemp(prefix="c09inc")
            try:
                path = os.path.join(d, "part.zone")
                with open(path, "wb") as f:
                    f.write(inc)
                directive = b"$INCLUDE " + path.encode() + (b" " + name_text(inc_origin) if inc_origin is not None else b"") + b"\n"
                text = main1 + directive + main2
                z1 = dns.zone.from_text(text.decode("latin-1"), origin=oname(case[1]), relativize=bool(case[2]), allow_include=True)
                mpath = os.path.join(d, "main.zone")
                with open(mpath, "wb") as f:
                    f.write(text)
                z2 = dns.zone.from_file(mpath, origin=oname(case[1]), relativize=bool(case[2]))
            finally:
                for fn in os.listdir(d):
                    os.unlink(os.path.join(d, fn))
                os.rmdir(d)
            z3 = load(flat, case[1], case[2])
            return [int(z1 == z3), int(zcanon(z1) == zcanon(z3)), int(z2 == z3), int(zcanon(z2) == zcanon(z3))]
        if op == 28:
            files, explicit, inlined = case[3], case[4], case[5]
            o, rel = oname(case[1]), bool(case[2])
            d = tempfile.mkdtemp(prefix="c09inc")
            try:
                paths = [os.path.join(d, "f%d.zone" % k) for k in range(len(files))]
                for k, t in enumerate(files):
                    for j, pth in enumerate(paths):
                        t = t.replace(b"@@FILE%d@@" % j, pth.encode())
                    with open(paths[k], "wb") as f:
                        f.write(t)
                    if k == 0:
                        main = t
                loaders = [
                    lambda: dns.zone.from_text(main.decode("latin-1"), origin=o, relativize=rel, allow_include=True, check_origin=False),
                    lambda: dns.zone.from_file(paths[0], origin=o, relativize=rel, check_origin=False),
                    lambda: dns.zone.from_text(explicit.decode("latin-1"), origin=o, relativize=rel, check_origin=False),
                    lambda: dns.zone.from_text(inlined.decode("latin-1"), origin=o, relativize=rel, check_origin=False),
                ]
                zs, codes = [], []
                for ld in loaders:
                    try:
                        zs.append(ld())
                        codes.append(0)
                    except Exception as e:  # noqa
                        zs.append(None)
                        codes.append(exc_code(e).code)
            finally:
                for fn in os.listdir(d):
                    os.unlink(os.path.join(d, fn))
                os.rmdir(d)
            if any(codes):
                return [codes, [], 0]
            ref = zs[2]
            nrec = sum(len(r) for node in ref.nodes.values() for r in node.rdatasets)
            return [codes, [[int(z == ref), int(zcanon(z) == zcanon(ref))] for z in (zs[0], zs[1], zs[3])], nrec]
        if op == 29:
            texts, files, cur = case[3], case[4], case[5]
            o, rel = oname(case[1]), bool(case[2])
            zs, codes = [], []
            d = tempfile.mkdtemp(prefix="c09gen")
            try:
                for k, t in enumerate(texts):
                    try:
                        if files:
                            pth = os.path.join(d, "inc%d.zone" % k)
                            with open(pth, "wb") as f:
                                f.write(files[k][0])
                            t = t.replace(b"@@FILE1@@", pth.encode())
                        zs.append(dns.zone.from_text(t.decode("latin-1"), origin=o, relativize=rel, allow_include=True))
                        codes.append(0)
                    except Exception as e:  # noqa
                        zs.append(None)
                        codes.append(exc_code(e).code)
            finally:
                for fn in os.listdir(d):
                    os.unlink(os.path.join(d, fn))
                os.rmdir(d)
            if any(codes):
                return [codes, [], []]
            ref = zs[1]          # the spelling with absolute names
            eqs = [[int(z == ref), int(zcanon(z) == zcanon(ref)), int(canon(dump(z)) == canon(dump(ref)))] for z in zs]
            # the generic output of the loaded zone (absolute owners, `\#` rdata) read again below the $ORIGIN
            t = ref.to_styled_text(dns.zone.ZoneStyle(want_generic=True, relativize=False, origin=ref.origin))
            z2 = dns.zone.from_text("$ORIGIN " + dns.name.Name(cur).to_text() + "\n" + t, origin=o, relativize=rel)
            return [codes, eqs, [int(z2 == ref), int(zcanon(z2) == zcanon(ref)), int(canon(dump(z2)) == canon(dump(ref)))]]
        if op == 26:
            text = bytes(case[3]).decode("utf-8")
            z = dns.zone.from_text(text, origin=oname(case[1]), relativize=bool(case[2]))
            t = z.to_text(relativize=bool(case[2]))
            z2 = dns.zone.from_text(t, origin=oname(case[1]), relativize=bool(case[2]))
            return [int(z2 == z), int(zcanon(z2) == zcanon(z)), int(z2.unicode == z.unicode),
                    int(t.startswith("$UNICODE"))]
        if op == 27:
            o = oname(case[1])
            rel = bool(case[2])
            rr = dns.zonefile.read_rrsets(bytes(case[3]).decode("latin-1"), rdclass=None, origin=o, relativize=rel)
            want_rel = bool(case[4])
            text = "".join(r.to_text(origin=o, relativize=want_rel) + "\n" for r in rr)
            rr2 = dns.zonefile.read_rrsets(text, rdclass=None, origin=o, relativize=rel)
            key = lambda rs: sorted((tuple(lower(x) for x in labels_of(r.name)), int(r.rdtype), int(r.covers), int(r.ttl),
                                     tuple(sorted(rd_text(rd) for rd in r))) for r in rs)
            return [int(key(rr) == key(rr2)), int(all(a == b for a, b in zip(sorted(rr, key=lambda r: (r.name, r.rdtype, r.covers)),
                                                                         sorted(rr2, key=lambda r: (r.name, r.rdtype, r.covers))))),
                    len(rr), text.encode("latin-1", "replace")[:3000]]
        if op == 24:
            outs, codes = [], []
            for t in (case[3], case[4]):
                try:
                    rr = dns.zonefile.read_rrsets(t.decode("latin-1"), rdclass=None, origin=oname(case[1]), relativize=bool(case[2]))
                    outs.append(sorted((labels_of(r.name), int(r.rdtype), int(r.covers), int(r.ttl), sorted(rd_text(rd) for rd in r))
                                       for r in rr))
                    codes.append(0)
                except Exception as e:  # noqa
                    outs.append(None)
                    codes.append(exc_code(e).code)
            if codes != [0, 0]:
                return [codes[0], codes[1], 0, 0, int(all(o is None or rrsets_exclusive(o) for o in outs))]
            lc = lambda rs: [(tuple(lower(x) for x in n), ty, cov, ttl, rds) for n, ty, cov, ttl, rds in rs]
            return [0, 0, int(lc(outs[0]) == lc(outs[1])), len(outs[0]), int(rrsets_exclusive(outs[0]) and rrsets_exclusive(outs[1]))]
        if op == 23:
            return dns.ttl.from_text(str(case[1]))
    except Exception as e:  # noqa
        return exc_code(e)
    raise ValueError(f"bad op {op}")


# ------------------------------------------------------------------ oracle


def rrsets_exclusive(rs):
    """no owner has a CNAME / RRSIG(CNAME) rrset together with other (non-neutral) data;
    rs = [(name, type, covers, ttl, rdatas)...]"""
    by = {}
    for n, ty, cov, ttl, rds in rs:
        by.setdefault(tuple(lower(x) for x in n), set()).add(kind_of(ty, cov))
    return not any("C" in ks and "R" in ks for ks in by.values())


AGREE_KINDS = ("respell-generate", "respell-order", "rrsets-order")


def node_kinds(rdss):
    return {kind_of(ty, cov) for ty, cov, _, rds in rdss if rds}


def oracle(ctx, kind, case, out):
    F = []

    def fail(what, **kw):
        F.append({"kind": kind + ":" + what, "what": what, "impl": out, **kw})

    op = case[0]
    if isinstance(out, Err):
        # which exception classes may escape is C04's property; here only well-formed input matters
        if op in (20, 21, 23, 24, 25, 26, 27) and (out.code >= 100 or out.code < 0 or out.code == 11):
            fail("unexpected exception " + out.text, sig="exc")
        if op in (20, 25, 26, 27) and out.code < 100:
            fail("a well-formed zone / respelling was rejected: " + out.text, sig="rejected-" + str(out.code))
        if op == 23 and 0 <= case[1] <= 2**32 - 1:
            fail("decimal TTL rejected")
        return F
    if op == 1:
        # a CNAME never coexists with other data after loading
        for n, rdss in out[1]:
            ks = node_kinds(rdss)
            if "C" in ks and "R" in ks:
                fail("CNAME and other data at one name after loading", sig="cname")
        # one rdataset per (type, covers) at a name, every record once
        for n, rdss in out[1]:
            keys = [(ty, cov) for ty, cov, ttl, rds in rdss]
            if len(set(keys)) != len(keys):
                fail("two rdatasets with the same type and covered type at one name after loading", sig="split-rdataset")
        # records outside the origin are ignored
        if out[0] is not None:
            for n, rdss in out[1]:
                nabs = n if (n and n[-1] == b"") else n + out[0]
                if not is_sub(nabs, out[0]):
                    fail("a name outside the origin was loaded", sig="outside")
    elif op == 6:
        if not rrsets_exclusive([(n, r[0], r[1], r[2], r[3]) for n, r in out]):
            fail("read_rrsets returned a CNAME together with other data at one owner", sig="rrsets-cname")
        keys = [(tuple(lower(x) for x in n), r[0], r[1]) for n, r in out]
        if len(set(keys)) != len(keys):
            fail("read_rrsets returned two rrsets with the same owner, type and covered type", sig="rrsets-split")
    elif op == 20:
        for i, r in enumerate(out):
            if len(out) == 5 and i == 1:
                if not r[0]:
                    fail("the zone read back is written differently the second time", sig="roundtrip-second-write", style=case[4])
                if not r[1]:
                    fail("a node holds two rdatasets with the same type and covered type", sig="split-rdataset", style=case[4])
                continue
            if not (r[0] and r[1]):
                fail("zone changed by write-then-read" + ("" if r[0] else " (zones unequal)") + ("" if r[1] else " (records/TTLs differ)"),
                     sig="roundtrip", style=case[4])
    elif op == 21:
        c1, c2, eq, eqd = out
        if kind in AGREE_KINDS:
            # the two spellings must be accepted or rejected alike (record order within a name, or a
            # $GENERATE statement and its expansion)
            if (c1 == 0) != (c2 == 0):
                fail("equivalent spellings: one is rejected, the other loads (%d / %d)" % (c1, c2), sig=kind)
            elif c1 == 0 and not (eq and eqd):
                fail("equivalent spellings loaded to different zones", sig=kind)
        elif c1 or c2:
            fail("a well-formed spelling was rejected (%d / %d)" % (c1, c2), sig=kind + "-rejected")
        elif not (eq and eqd):
            fail("equivalent spellings loaded to different zones", sig=kind)
    elif op == 27:
        if not (out[0] and out[1]):
            fail("rrsets changed by RRset.to_text then read_rrsets", sig=kind)
    elif op == 25:
        if not all(out):
            fail("$INCLUDE: the split file and the flat file loaded to different zones", sig=kind)
    elif op == 28:
        codes, eqs, nrec = out
        names = ["from_text with $INCLUDE", "from_file with $INCLUDE", "the inlined file"]
        if any(codes):
            fail("$INCLUDE family: a well-formed spelling was rejected (codes %r for include/from_file/explicit/inlined)" % (codes,),
                 sig=kind + "-rejected")
        else:
            for nm, (eq, eqd) in zip(names, eqs):
                if not eq:
                    fail("%s and the explicit spelling loaded to different zones" % nm, sig=kind)
                elif not eqd:
                    fail("%s and the explicit spelling loaded to zones with different TTLs" % nm, sig=kind + "-ttl")
    elif op == 29:
        codes, eqs, back = out
        spell = ["relative names", "absolute names", "\\# generic syntax", "CLASS1 TYPEn \\# generic syntax"]
        if any(codes):
            fail("a well-formed spelling of a known type was rejected (codes %r for relative/absolute/generic/CLASS-TYPE-generic)" % (codes,),
                 sig=kind + "-rejected")
        else:
            for nm, e in zip(spell, eqs):
                if not all(e):
                    fail("the spelling with %s and the spelling with absolute names loaded to different zones / rdata names (%r)" % (nm, e),
                         sig=kind)
            if not all(back):
                fail("want_generic output read again below $ORIGIN differs from the zone (%r)" % (back,), sig=kind + "-output")
    elif op == 26:
        if not all(out):
            fail("$UNICODE zone changed by write-then-read", sig=kind)
    elif op == 24:
        c1, c2, eq, n1, excl = out
        if not excl:
            fail("read_rrsets returned a CNAME together with other data at one owner", sig="rrsets-cname")
        if kind in AGREE_KINDS:
            if (c1 == 0) != (c2 == 0):
                fail("read_rrsets: one record order is rejected, the other loads (%d / %d)" % (c1, c2), sig=kind)
            elif c1 == 0 and not eq:
                fail("read_rrsets: record orders gave different rrsets", sig=kind)
        elif c1 or c2:
            fail("read_rrsets rejected a well-formed spelling (%d / %d)" % (c1, c2), sig=kind + "-rejected")
        elif not eq:
            fail("read_rrsets: equivalent spellings gave different rrsets", sig=kind)
    elif op == 23:
        n = case[1]
        if 0 <= n <= 2**32 - 1:
            if out != n:
                fail("ttl text round trip")
        else:
            fail("out-of-range TTL accepted")
    return F


# ------------------------------------------------------------------ exhaustive style product on fixed zones

EXH_TEXT = (b"@ 3600 IN SOA ns hostmaster 1 7200 900 1209600 300\n@ 3600 IN NS ns\n@ 3600 IN NS ns2.elsewhere.\n"
            b"@ 300 IN MX 10 mail\nns 300 IN A 192.0.2.1\nns 300 IN AAAA 2001:db8::1\nmail 300 IN A 192.0.2.2\n"
            b"mail 7 IN A 192.0.2.3\nwww 60 IN CNAME ns\nwww 60 IN RRSIG CNAME 8 2 60 20260101000000 20250101000000 1 @ AQID\n"
            b"txt 0 IN TXT \"a b\" \"\\\"\\;(\"\nkey 300 IN DNSKEY 256 3 8 AAECAwQFBgcICQoLDA0ODxAREhMUFRYXGBkaGxwdHh8gISIjJCUmJygpKissLS4v\n"
            b"a.b.c 4294967295 IN TYPE65280 \\# 3 010203\n\\$x.\\@ 300 IN PTR @\n")


def extra(ctx):
    """every combination of the boolean lossless options x output relativity x default TTL, on a fixed zone,
    relativized and absolute (the whole product, not a sample)"""
    import itertools
    fails = []
    n = 0
    origin = [b"example", b""]
    for rel in (0, 1):
        for srt, wo, dd, oc, ge, wc in itertools.product((0, 1), repeat=6):
            for dt in (None, 300):
                for org, rl in ((None, 0), (origin, 1), (origin, 0)):
                    if ctx.quick and (srt + wo + dd + oc + ge + wc) % 2 == 1:
                        continue   # quick: half of the product
                    so = [srt, wo, dt, dd, 0, oc, 0, ge, -16 if dd else 0, 6, 0, -6, org, rl, 0]
                    case = normalize_case([20, origin, rel, EXH_TEXT, [so, [["want_comments", wc]]]])
                    out = impl(case)
                    n += 1
                    for f in oracle(ctx, "roundtrip-exhaustive", case, out):
                        f["case"] = case
                        f["case_kind"] = "roundtrip-exhaustive"
                        fails.append(f)
    # every spelling of one record line: owner x TTL x class x order x type x rdata name x layout
    origin = [b"example", b""]
    pre = b"$TTL 300\n@ 3600 IN SOA ns hostmaster 1 7200 900 1209600 300\n@ 3600 IN NS ns\nwww 300 IN A 10.0.0.1\n"
    plain = pre + b"www 300 IN MX 10 mail\n"
    for rel in (0, 1):
        for own, ttl, cls, order, ty, tgt, lay in itertools.product(
                (b"www", b"www.example.", b"WWW", None), (b"300", b"5m", b"0h5M0s", None), (b"IN", b"in", b"CLASS1", None),
                (0, 1), (b"MX", b"mx", b"TYPE15"), (b"mail", b"mail.example.", b"MAIL.example."), (0, 1, 2, 3)):
            if ctx.quick and (hash((own, ttl, cls, order, ty, tgt, lay, rel)) % 8):
                continue
            mid = [x for x in ((cls, ttl) if order else (ttl, cls)) if x is not None]
            fields = ([own] if own is not None else []) + mid + [ty]
            rd = [b"10", tgt]
            if lay == 0:
                line = b" ".join(fields + rd)
            elif lay == 1:
                line = b"\t".join(fields) + b" ( " + rd[0] + b"\n\t" + rd[1] + b" ) ; comment"
            elif lay == 2:
                line = b"  ".join(fields[:1]) + b" (\n" + b" ".join(fields[1:] + rd) + b"\n)" if own is not None else \
                    b" ".join(fields) + b" (" + b" ".join(rd) + b")"
            else:
                line = b" ".join(fields) + b" " + rd[0] + b"\t" + rd[1] + b"   ;x"
            if own is None:
                line = b"    " + line
            case = normalize_case([21, origin, rel, plain, pre + line + b"\n"])
            out = impl(case)
            n += 1
            for f in oracle(ctx, "respell-exhaustive", case, out):
                f["case"] = case
                f["case_kind"] = "respell-exhaustive"
                fails.append(f)
    ctx.notes["exhaustive"] = not ctx.quick   # the sub-spaces named in exhaustive_scope; the other cases are sampled
    ctx.notes["extra_evaluations"] = n
    ctx.notes["extra_nontrivial"] = n
    ctx.notes["exhaustive_scope"] = "style product sorted x want_origin x deduplicate_names x omit_rdclass x want_generic x want_comments x default_ttl{None,300} x (origin,relativize){(None,F),(o,T),(o,F)} x zone relativized/absolute on a fixed 8-name zone (quick: the even-parity half); every spelling of one MX record line: owner {www, www.example., WWW, inherited} x TTL {300, 5m, 0h5M0s, omitted} x class {IN, in, CLASS1, omitted} x TTL/class order x type {MX, mx, TYPE15} x target {relative, absolute, other case} x 4 layouts (parentheses, tabs, comments) x relativized/absolute zone (quick: one eighth)"
    return fails


def normalize_case(c):
    import lib
    return lib.normalize(c)
