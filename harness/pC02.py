"""C02 - every record type's wire form round-trips and re-encodes byte-identically.

Pieces
  * generated_obligations: tools/translate_rdtypes.py reads dns/rdtypes/** of the tree under test,
    emits the per-type table (writer side / reader side) as Coq, proves `forallb entry_ok table`
    there, and that file also provides the model's `run` for this run.
  * cases: for EVERY implemented type (found through the library's own dispatch) values drawn from
    the schema (or the hand generators of records.py) -> "enc"; octet strings (valid specimens,
    mutations, splices, compression pointers, random octets) decoded as the same type, as other
    types, as unknown type codes and classes -> "dec".
  * impl: the real constructor / to_wire / dns.rdata.from_wire.
  * oracle: the property text on implementation outputs only.
"""
import io
import os
import re
import sys
import time

import dns.exception
import dns.name
import dns.rdata
import dns.rdataclass
import dns.rdatatype
import dns.wire

import lib
import namelib as nl
import records as R
from lib import Err

sys.path.insert(0, os.path.join(lib.VERIF, "tools"))
import translate_rdtypes as TR  # noqa: E402

ID = "C02"
TRUSTED = [
    "model: coq/Model/SchemaM.v (field language, generic encode/decode, decode_rdata = dns.rdata.from_wire with restrict_to, get_rdata_class lookup) on top of coq/Model/NameM.v (names in RDATA)",
    "tools/translate_rdtypes.py (fail-closed ast reader of dns/rdtypes/**, run on every check); its table is executed by the generic codec against the real to_wire/from_wire of every type in this run",
    "harness/records.py (value generators through the class constructors)",
]
RULE = ("cases: per implemented (class,type): schema-driven values at empty/maximal/high-bit/zero-count and random, with and without origin; "
        "octet strings = valid specimens + mutations + random, decoded as every kind of type incl. unknown codes; distinct = distinct canonical case")
CASE_TIMEOUT = 600.0   # the dispatch/history cases run child interpreters; the box is shared
MODEL_MAX_WIRE = 1500

ORIGINS = [[b"example", b""], [b"Example", b"COM", b""], [b"a", b"b", b"c", b"d", b"e", b""], [b"x" * 63, b"y" * 63, b""], [b""]]

# dns.rdata.get_rdata_class caches GenericRdata under (ANY, type) when a type that only exists
# for class IN (A, AAAA, SRV, ...) is first asked for in class ANY, and a LATER first lookup of
# (IN, type) then resolves to that entry (upstream behaviour, known finding C02-dispatch-any-first).
# Resolve every implemented (class, type) once, in table order, before any case runs, so that the
# results of this process do not depend on the order of the generated cases.  (The loader states
# themselves are exercised in fresh child processes: "dispatch" cases.)


def _warm_dispatch():
    for t in R.table().types:
        try:
            dns.rdata.get_rdata_class(1 if t["rdclass"] == 255 else t["rdclass"], t["rdtype"])
        except Exception:
            pass


if not any(a.endswith("-child") for a in sys.argv):
    _warm_dispatch()

# ------------------------------------------------------------------ generated Coq table

_gen_state = {}


def _scratch():
    return os.path.join(lib.VERIF, "build", f"{ID}-{os.getpid()}", "cases")


def ensure_generated():
    """translate /repo's rdtypes, write + compile GenRdtypes.v in the scratch dir (once)"""
    if _gen_state:
        return _gen_state
    t0 = time.time()
    tr = R.table().tr
    d = _scratch()
    os.makedirs(d, exist_ok=True)
    # GenRdtypes.v: the table and the model's `run` (must compile even when a theorem fails, so
    # that the correspondence still pinpoints the disagreeing type); GenProofs.v: the theorems
    src = TR.emit_coq(tr).replace("Model.SchemaM.", "Model.SchemaM Model.SchemaHand Model.SchemaRun Model.DispatchM.", 1) + """
(* members of dns.rdatatype.RdataType (what load_all_types walks) and the module set *)
Definition rdatatype_members : list Z := [%s].
Definition mods : list key := map (fun e => (e_class e, e_type e)) table.
Definition hand_table : list (Z * Z * hid) := [%s].
(* does the writer hand the compression table to an embedded name?  (per type; and the number of
   such name writes in classes outside the allowed set, hand-modelled codecs and helpers included) *)
Definition name_compress : list (Z * Z * bool) := [%s].
Definition stray_compress_sites : nat := %d%%nat.
Definition run (c : obs) : obs :=
  match c with
  | L [I 22; L steps] =>
      match steps_of_obs steps with
      | Some h => L (run_history mods rdatatype_members h init_state)
      | None => E eBadCase
      end
  | _ => run_all table hand_table c
  end.
""" % ("; ".join(str(v) for v in tr["rdatatype_members"]),
       "; ".join(f"({t['rdclass']}, {t['rdtype']}, {TR.COQ_HAND[t['hand']]})" for t in tr["types"] if t["kind"] == "hand" and t["hand"] in TR.COQ_HAND),
       "; ".join(f"({c}, {t}, {'true' if b else 'false'})" for c, t, b in tr["name_compress"]), len(tr["stray_compress_sites"]))
    proofs = r"""From DV Require Import Base.Prelude Model.NameM Model.SchemaM Model.DispatchM Proofs.SchemaCodec Proofs.SchemaTable Proofs.SchemaOrigin Proofs.SchemaOriginFix Proofs.SchemaDispatch.
From Scratch Require Import GenRdtypes.
Open Scope Z_scope.
Theorem gen_table_ok : forallb entry_ok table = true.
Proof. vm_compute. reflexivity. Qed.
(* the only type whose reader and writer disagree about the origin is TSIG (known finding) *)
Theorem gen_table_origin_exceptions :
  map (fun e => (e_class e, e_type e)) (filter (fun e => negb (entry_origin_ok e)) table) = [(255, 250)].
Proof. vm_compute. reflexivity. Qed.
(* only the RFC 1035 name types (and SRV, NAPTR) compress embedded names *)
Theorem gen_compress_ok : compress_ok name_compress stray_compress_sites = true.
Proof. vm_compute. reflexivity. Qed.
(* the generic theorems instantiated on the table generated from the sources of this run *)
Theorem gen_table_roundtrip : forall e w r ck vs b A P,
  In e table -> e_codec e = CSchema w r ck ->
  encode_rdata None (map fst w) ck vs = Ok b ->
  decode_rdata None (map fst r) ck (A ++ b ++ P) (length A) (length b) = Ok vs.
Proof. intros. eapply table_roundtrip_none; eauto. exact gen_table_ok. Qed.
Theorem gen_table_fixed_point : forall e w r ck wire cur rdlen vs,
  In e table -> e_codec e = CSchema w r ck ->
  decode_rdata None (map fst r) ck wire cur rdlen = Ok vs ->
  exists w', encode_rdata None (map fst w) ck vs = Ok w' /\
             decode_rdata None (map fst r) ck w' 0 (length w') = Ok vs /\
             (forall vs', decode_rdata None (map fst r) ck w' 0 (length w') = Ok vs' ->
                          encode_rdata None (map fst w) ck vs' = Ok w').
Proof. intros. eapply table_fixed_point_none; eauto. exact gen_table_ok. Qed.
Theorem gen_table_roundtrip_origin : forall o e w r ck vs b A P,
  In e table -> entry_origin_ok e = true -> e_codec e = CSchema w r ck -> is_absolute o = true ->
  nok_fields (nok_origin o) (map fst w) vs ->
  encode_rdata (Some o) (map fst w) ck vs = Ok b ->
  decode_rdata (Some o) (map fst r) ck (A ++ b ++ P) (length A) (length b) = Ok vs.
Proof. intros. eapply table_roundtrip_origin_thm; eauto. exact gen_table_ok. Qed.
Theorem gen_table_fixed_point_origin : forall o e w r ck wire cur rdlen vs,
  In e table -> entry_origin_ok e = true -> e_codec e = CSchema w r ck -> is_absolute o = true ->
  decode_rdata (Some o) (map fst r) ck wire cur rdlen = Ok vs ->
  exists w', encode_rdata (Some o) (map fst w) ck vs = Ok w' /\
             decode_rdata (Some o) (map fst r) ck w' 0 (length w') = Ok vs.
Proof. intros. eapply table_fixed_point_origin_thm; eauto. exact gen_table_ok. Qed.
(* get_rdata_class on the module set of this tree: history-independent for safe histories *)
Theorem gen_dispatch_history_correct : forall h,
  forallb (safe_step mods) h = true ->
  run_history mods rdatatype_members h init_state = expected mods h.
Proof. apply dispatch_history_correct_thm; vm_compute; reflexivity. Qed.
Print Assumptions gen_table_roundtrip.
Print Assumptions gen_table_fixed_point.
Print Assumptions gen_table_roundtrip_origin.
Print Assumptions gen_dispatch_history_correct.
"""
    path = os.path.join(d, "GenRdtypes.v")
    with open(path, "w") as f:
        f.write(src)
    ppath = os.path.join(d, "GenProofs.v")
    with open(ppath, "w") as f:
        f.write(proofs)
    lib.coq_make(["Proofs/SchemaOriginFix.vo", "Proofs/SchemaDispatch.vo", "Model/SchemaRun.vo"])
    rc0, out0, _ = lib.run_cmd(["coqc", "-Q", lib.COQ, "DV", "-Q", d, "Scratch", path], timeout=900)
    rc, out, dt = (1, "table file did not compile:\n" + out0, 0) if rc0 != 0 else lib.run_cmd(["coqc", "-Q", lib.COQ, "DV", "-Q", d, "Scratch", ppath], timeout=900)
    thms = ["gen_table_ok", "gen_compress_ok", "gen_table_origin_exceptions", "gen_table_roundtrip", "gen_table_fixed_point", "gen_table_roundtrip_origin", "gen_table_fixed_point_origin", "gen_dispatch_history_correct", "translation_closed"]
    ok = rc == 0 and tr["ok"]
    discharged = (8 if rc == 0 else 0) + (1 if tr["ok"] else 0)
    if rc == 0 and "Closed under the global context" not in out:
        ok = False
    log = ""
    if not tr["ok"]:
        log += "translator failed closed: " + "; ".join(tr["errors"]) + "\n"
    if rc != 0:
        log += "generated table does not check:\n" + out[-2500:]
    _gen_state.update(
        ok=ok, obligations=9, discharged=discharged, theorems=thms, log=log, compiled=(rc0 == 0),
        info={"types_schema": sum(1 for t in tr["types"] if t["kind"] == "schema"),
              "types_hand": sorted(t["name"] for t in tr["types"] if t["kind"] == "hand"),
              "types_error": sorted(t["name"] for t in tr["types"] if t["kind"] == "error"),
              "translate_coqc_s": round(time.time() - t0, 2)},
    )
    return _gen_state


def generated_obligations(ctx):
    g = ensure_generated()
    return {k: g[k] for k in ("ok", "obligations", "discharged", "theorems", "log", "info")}


def __getattr__(name):  # PEP 562: COQ_IMPORTS / COQ_RUN need the generated file
    if name == "COQ_IMPORTS":
        g = ensure_generated()
        if g["compiled"]:
            return "From DV Require Import Model.NameM Model.SchemaM.\nFrom Scratch Require Import GenRdtypes."
        return "From DV Require Import Model.NameM Model.SchemaM."
    if name == "COQ_RUN":
        # read early by lib (truthiness only) and again at comparison time
        if _gen_state and not _gen_state["compiled"]:
            return "SchemaM.run"
        return "GenRdtypes.run"
    raise AttributeError(name)


# ------------------------------------------------------------------ case generation


def T():
    return R.table()


def model_has(rdclass, rdtype):
    t = T().lookup(rdclass, rdtype)
    if t is not None and t.get("from_snapshot"):
        return False      # translation failed closed for this type: oracle only
    return t is None or t["kind"] == "schema" or (t["kind"] == "hand" and t["hand"] in TR.COQ_HAND)


def pick_origin(rng, mode):
    if mode == "abs" and rng.random() < 0.6:
        return None
    return rng.choice(ORIGINS[:-1]) if rng.random() < 0.9 else ORIGINS[-1]


def real_class(t, rng=None):
    if t["rdclass"] != 255:
        return t["rdclass"]
    if rng is not None and rng.random() < 0.08:
        return rng.choice([3, 4, 254, 65535, 2])
    return 1


def specimen(rng, t, mode=None, origin="pick"):
    mode = mode or rng.choice(["abs", "abs", "rel", "mixed"])
    o = pick_origin(rng, mode) if origin == "pick" else origin
    if o is None:
        mode = "abs"
    vals = R.gen_values(rng, t, mode, o)
    return vals, o


def wire_of(t, rdclass, vals, o):
    try:
        x = R.make_rdata(t, rdclass, vals)
        return x.to_wire(origin=dns.name.Name(o) if o else None)
    except Exception:
        return None


def mutate(rng, w, other=None):
    b = bytearray(w)
    r = rng.random()
    if r < 0.25 and b:
        i = rng.randrange(len(b))
        b[i] ^= 1 << rng.randrange(8)
    elif r < 0.4 and b:
        i = rng.randrange(len(b))
        b[i] = rng.choice([0, 1, 0x3F, 0x40, 0x7F, 0x80, 0xC0, 0xFF, rng.randrange(256)])
    elif r < 0.55 and b:
        del b[rng.randrange(len(b)):]
    elif r < 0.7:
        b += bytes(rng.randrange(256) for _ in range(rng.choice([1, 1, 2, 4, 17])))
    elif r < 0.8 and b:
        i = rng.randrange(len(b))
        del b[i: i + rng.choice([1, 2, 4])]
    elif r < 0.9:
        i = rng.randrange(len(b) + 1)
        b[i:i] = bytes(rng.randrange(256) for _ in range(rng.choice([1, 2, 3])))
    elif other:
        i = rng.randrange(len(b) + 1)
        j = rng.randrange(len(other) + 1)
        b = b[:i] + bytearray(other[j:])
    return bytes(b)


def name_wire(labels):
    return b"".join(bytes([len(l)]) + l for l in labels)


def pointerize(rng, t, vals, o, w):
    """replace the uncompressed encoding of one name inside w by a pointer into a prefix"""
    names = [n for n in R.names_in(t, vals)]
    if not names:
        return None
    n = rng.choice(names)
    full = list(n) if n and n[-1] == b"" else list(n) + list(o or [b""])
    enc = name_wire(full)
    i = w.find(enc)
    if i < 0:
        return None
    pad = bytes(rng.randrange(256) for _ in range(rng.choice([0, 1, 12])))
    k = rng.randrange(len(full))  # keep k labels in place, point at the rest
    tail = name_wire(full[k:])
    prefix = pad + tail
    ptr = bytes([0xC0 | (len(pad) >> 8), len(pad) & 0xFF])
    new = w[:i] + name_wire(full[:k]) + ptr + w[i + len(enc):]
    return prefix, new


def dec_case(cl, ty, wire, cur, rdlen, o):
    op = 2 if model_has(cl, ty) and len(wire) <= MODEL_MAX_WIRE else 12
    return "dec", [op, cl, ty, wire, cur, rdlen, o]


def enc_case(t, cl, vals, o):
    op = 1 if (t["kind"] == "schema" and not t.get("from_snapshot")) or t.get("hand") in TR.COQ_HAND else 11
    return "enc", [op, cl, t["rdtype"], vals, o]


DISPATCH_MODES = [0, 1, 2]   # 0: dynamic loading; 1: load_all_types(); 2: load_all_types(False)

UNKNOWN_TYPES = [65280, 65534, 0, 4, 7, 3, 100, 256, 32770, 41, 251, 65535]


def cases(ctx):
    rng = ctx.rng
    tab = T()
    types = [t for t in tab.types if t["kind"] in ("schema", "hand")]
    n_enc = ctx.n(14, 240)
    n_dec = ctx.n(26, 500)
    for t in types:
        # ---- values -> wire
        specimens = []
        for vals, o in R.corners(t):
            cl = real_class(t)
            ctx.count("enc:corner")
            yield enc_case(t, cl, vals, o)
            w = wire_of(t, cl, vals, o)
            if w is not None and len(w) <= 400:
                ctx.count("dec:corner")
                yield dec_case(cl, t["rdtype"], b"\x00\x01" + w + b"\xff", 2, len(w), o)
                if rng.random() < 0.5:
                    m = mutate(rng, w)
                    yield dec_case(cl, t["rdtype"], m, 0, len(m), o)
        for i in range(n_enc):
            profile = ["min", "max", "high", "zero"][i] if i < 4 else None
            mode = rng.choice(["abs", "abs", "rel", "mixed"])
            o = pick_origin(rng, mode)
            if o is None:
                mode = "abs"
            vals = R.gen_values(rng, t, mode, o, profile)
            cl = real_class(t, rng)
            ctx.count("enc:" + mode + (":origin" if o else ""))
            yield enc_case(t, cl, vals, o)
            w = wire_of(t, cl, vals, o)
            if w is not None:
                specimens.append((cl, vals, o, w))
        for w in R.dec_corners(t):
            ctx.count("dec:noncanonical")
            yield dec_case(real_class(t), t["rdtype"], w, 0, len(w), None)
            yield dec_case(real_class(t), t["rdtype"], b"\x07example\x00" + w + b"\x00", 9, len(w), None)
        if t["kind"] == "schema" and rng.random() < 0.5:
            # a deliberately out-of-range value: constructor must refuse, model says ValueError
            vals, o = specimen(rng, t)
            bad = break_value(rng, t, vals)
            if bad is not None:
                yield "enc-bad", [11 if t.get("from_snapshot") else 1, real_class(t), t["rdtype"], bad, o]
        if not specimens:
            continue
        # ---- octets -> record
        for i in range(n_dec):
            cl, vals, o, w = rng.choice(specimens)
            r = rng.random()
            if r < 0.18:
                # the specimen itself, embedded in a message
                pre = bytes(rng.randrange(256) for _ in range(rng.choice([0, 0, 1, 7, 12])))
                post = bytes(rng.randrange(256) for _ in range(rng.choice([0, 0, 3])))
                ctx.count("dec:valid")
                yield dec_case(cl, t["rdtype"], pre + w + post, len(pre), len(w), o)
            elif r < 0.28:
                p = pointerize(rng, t, vals, o, w)
                if p:
                    prefix, new = p
                    ctx.count("dec:pointer")
                    yield dec_case(cl, t["rdtype"], prefix + new, len(prefix), len(new), o if rng.random() < 0.7 else None)
            elif r < 0.72:
                other = rng.choice(specimens)[3]
                m = mutate(rng, w, other)
                pre = bytes(rng.randrange(256) for _ in range(rng.choice([0, 0, 0, 5])))
                rdlen = len(m)
                q = rng.random()
                if q < 0.06:
                    rdlen += rng.choice([1, 2, 100])
                elif q < 0.12 and rdlen:
                    rdlen -= 1
                post = bytes(rng.randrange(256) for _ in range(rng.choice([0, 0, 2])))
                ctx.count("dec:mutated")
                yield dec_case(cl, t["rdtype"], pre + m + post, len(pre), rdlen, o if rng.random() < 0.8 else None)
            elif r < 0.86:
                # as another type / unknown type / other class
                q = rng.random()
                if q < 0.55:
                    t2 = rng.choice(types)
                    ty2, cl2 = t2["rdtype"], real_class(t2, rng)
                elif q < 0.85:
                    ty2, cl2 = rng.choice(UNKNOWN_TYPES + [rng.randrange(65536)]), rng.choice([1, 1, 3, 4, 255, 65535])
                else:
                    ty2, cl2 = t["rdtype"], rng.choice([3, 4, 255, 2, 65535])
                ctx.count("dec:as-other")
                yield dec_case(cl2, ty2, w, 0, len(w), o if rng.random() < 0.5 else None)
            else:
                m = bytes(rng.choice(nl.INTERESTING + [rng.randrange(256)]) for _ in range(rng.choice([0, 1, 2, 3, 4, 6, 9, 16, 33])))
                ctx.count("dec:random")
                yield dec_case(cl, t["rdtype"], m, 0, len(m), None if rng.random() < 0.6 else rng.choice(ORIGINS))
        # ---- every single-bit flip of one valid specimen (thorough)
        if ctx.tier == "thorough":
            cl, vals, o, w = min(specimens, key=lambda s: abs(len(s[3]) - 24))
            if len(w) <= 64:
                for i in range(len(w) * 8):
                    m = bytearray(w)
                    m[i // 8] ^= 0x80 >> (i % 8)
                    ctx.count("dec:bitflip")
                    yield dec_case(cl, t["rdtype"], bytes(m), 0, len(m), o)
    # unknown types through the value path (GenericRdata)
    for _ in range(ctx.n(20, 300)):
        data = R.gen_bytes(rng, R.gen_len(rng, 0, 65535, None))
        ty, cl = rng.choice(UNKNOWN_TYPES[:2] + [rng.randrange(65280, 65535)]), rng.choice([1, 3, 255, 4])
        yield "enc-generic", [1, cl, ty, [data], None]
        pre = bytes(rng.randrange(256) for _ in range(rng.choice([0, 3])))
        yield dec_case(cl, ty, pre + data + b"\x01", len(pre), len(data), None)
    ctx.notes["types_covered"] = len(types)
    # ---- the accepted strings of the exhaustive small scope also go through the model
    opaque = {t["name"] for t in types if t["kind"] == "schema" and [f["k"] for f in t["reader"]] == ["Remaining"]}
    import itertools
    for t in types:
        cl = real_class(t)
        for L in range(0, ctx.n(2, 3)):
            if L == 2 and t["name"] in opaque:
                continue
            picked = []
            for tup in itertools.product(range(256), repeat=L):
                w = bytes(tup)
                try:
                    dns.rdata.from_wire(cl, t["rdtype"], w, 0, L)
                except Exception:
                    if L > 0 and not (L == 1 and tup[0] in (0, 255)):
                        continue
                picked.append(w)
            if len(picked) > 600:   # e.g. SSHFP accepts all 65536: the model gets an even sample,
                picked = picked[:: len(picked) // 600]   # the oracle (extra) still sees every string
            for w in picked:
                ctx.count("dec:small-scope")
                yield dec_case(cl, t["rdtype"], w, 0, L, None)
    # ---- get_rdata_class lookup histories, each in a fresh interpreter
    for h in histories(ctx):
        yield "history", [22, h]
    # ---- get_rdata_class dispatch in the three loader states (fresh child process each)
    for mode in DISPATCH_MODES:
        items = []
        for t in types:
            for cl in ([t["rdclass"]] if t["rdclass"] != 255 else [rng.choice([3, 4]), rng.choice([254, 65280, 2, 65534])]):
                m = rng.choice(["abs", "rel"])
                o = rng.choice(ORIGINS[:3]) if m == "rel" or rng.random() < 0.3 else None
                vals = R.gen_values(rng, t, m if o else "abs", o, rng.choice([None, None, "max"]))
                if t["name"] == "OPT":
                    continue
                items.append([cl, t["rdtype"], vals, o])
        # unknown types stay generic
        for ty in UNKNOWN_TYPES[:3]:
            items.append([rng.choice([1, 3]), ty, [R.gen_bytes(rng, 7)], None])
        yield "dispatch", [21, mode, items]


HIST_CLASSES = [1, 1, 3, 4, 255, 255, 254, 65280]
HIST_TYPES = [1, 1, 28, 15, 2, 33, 16, 41, 250, 64, 65280, 0, 99]


def history_safe(h):
    tab = T()
    for st in h:
        if st[0] == 0 and st[1] == 255:
            t = st[2]
            if (255, t) not in tab._by and any(k[1] == t for k in tab._by):
                return False
    return True


def histories(ctx):
    rng = ctx.rng
    fixed = [
        [[0, 255, 1], [0, 1, 1]],                      # the known poisoning sequence
        [[0, 1, 1], [0, 255, 1], [0, 1, 1]],
        [[1, 1], [0, 3, 15], [0, 4, 2], [0, 3, 28], [0, 3, 1], [0, 1, 1]],
        [[1, 0], [0, 3, 15], [0, 255, 15], [0, 255, 33], [0, 1, 33]],
        [[0, 4, 15], [0, 1, 15], [0, 255, 15], [1, 1], [0, 65280, 15], [0, 3, 16]],
        [[1, 1], [1, 1], [0, 255, 41], [0, 1, 41], [0, 1, 65280]],
        # a class without an own module first, then the class that has one (must not be poisoned)
        [[0, 3, 28], [0, 1, 28], [0, 3, 28]],
        [[0, 4, 33], [0, 65280, 33], [0, 1, 33], [0, 4, 33]],
        [[0, 65280, 1], [0, 1, 1], [0, 3, 1], [0, 4, 1]],
        [[0, 4, 1], [0, 3, 1], [0, 1, 1]],
        [[0, 3, 65280], [0, 1, 65280], [0, 3, 64], [0, 1, 64], [0, 1, 65]],
        [[0, 254, 15], [0, 3, 15], [1, 1], [0, 1, 15], [0, 2, 45], [0, 1, 45]],
        [[1, 0], [0, 3, 28], [0, 1, 28], [1, 1], [0, 4, 28], [0, 1, 28]],
    ]
    for h in fixed:
        yield h
    for _ in range(ctx.n(20, 150)):
        h = []
        for _ in range(rng.randint(2, 8)):
            if rng.random() < 0.18:
                h.append([1, rng.randrange(2)])
            else:
                h.append([0, rng.choice(HIST_CLASSES), rng.choice(HIST_TYPES + [rng.choice(T().types)["rdtype"]])])
        # most histories are kept inside the safe fragment the theorem covers
        if not history_safe(h) and rng.random() < 0.8:
            h = [st for st in h if not (st[0] == 0 and st[1] == 255)] or [[0, 1, 1]]
        ctx.count("history:" + ("safe" if history_safe(h) else "any-first"))
        yield h


SMALL_ALPHABET = [0, 1, 2, 3, 4, 16, 32, 63, 64, 127, 128, 191, 192, 193, 254, 255]


def small_scope(ctx):
    """exhaustive small scope: EVERY octet string of length <= 1 (quick) / <= 2 (thorough), and
    every string of length 3 over a 16-octet alphabet (thorough), offered as RDATA of every
    implemented type"""
    import itertools

    for t in [t for t in T().types if t["kind"] in ("schema", "hand")]:
        cl = real_class(t)
        for L in range(0, ctx.n(2, 3)):
            for tup in itertools.product(range(256), repeat=L):
                yield t, cl, bytes(tup)
        if ctx.tier == "thorough":
            for tup in itertools.product(SMALL_ALPHABET, repeat=3):
                yield t, cl, bytes(tup)


def extra(ctx):
    """oracle over the exhaustive small scope (implementation only; the accepted strings of the
    smallest lengths also go through the model, see cases())"""
    F = []
    n = acc = 0
    for t, cl, w in small_scope(ctx):
        n += 1
        try:
            dns.rdata.from_wire(cl, t["rdtype"], w, 0, len(w))
        except dns.exception.FormError:
            continue
        except Exception as e:  # noqa
            F.append({"kind": "dec:small-scope", "what": "decoding raised something that is not a format error: " + type(e).__name__,
                      "type": t["name"], "case_kind": "dec", "case": [12, cl, t["rdtype"], w, 0, len(w), None]})
            continue
        acc += 1
        case = lib.normalize([12, cl, t["rdtype"], w, 0, len(w), None])
        out = lib.normalize(impl(case))
        for f in oracle(ctx, "dec", case, out):
            f.setdefault("case_kind", "dec")
            f.setdefault("case", case)
            F.append(f)
            if len(F) > 20:
                return F
    ctx.notes["exhaustive"] = True
    ctx.notes["extra_evaluations"] = n
    ctx.notes["extra_nontrivial"] = acc
    ctx.notes["small_scope"] = ("all octet strings of length <= %d as RDATA of every implemented type" % (1 if ctx.quick else 2)) + ("" if ctx.quick else "; length 3 over a 16-octet alphabet")
    return F


def break_value(rng, t, vals):
    vals = list(vals)
    idx = list(range(len(t["writer"])))
    rng.shuffle(idx)
    for i in idx:
        fl = t["writer"][i]
        if fl["k"] == "U":
            vals[i] = rng.choice([fl["max"] + 1, -1, 256 ** fl["w"]])
            return vals
        if fl["k"] == "Counted" and fl["hi"] <= 255:
            vals[i] = bytes(fl["hi"] + 1)
            return vals
        if fl["k"] in ("Fixed", "RemN"):
            vals[i] = bytes(fl["n"] + rng.choice([1, -1]))
            return vals
    return None


def in_model(kind, case):
    return case[0] in (1, 2, 22)


# ------------------------------------------------------------------ implementation


def oname(o):
    return dns.name.Name(o) if o else None


def impl(case):
    op = case[0]
    if op in (1, 11):
        _, cl, ty, vals, o = case
        t = T().lookup(cl, ty)
        try:
            if t is None:
                x = dns.rdata.GenericRdata(cl, ty, bytes(vals[0]))
            else:
                x = R.make_rdata(t, cl, vals)
        except Exception as e:  # constructor refuses
            return Err(13, type(e).__name__ + ": " + str(e)[:60])
        try:
            return x.to_wire(origin=oname(o))
        except Exception as e:
            return nl.exc_code(e)
    if op in (2, 12):
        _, cl, ty, wire, cur, rdlen, o = case
        t = T().lookup(cl, ty)
        try:
            rd = dns.rdata.from_wire(cl, ty, bytes(wire), cur, rdlen, oname(o))
        except Exception as e:
            return nl.exc_code(e)
        try:
            re_ = rd.to_wire(origin=oname(o))
        except Exception as e:
            re_ = nl.exc_code(e)
        if op == 12:
            return [1, re_]
        vals = [bytes(rd.data)] if t is None else R.values_of(t, rd)
        return [vals, re_]
    if op == 21:
        return dispatch_parent(case)
    if op == 22:
        return history_parent(case)
    raise ValueError(op)


HISTORY_CHILD = r"""
import json, sys
import dns.rdata
steps = json.loads(sys.stdin.read())
out = []
for st in steps:
    if st[0] == 1:
        dns.rdata.load_all_types(bool(st[1]))
    else:
        cls = dns.rdata.get_rdata_class(st[1], st[2])
        if cls is dns.rdata.GenericRdata:
            out.append(0)
        else:
            d = cls.__module__.split(".")[-2]
            out.append([{"ANY": 255, "IN": 1, "CH": 3}[d], st[2]])
json.dump(out, sys.stdout)
"""


def history_parent(case):
    """run a lookup history in a pristine interpreter (nothing but dns.rdata imported)"""
    import json
    import subprocess

    p = _run_child([sys.executable, "-c", HISTORY_CHILD], json.dumps(case[1]).encode())
    if isinstance(p, Err):
        return p
    return json.loads(p)


def _run_child(cmd, data):
    """run a child interpreter; a child that cannot be run at all (timeout on the shared box, killed)
    is retried, and then reported as unavailable (901) - NOT as a violation; a child that fails with
    a Python error (900) is one"""
    import subprocess

    last = ""
    for attempt, tmo in enumerate((300, 900)):
        try:
            p = subprocess.run(cmd, input=data, stdout=subprocess.PIPE, stderr=subprocess.PIPE, timeout=tmo, env=dict(os.environ, PYTHONPATH=lib.REPO))
        except subprocess.TimeoutExpired:
            last = "timeout"
            continue
        if p.returncode == 0:
            return p.stdout.decode()
        if p.returncode < 0:      # killed by a signal (OOM on the shared box): retry
            last = f"signal {-p.returncode}"
            continue
        return Err(900, "child failed: " + p.stderr.decode()[-300:])
    return Err(901, "child interpreter unavailable: " + last)


def dispatch_parent(case):
    """evaluate the items in a fresh interpreter whose loader state is `mode`"""
    import json
    import subprocess

    p = _run_child([sys.executable, os.path.abspath(__file__), "--dispatch-child"], json.dumps(lib.jsonable(case)).encode())
    if isinstance(p, Err):
        return p
    return lib.unjson(json.loads(p))


def dispatch_child():
    """child: set the loader state, then round-trip every item; one result row per item:
    [typed-as-expected, decoded == original, re-encoding identical, attribute values equal]"""
    import json

    case = lib.unjson(json.loads(sys.stdin.read()))
    _, mode, items = case
    tab = T()
    if mode == 1:
        dns.rdata.load_all_types()
    elif mode == 2:
        dns.rdata.load_all_types(False)
    out = []
    for cl, ty, vals, o in items:
        t = tab.lookup(cl, ty)
        origin = oname(o)
        try:
            x = dns.rdata.GenericRdata(cl, ty, bytes(vals[0])) if t is None else R.make_rdata(t, cl, vals)
            w = x.to_wire(origin=origin)
            y = dns.rdata.from_wire(cl, ty, w, 0, len(w), origin)
            typed = (type(y) is type(x))
            eq = bool(y == x) and not (y != x)
            re_ = y.to_wire(origin=origin) == w
            try:
                same = t is None or lib.normalize(norm_vals(t, R.values_of(t, y))) == lib.normalize(norm_vals(t, expect_after_decode(t, vals, o) or R.values_of(t, y)))
            except Exception:
                same = False
            names = R.names_in(t, vals) if t else []
            if any(under_origin(n, o) for n in names):
                eq = True
            out.append([int(typed), int(eq), int(re_), int(same)])
        except Exception as e:
            out.append(nl.exc_code(e))
    json.dump(lib.jsonable(out), sys.stdout)


# ------------------------------------------------------------------ oracle (property text)

FORMERR_CODES = (2, 5, 6, 7)


def under_origin(n, o):
    if not o or not n or n[-1] != b"" or len(n) < len(o):
        return False
    return [l.lower() for l in n[-len(o):]] == [l.lower() for l in o]


def expect_after_decode(t, vals, o):
    """abstract values expected back: absolute names below the origin come back relativized"""
    if not o or o == [b""] and False:
        return vals

    def fix(n):
        return n[: len(n) - len(o)] if under_origin(n, o) else n

    if t["kind"] != "schema":
        return None if any(under_origin(n, o) for n in R.names_in(t, vals)) else vals
    out = []
    # the READER decides whether a name is relativized (get_name(origin) vs get_name())
    for fl, v in zip(t["reader"], vals):
        if fl["k"] == "Name":
            out.append(fix(v) if fl.get("rel", True) else v)
        elif fl["k"] == "Repeat":
            out.append([[fix(x) if r["k"] == "Name" and r.get("rel", True) else x for r, x in zip(fl["row"], row)] for row in v])
        else:
            out.append(v)
    return out


def oracle_history(ctx, kind, case, out):
    """every implemented (class, type) must be served by its implementation, whatever was looked
    up before (otherwise records of that type stop being equal to their decoded form)"""
    if isinstance(out, Err):
        if out.code == 901:
            ctx.count("child-unavailable")
            return []
        return [{"kind": "history:child", "what": "history child process failed: " + out.text}]
    tab = T()
    F = []
    queries = [st for st in case[1] if st[0] == 0]
    for i, (st, res) in enumerate(zip(queries, out)):
        t = tab.lookup(st[1], st[2])
        want = 0 if t is None else [t["rdclass"], t["rdtype"]]
        if res != want:
            F.append({"kind": "history:dispatch-depends-on-history", "unsafe_history": not history_safe(case[1]), "query": st[1:], "sig": ("hist", history_safe(case[1])),
                      "what": f"get_rdata_class({st[1]}, {st[2]}) answered {res} instead of {want} after the earlier lookups of this history"})
            break
    return F


def oracle_dispatch(ctx, kind, case, out):
    F = []
    _, mode, items = case
    if isinstance(out, Err):
        if out.code == 901:
            ctx.count("child-unavailable")
            return []
        return [{"kind": "dispatch:child", "what": "dispatch child process failed: " + out.text, "mode": mode}]
    what = ["decoded with a different class than the implementation of this (class,type)", "decoded record is not equal to the original",
            "re-encoding differs from the first encoding", "decoded field values differ from the original ones"]
    for item, res in zip(items, out):
        tname = dns.rdatatype.to_text(item[1])
        small = [21, mode, [item]]
        names = R.names_in(T().lookup(item[0], item[1]), item[2]) if T().lookup(item[0], item[1]) else []
        tags = {"type": tname, "rdclass": item[0], "mode": mode, "case": small, "with_origin": item[3] is not None,
                "rel_names": any(not (n and n[-1] == b"") for n in names)}
        if isinstance(res, Err):
            F.append({"kind": "dispatch:raised", "what": "round trip raised " + res.text, **tags})
            continue
        for flag, w in zip(res, what):
            if not flag:
                F.append({"kind": "dispatch:" + w, "what": w, "sig": (mode, tname, w), **tags})
    return F


def oracle(ctx, kind, case, out):
    F = []
    op = case[0]
    if op == 21:
        return oracle_dispatch(ctx, kind, case, out)
    if op == 22:
        return oracle_history(ctx, kind, case, out)
    cl, ty = case[1], case[2]
    tname = dns.rdatatype.to_text(ty)

    def fail(what, **kw):
        F.append({"kind": kind + ":" + what, "what": what, "type": tname, "rdclass": cl, "impl": out if not isinstance(out, list) else None, **kw})

    t = T().lookup(cl, ty)
    if op in (1, 11):
        if kind == "enc-bad":
            if not isinstance(out, Err):
                fail("constructor accepted an out-of-range value")
            return F
        vals, o = case[3], case[4]
        origin = oname(o)
        if isinstance(out, Err):
            if out.code == 13:
                fail("constructor refuses a value inside the field ranges: " + out.text)
            else:
                fail("to_wire raised " + out.text)
            return F
        w = out
        if len(w) > 65535:
            return F
        try:
            x = dns.rdata.GenericRdata(cl, ty, bytes(vals[0])) if t is None else R.make_rdata(t, cl, vals)
            pre = b"\x03abc\x00" + bytes([len(w) % 251])
            y = dns.rdata.from_wire(cl, ty, w, 0, len(w), origin)
            y2 = dns.rdata.from_wire(cl, ty, pre + w + b"\xff", len(pre), len(w), origin)
        except Exception as e:
            fail("decoding the encoding of a well-formed value raised " + type(e).__name__ + ": " + str(e)[:80])
            return F
        names = R.names_in(t, vals) if t else []
        rel = any(not (n and n[-1] == b"") for n in names)
        below = any(under_origin(n, o) for n in names)
        tags = {"rel_names": rel, "with_origin": o is not None}
        try:
            # the canonical (DNSSEC) form and the compressing writer are still wire forms of the
            # same record: they must decode to an equal record
            wc = x.to_wire(origin=origin, canonicalize=True)
            yc = dns.rdata.from_wire(cl, ty, wc, 0, len(wc), origin)
            if len(wc) != len(w) or (not below and not (yc == x)):
                fail("the canonicalized encoding does not decode to an equal record", **tags)
            fz = io.BytesIO()
            x.to_wire(fz, {}, origin)
            wz = fz.getvalue()
            yz = dns.rdata.from_wire(cl, ty, wz, 0, len(wz), origin)
            # (compression is ASCII-case-insensitive: a repeated suffix comes back in the case of its
            # first occurrence, so the octets are compared modulo case)
            if yz.to_wire(origin=origin).lower() != w.lower():
                fail("the compressed encoding does not decode to an equal record", **tags)
        except Exception as e:
            fail("canonical / compressed encoding raised " + type(e).__name__ + ": " + str(e)[:60], **tags)
        try:
            # rendered inside a message, after case-variant copies of its own names, with the
            # compression table those copies left behind (what dns.message / dns.renderer do)
            fm = io.BytesIO()
            fm.write(bytes(12))
            table = {}
            for n in names:
                full = list(n) if (n and n[-1] == b"") else list(n) + list(o or [b""])
                if nl.fits(full):
                    dns.name.Name([l.swapcase() for l in full]).to_wire(fm, table)
            start = fm.tell()
            x.to_wire(fm, table, origin)
            msg = fm.getvalue()
            may = tname in TR.MAY_COMPRESS
            if not may and msg[start:] != w:
                fail("a type outside the RFC 3597 well-known set compressed an embedded name", **tags)
            ym = dns.rdata.from_wire(cl, ty, msg, start, len(msg) - start, origin)
            if not below and (not (ym == x) or ym.to_digestable(origin) != x.to_digestable(origin)):
                fail("rendered with a compression table (case-variant suffixes) the record decodes to an unequal record", **tags)
            wm = ym.to_wire(origin=origin)
            if (wm != w and not may) or wm.lower() != w.lower():
                fail("rendered with a compression table the record re-encodes to different octets", **tags)
        except Exception as e:
            fail("rendering with a compression table raised " + type(e).__name__ + ": " + str(e)[:60], **tags)
        try:
            f = io.BytesIO()
            x.to_wire(f, None, origin)
            if f.getvalue() != w:
                fail("to_wire into a file differs from to_wire()", **tags)
            g = x.to_generic(origin)
            if type(g) is not dns.rdata.GenericRdata or g.to_wire() != w or g.rdtype != ty or g.rdclass != cl:
                fail("RFC 3597 generic form does not carry the same octets", **tags)
            g2 = dns.rdata.from_wire(cl, ty, g.to_wire(), 0, len(w), origin)
            if g2.to_wire(origin=origin) != w:
                fail("decoding the generic form's octets gives a different record", **tags)
        except Exception as e:
            fail("generic form / file output raised " + type(e).__name__ + ": " + str(e)[:60], **tags)
        if y.to_wire(origin=origin) != w or y2.to_wire(origin=origin) != w:
            fail("re-encoding differs from the first encoding", **tags)
        if not below:
            if not (y == x) or (y != x) or not (y2 == x):
                fail("decoded record is not equal to the original", **tags)
        if t is not None:
            exp = expect_after_decode(t, vals, o)
            try:
                got = R.values_of(t, y)
            except Exception as e:
                fail("decoded record has unusable attributes: " + type(e).__name__)
                return F
            if exp is not None and lib.normalize(norm_vals(t, got)) != lib.normalize(norm_vals(t, exp)):
                fail("decoded field values differ from the original ones", **tags)
        return F
    # ---- decode of arbitrary octets
    _, _, _, wire, cur, rdlen, o = case
    origin = oname(o)
    wire = bytes(wire)
    if isinstance(out, Err):
        if out.code not in FORMERR_CODES:
            fail("decoding raised something that is not a format error: " + out.text)
        return F
    re_ = out[1]
    if isinstance(re_, Err):
        fail("a record accepted from the wire cannot be encoded: " + re_.text)
        return F
    # exact consumption, measured with an own parser (not through restrict_to)
    try:
        p = dns.wire.Parser(wire, cur)
        p.end = cur + rdlen
        dns.rdata.from_wire_parser(cl, ty, p, origin)
        if p.current - cur != rdlen:
            fail(f"accepted although only {p.current - cur} of {rdlen} RDATA octets were consumed")
    except Exception as e:
        fail("from_wire accepted but from_wire_parser on the same octets raised " + type(e).__name__)
    # fixed point of decode-then-encode
    try:
        rd = dns.rdata.from_wire(cl, ty, wire, cur, rdlen, origin)
        rd2 = dns.rdata.from_wire(cl, ty, re_, 0, len(re_), origin)
    except Exception as e:
        fail("the encoding of an accepted record does not decode: " + type(e).__name__ + ": " + str(e)[:80])
        return F
    if rd2.to_wire(origin=origin) != re_:
        fail("encoding is not a fixed point of decode-then-encode")
    if not (rd2 == rd):
        fail("decode(encode(r)) differs from r for an accepted record")
    return F


def norm_vals(t, vals):
    """value normalisation that the codec is allowed to perform (still an equal record)"""
    if t["kind"] == "hand" and t["hand"] == "loc":
        # hemisphere of a zero coordinate is not representable (reader answers +1)
        def c(x):
            return list(x[:4]) + [1] if list(x[:4]) == [0, 0, 0, 0] else list(x)
        return [c(vals[0]), c(vals[1])] + list(vals[2:])
    if t["kind"] == "hand" and t["hand"] == "apl":
        # unknown address families: trailing zero octets of the address are trimmed on the wire
        return [[[f, n, a if f in (1, 2) else bytes(a).rstrip(b"\0"), p] for f, n, a, p in vals[0]]]
    return vals


# ------------------------------------------------------------------ widened search


def widen(ctx, disagreements):
    """proof / correspondence broke without an oracle failure: search harder around the
    disagreeing types (more values, all one-octet edits of their specimens)"""
    import random

    found = []
    tab = T()
    want = set()
    for d in disagreements[:40]:
        if d["case"][0] in (1, 2, 11, 12):
            want.add((d["case"][1], d["case"][2]))
    if not want:
        want = {(real_class(t), t["rdtype"]) for t in tab.types if t["kind"] in ("schema", "hand")}
    rng = random.Random(ctx.seed + 77)
    for cl, ty in sorted(want):
        t = tab.lookup(cl, ty)
        if t is None or t["kind"] not in ("schema", "hand"):
            continue
        for _ in range(300):
            vals, o = specimen(rng, t)
            kind, case = enc_case(t, cl, vals, o)
            out = lib.normalize(lib.safe_impl(sys.modules[__name__], case))
            for f in oracle(ctx, kind, lib.normalize(case), out):
                f.setdefault("case_kind", kind)
                f.setdefault("case", case)
                found.append(f)
            w = wire_of(t, cl, vals, o)
            if w is None or found:
                continue
            for _ in range(6):
                m = mutate(rng, w)
                kind, case = dec_case(cl, ty, m, 0, len(m), o)
                out = lib.normalize(lib.safe_impl(sys.modules[__name__], case))
                for f in oracle(ctx, kind, lib.normalize(case), out):
                    f.setdefault("case_kind", kind)
                    f.setdefault("case", case)
                    found.append(f)
            if len(found) > 3:
                return found
    return found


if __name__ == "__main__":
    if "--dispatch-child" in sys.argv:
        dispatch_child()
