import os, sys
sys.path.insert(0, os.path.dirname(os.path.abspath(__file__)))
import lib
sys.exit(lib.main())
