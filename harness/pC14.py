"""C14 - TSIG MACs follow RFC 8945; genuine messages verify, altered ones never do.

Correspondence: coq/Model/TsigM.v `run` (dns.tsig.sign/validate, TSIG rdata codec, the TSIG path of
dns.message.from_wire / Message.to_wire, multi-message chaining).  The model is parametric in the
keyed hash; for a run it is instantiated with a finite table that this harness fills with
Python's own hmac over the octet strings an *independent* RFC 8945 reference (below, written
from the RFC text, not from dns/tsig.py) says must be hashed.  The oracle compares the
implementation with that reference only.
"""
import contextlib
import hashlib
import hmac
import struct

import dns.exception
import dns.message
import dns.name
import dns.rdata
import dns.rdataclass
import dns.rdatatype
import dns.rdtypes.ANY.TSIG
import dns.renderer
import dns.rrset
import dns.tsig
import dns.tsigkeyring

from lib import Err

# dns.rdata.get_rdata_class caches GenericRdata under (ANY, type) when a record of an IN-only type
# arrives in class ANY, and later resolves (IN, type) through that entry; the tampering loops below
# produce such records, so every implemented type is loaded up front (keeps the run order-independent)
dns.rdata.load_all_types(False)

ID = "C14"
COQ_IMPORTS = "From DV Require Import Model.TsigM."
COQ_RUN = "TsigM.run"
CASE_TIMEOUT = 30.0
TRUSTED = [
    "model: coq/Model/TsigM.v (dns.tsig._digest/_maybe_start_digest/sign/validate/get_context/HMACTSig, TSIG rdata wire codec, "
    "the TSIG path of dns.message._WireReader and Message.to_wire/Renderer.add_tsig, multi-message chaining); names via coq/Model/NameM.v",
    "the keyed hash is a Section variable H (no assumption); an HMAC context is modelled by the octets fed to it, i.e. "
    "hmac.update(a); hmac.update(b) == hmac.update(a+b) and HMACTSig.sign()/verify() = digest of everything fed so far (CPython hmac/hashlib trusted)",
    "independent RFC 8945 reference in harness/pC14.py (section 4.3 digest components, 5.2 checks, 5.3.1 multi-message), Python hmac/hashlib as the hash oracle",
    "clock: dns.message.time / dns.renderer.time replaced by a scripted clock during a case (monkey-patch from the harness, no source change)",
]
ASSUMPTIONS = [
    "GSS-TSIG (external GSSAPI context) is out of scope",
    "keyring callables are not modelled",
    "a tampered message is accepted by nobody without a collision/forgery of the keyed hash: the Coq statement is `validate accepts -> MAC = trunc(H key input)` plus injectivity of the input construction; no cryptographic assumption on HMAC is made or needed for that statement",
]

# ----------------------------------------------------------------------------- exception codes

import dns.name as _n

EXC = [
    (_n.NameTooLong, 2),
    (_n.BadPointer, 5),
    (_n.BadLabelType, 6),
    (_n.NeedAbsoluteNameOrOrigin, 8),
    (dns.tsig.BadTime, 20),
    (dns.tsig.BadSignature, 21),
    (dns.tsig.BadKey, 22),
    (dns.tsig.BadAlgorithm, 23),
    (dns.tsig.PeerError, 24),
    (dns.tsig.PeerBadKey, 25),
    (dns.tsig.PeerBadSignature, 26),
    (dns.tsig.PeerBadTime, 27),
    (dns.tsig.PeerBadTruncation, 28),
    (NotImplementedError, 29),
    (ValueError, 30),
    (dns.message.UnknownTSIGKey, 31),
    (dns.message.BadTSIG, 32),
    (dns.message.BadEDNS, 33),
    (dns.message.ShortHeader, 34),
    (dns.message.TrailingJunk, 35),
    (dns.exception.FormError, 7),
    (struct.error, 101),
    (AssertionError, 104),
]
FORMERROR_CODES = {2, 5, 6, 7, 32, 33, 34, 35}


def exc_code(e):
    for cls, code in EXC:
        if type(e) is cls:
            return Err(code, type(e).__name__)
    if isinstance(e, dns.exception.FormError):
        return Err(700, type(e).__name__)
    if isinstance(e, dns.exception.DNSException):
        return Err(800, type(e).__name__)
    return Err(900, type(e).__name__ + ":" + str(e)[:80])


# ----------------------------------------------------------------------------- RFC 8945 reference
# (independent of dns/tsig.py; octets only)

# IANA "TSIG Algorithm Names" / RFC 8945 section 6: name -> (hash, MAC octets)
RFC_ALGS = {
    b"hmac-md5.sig-alg.reg.int.": ("md5", 16),
    b"hmac-sha1.": ("sha1", 20),
    b"hmac-sha224.": ("sha224", 28),
    b"hmac-sha256.": ("sha256", 32),
    b"hmac-sha256-128.": ("sha256", 16),
    b"hmac-sha384.": ("sha384", 48),
    b"hmac-sha384-192.": ("sha384", 24),
    b"hmac-sha512.": ("sha512", 64),
    b"hmac-sha512-256.": ("sha512", 32),
}
HASH_CODE = {"md5": 1, "sha1": 2, "sha224": 3, "sha256": 4, "sha384": 5, "sha512": 6}
ALG_LABELS = [[l for l in k.split(b".")] for k in RFC_ALGS]  # each ends with b""


def lower(b):
    return bytes(c + 32 if 65 <= c <= 90 else c for c in b)


def is_abs(labels):
    return len(labels) > 0 and labels[-1] == b""


def name_key(labels):
    return b".".join(lower(l) for l in labels)


def name_eq(a, b):
    return [lower(x) for x in a] == [lower(x) for x in b]


def canon_wire(labels):
    """RFC 4034 6.2 canonical (lower-case, uncompressed) wire form of an absolute name"""
    if not is_abs(labels):
        raise ValueError("relative")
    return b"".join(bytes([len(l)]) + lower(l) for l in labels)


def plain_wire(labels):
    return b"".join(bytes([len(l)]) + bytes(l) for l in labels)


def u16(v):
    return struct.pack("!H", v)


def u48(v):
    return v.to_bytes(6, "big")


def rfc_alg(alg_labels):
    return RFC_ALGS.get(name_key(alg_labels))


def rfc_tsig_variables(keyname, algname, time, fudge, error, other):
    # 4.3.3: NAME, CLASS (ANY), TTL (0), Algorithm Name, Time Signed, Fudge, Error, Other Len, Other Data
    return (canon_wire(keyname) + u16(255) + struct.pack("!I", 0) + canon_wire(algname)
            + u48(time) + u16(fudge) + u16(error) + u16(len(other)) + other)


def rfc_message(original_id, msg):
    # 4.3.2: the message without the TSIG RR, ARCOUNT not counting it, ID = original ID
    return u16(original_id) + msg[2:]


def rfc_first(request_mac, original_id, msg, keyname, algname, time, fudge, error, other):
    # 4.3.1: request MAC (length-prefixed) only when answering a signed request
    pre = (u16(len(request_mac)) + request_mac) if request_mac else b""
    return pre + rfc_message(original_id, msg) + rfc_tsig_variables(keyname, algname, time, fudge, error, other)


def rfc_subsequent(running, original_id, msg, time, fudge):
    # 5.3.1: prior MAC (length-prefixed) + unsigned messages since + this message + TSIG timers
    return running + rfc_message(original_id, msg) + u48(time) + u16(fudge)


def rfc_strip(wire, tsig_start):
    ar = struct.unpack("!H", wire[10:12])[0]
    return wire[:10] + u16(ar - 1) + wire[12:tsig_start]


def rfc_hmac(algname, secret, data, full=False):
    a = rfc_alg(algname)
    if a is None:
        return None
    d = hmac.new(bytes(secret), bytes(data), a[0]).digest()
    return d if full else d[: a[1]]


# ---- independent wire walker


class Malformed(Exception):
    pass


def walk_name(w, pos, end=None):
    """-> (labels, next position); compression pointers must point strictly backwards"""
    end = len(w) if end is None else end
    labels = []
    nxt = None
    limit = pos
    hops = 0
    total = 0
    while True:
        if pos >= end:
            raise Malformed("name runs off")
        c = w[pos]
        if c == 0:
            pos += 1
            break
        if c < 64:
            if pos + 1 + c > end:
                raise Malformed("label runs off")
            labels.append(bytes(w[pos + 1: pos + 1 + c]))
            total += c + 1
            pos += 1 + c
        elif c >= 192:
            if pos + 2 > end:
                raise Malformed("pointer runs off")
            tgt = (c & 0x3F) * 256 + w[pos + 1]
            if tgt >= limit:
                raise Malformed("forward pointer")
            if nxt is None:
                nxt = pos + 2
            limit = tgt
            pos = tgt
            hops += 1
        else:
            raise Malformed("label type")
    if total + 1 > 255:
        raise Malformed("name too long")
    labels.append(b"")
    return labels, (nxt if nxt is not None else pos)


def walk(w):
    """-> dict(id, flags, counts, rrs=[dict(section,owner,type,cls,ttl,start,rdata,rdlen)], end, error)
    rrs holds everything read before the first malformation"""
    out = {"rrs": [], "error": None, "end": None}
    try:
        if len(w) < 12:
            raise Malformed("short header")
        out["id"], out["flags"], qd, an, ns, ar = struct.unpack("!HHHHHH", w[:12])
        out["counts"] = (qd, an, ns, ar)
        pos = 12
        for _ in range(qd):
            _, pos = walk_name(w, pos)
            if pos + 4 > len(w):
                raise Malformed("question runs off")
            pos += 4
        for section, count in ((1, an), (2, ns), (3, ar)):
            for i in range(count):
                start = pos
                owner, pos = walk_name(w, pos)
                if pos + 10 > len(w):
                    raise Malformed("rr header runs off")
                t, c, ttl, rdlen = struct.unpack("!HHIH", w[pos: pos + 10])
                pos += 10
                rr = dict(section=section, index=i, count=count, owner=owner, type=t, cls=c, ttl=ttl,
                          start=start, rdata=pos, rdlen=rdlen)
                out["rrs"].append(rr)
                if pos + rdlen > len(w):
                    raise Malformed("rdata runs off")
                pos += rdlen
        out["end"] = pos
    except Malformed as e:
        out["error"] = str(e)
    return out


def walk_tsig_rdata(w, pos, rdlen):
    end = pos + rdlen
    alg, p = walk_name(w, pos, end)
    if p + 10 > end:
        raise Malformed("tsig fixed part")
    time = int.from_bytes(w[p: p + 6], "big")
    fudge, maclen = struct.unpack("!HH", w[p + 6: p + 10])
    p += 10
    if p + maclen + 6 > end:
        raise Malformed("mac")
    mac = bytes(w[p: p + maclen])
    p += maclen
    oid, error, olen = struct.unpack("!HHH", w[p: p + 6])
    p += 6
    if p + olen != end:
        raise Malformed("other")
    return dict(alg=alg, time=time, fudge=fudge, mac=mac, oid=oid, error=error, other=bytes(w[p:end]))


OPAQUE_TYPES = {10} | set(range(65280, 65535))
SIMPLE_TYPES = {1, 2, 5, 6, 12, 15, 16, 28}


def opt_options_opaque(w, rr):
    """OPT rdata: every option met before a malformation is PADDING or a private-use code, i.e. its
    data is not interpreted by the library (a malformed option list is a FormError on both sides)"""
    p, end = rr["rdata"], rr["rdata"] + rr["rdlen"]
    if end > len(w):
        return True
    while p < end:
        if p + 4 > end:
            return True
        code, olen = struct.unpack("!HH", w[p: p + 4])
        if not (code == 12 or 65001 <= code <= 65534):
            return False
        if p + 4 + olen > end:
            return True
        p += 4 + olen
    return True


def simple_rdata_ok(w, rr):
    """class IN records of a few ordinary types: is the rdata well-formed (so that the library's
    typed parse and the model's opaque skip agree)?  independent of the library"""
    if rr["cls"] != 1 or rr["rdata"] + rr["rdlen"] > len(w):
        return False
    p, n, t = rr["rdata"], rr["rdlen"], rr["type"]
    end = p + n
    try:
        if t == 1:
            return n == 4
        if t == 28:
            return n == 16
        if t in (2, 5, 12):
            _, q = walk_name(w, p, end)
            return q == end
        if t == 15:
            if n < 3:
                return False
            _, q = walk_name(w, p + 2, end)
            return q == end
        if t == 6:
            _, q = walk_name(w, p, end)
            _, q = walk_name(w, q, end)
            return q + 20 == end
        if t == 16:
            if n < 1:
                return False
            while p < end:
                p += 1 + w[p]
            return p == end
    except Malformed:
        return False
    return False


def rfc_verdict(w, keyname, secret, keyalg, request_mac, now, running=None):
    """What RFC 8945 says about a received message: ('unsigned',) / ('malformed', why) /
    ('reject', why) / ('accept', mac, authenticated-content tuple)."""
    info = walk(w)
    if info["error"]:
        return ("malformed", info["error"])
    if info["end"] != len(w):
        return ("malformed", "trailing")
    opts = [r for r in info["rrs"] if r["type"] == 41]
    if len(opts) > 1 or any(r["section"] != 3 or r["owner"] != [b""] for r in opts):
        return ("malformed", "edns")                    # RFC 6891 6.1.1
    ts = [r for r in info["rrs"] if r["type"] == 250]
    if not ts:
        return ("unsigned",)
    last = info["rrs"][-1]
    if len(ts) != 1 or ts[0] is not last or last["section"] != 3 or last["cls"] != 255:
        return ("malformed", "tsig placement")          # 5.2: FORMERR
    if last["ttl"] != 0:
        return ("malformed", "tsig ttl")                # 4.2: TTL MUST be 0
    try:
        t = walk_tsig_rdata(w, last["rdata"], last["rdlen"])
    except Malformed as e:
        return ("malformed", "tsig rdata: " + str(e))
    if t["error"] != 0:
        return ("reject", "peer error")
    if not name_eq(last["owner"], keyname):
        return ("reject", "key name")
    if not name_eq(t["alg"], keyalg):
        return ("reject", "algorithm")
    if rfc_alg(keyalg) is None:
        return ("reject", "unsupported algorithm")
    if abs(now - t["time"]) > t["fudge"]:
        return ("reject", "time")
    msg = rfc_strip(w, last["start"])
    if running is None:
        data = rfc_first(request_mac, t["oid"], msg, keyname, keyalg, t["time"], t["fudge"], t["error"], t["other"])
    else:
        data = rfc_subsequent(running, t["oid"], msg, t["time"], t["fudge"])
    mac = rfc_hmac(keyalg, secret, data)
    content = (bytes(msg[2:]), name_key(last["owner"]), name_key(t["alg"]), t["time"], t["fudge"], t["oid"],
               t["error"], t["other"], t["mac"])
    if mac != t["mac"]:
        return ("reject", "mac", data, content)
    return ("accept", mac, content, data)


# ----------------------------------------------------------------------------- object builders


def N(labels):
    return dns.name.Name([bytes(l) for l in labels])


def labels_of(n):
    return [bytes(l) for l in n.labels]


def mk_key(k):
    return dns.tsig.Key(N(k[0]), bytes(k[1]), N(k[2]))


def mk_rdata(r):
    return dns.rdtypes.ANY.TSIG.TSIG(dns.rdataclass.ANY, dns.rdatatype.TSIG, N(r[0]), r[1], r[2], bytes(r[3]), r[4], r[5], bytes(r[6]))


def rd_fields(rd):
    return [labels_of(rd.algorithm), int(rd.time_signed), int(rd.fudge), bytes(rd.mac), int(rd.original_id), int(rd.error), bytes(rd.other)]


def mk_ctx(c):
    if c is None:
        return None
    ctx = dns.tsig.get_context(mk_key(c[0]))
    ctx.update(bytes(c[1]))
    return ctx


def probe(ctx):
    return None if ctx is None else bytes(ctx.sign())


def mk_keyring(kr):
    if kr is None:
        return None
    if kr == 1:
        return True
    if kr == 0:
        return False
    if kr[0] == 1:
        return mk_key(kr[1])
    if kr[0] == 3:
        d3 = {N(ent[0]): mk_key(ent[1]) for ent in kr[1]}
        return lambda message, name: d3.get(name)
    d = {}
    for ent in kr[1]:
        nm = N(ent[0])
        d[nm] = bytes(ent[1]) if isinstance(ent[1], (bytes, bytearray)) else mk_key(ent[1])
    return d


class Clock:
    def __init__(self, times):
        self.times = list(times)
        self.i = 0

    def time(self):
        t = self.times[min(self.i, len(self.times) - 1)]
        self.i += 1
        return t


@contextlib.contextmanager
def clock(*times):
    c = Clock(times)
    old = (dns.message.time, dns.renderer.time)
    dns.message.time = c
    dns.renderer.time = c
    try:
        yield c
    finally:
        dns.message.time, dns.renderer.time = old


def msg_obs(m):
    t = None
    if m.tsig is not None:
        t = [labels_of(m.tsig.name), rd_fields(m.tsig[0])]
    return [int(bool(m.had_tsig)), t, probe(m.tsig_ctx)]


# ----------------------------------------------------------------------------- implementation runner


def impl(case):
    op = case[0]
    try:
        if op == 0:
            hs = []
            for nm, v in dns.tsig.HMACTSig._hashes.items():
                f, size = v if isinstance(v, tuple) else (v, None)
                hs.append([labels_of(nm), HASH_CODE[f().name], size])
            return [hs, [[labels_of(nm), v] for nm, v in dns.tsig.mac_sizes.items()]]
        if op == 1:
            _, wire, k, rd, time, rmac, ctx, multi, _tab = case
            key = mk_key(k)
            rdata = mk_rdata(rd)
            c = mk_ctx(ctx)
            t, c2 = dns.tsig.sign(bytes(wire), key, rdata, time, bytes(rmac), c, bool(multi))
            return [rd_fields(t), probe(c2)]
        if op == 2:
            _, wire, k, owner, rd, now, rmac, tsig_start, ctx, multi, _tab = case
            key = mk_key(k)
            rdata = mk_rdata(rd)
            c = mk_ctx(ctx)
            try:
                c2 = dns.tsig.validate(bytes(wire), key, N(owner), rdata, now, bytes(rmac), tsig_start, c, bool(multi))
            except Exception as e:  # noqa
                return [exc_code(e), 0]
            return [[probe(c2)], 0]
        if op == 3:
            return mk_rdata(case[1]).to_wire()
        if op == 4:
            _, w, start, ln = case
            return rd_fields(dns.rdata.from_wire(dns.rdataclass.ANY, dns.rdatatype.TSIG, bytes(w), start, ln))
        if op == 5:
            _, wire, k, owner, rd, now, rmac, ctx, multi, _tab, how = case[:11]
            key = mk_key(k)
            c = mk_ctx(ctx)
            return sign_message_impl(bytes(wire), key, N(owner), rd, now, bytes(rmac), c, bool(multi), how)
        if op == 6:
            _, w, kr, rmac, ctx, multi, now, _tab, origin = case
            c = mk_ctx(ctx)
            with clock(now):
                m = dns.message.from_wire(bytes(w), keyring=mk_keyring(kr), request_mac=bytes(rmac), tsig_ctx=c, multi=bool(multi),
                                          origin=None if origin is None else N(origin))
            return msg_obs(m)
        if op == 7:
            _, ws, kr, rmac, now, _tab, origin = case
            out = []
            c = None
            keyring = mk_keyring(kr)
            org = None if origin is None else N(origin)
            for w in ws:
                try:
                    with clock(now):
                        m = dns.message.from_wire(bytes(w), keyring=keyring, request_mac=bytes(rmac), tsig_ctx=c, multi=True, origin=org)
                except Exception as e:  # noqa
                    out.append(exc_code(e))
                    break
                out.append(msg_obs(m))
                c = m.tsig_ctx
            return out
        if op == 8:
            _, envs, k, rmac, _tab = case
            # rdata objects are built first (constructor errors), as the model does
            envs2 = [(bytes(e[0]), None if e[1] is None else (e[1], e[2])) for e in envs]
            for _, s in envs2:
                if s is not None:
                    mk_rdata(s[0])
            key = mk_key(k)
            out = []
            c = None
            for w, s in envs2:
                if s is None:
                    if c is not None:
                        c.update(w)
                    out.append(w)
                    continue
                try:
                    r = sign_message_impl(w, key, key.name, s[0], s[1], bytes(rmac), c, True, 0, raw_ctx=True)
                except Exception as e:  # noqa
                    out.append(exc_code(e))
                    break
                out.append(r[0])
                c = r[2]
            return out
        if op == 9:
            return keyring_impl(case)
        if op == 10:
            return exchange_impl(case)
        if op == 11:
            return response_impl(case)
        if op == 12:
            return rerender_impl(case)
    except Exception as e:  # noqa
        return exc_code(e)
    return Err(998, "bad op")


def exchange_impl(case):
    """signed query -> server reads it -> make_response -> client reads the response (oracle only)"""
    _, qwire, k, now, fudge = case
    key = mk_key(k)
    q = dns.message.from_wire(bytes(qwire))
    q.use_tsig(key, fudge=fudge)
    with clock(now):
        qw = q.to_wire(want_shuffle=False)
    with clock(now):
        sq = dns.message.from_wire(qw, keyring=key)
    r = dns.message.make_response(sq)
    with clock(now + 1):
        rw = r.to_wire(want_shuffle=False)
    with clock(now + 1):
        cr = dns.message.from_wire(rw, keyring=key, request_mac=q.mac)
    unbound = 0
    for bad in (b"", bytes(len(q.mac)), q.mac[:-1]):
        try:
            with clock(now + 1):
                dns.message.from_wire(rw, keyring=key, request_mac=bad)
            unbound = 1
        except dns.tsig.BadSignature:
            pass
    return [qw, rw, bytes(q.mac), int(bool(sq.had_tsig)), int(bool(cr.had_tsig)), unbound]


def rerender_impl(case):
    """one Message object, to_wire called once per clock value; the tsig_ctx argument of every call
    is a fresh context with the same content (sign updates the context it is given)"""
    _, wire, k, owner, rd, nows, rmac, cx, multi, _tab = case
    key = mk_key(k)
    rdata = mk_rdata(rd)
    mk_ctx(cx)
    m = dns.message.from_wire(bytes(wire))
    m.use_tsig(key, fudge=rdata.fudge, original_id=rdata.original_id, tsig_error=int(rdata.error), other_data=rdata.other)
    m.request_mac = bytes(rmac)
    out = []
    for now in nows:
        try:
            with clock(now):
                w = m.to_wire(multi=bool(multi), tsig_ctx=mk_ctx(cx), want_shuffle=False)
        except Exception as e:  # noqa
            out.append(exc_code(e))
            break
        out.append([w, probe(m.tsig_ctx)])
    return out


def response_impl(case):
    """signed query -> server reads it -> make_response(query, tsig_error=e) -> to_wire"""
    _, qwire, _rbody, k, rdq, rdr, now, _tab = case
    key = mk_key(k)
    mk_rdata(rdq)
    mk_rdata(rdr)
    q = dns.message.from_wire(bytes(qwire))
    q.use_tsig(key, fudge=rdq[2])
    with clock(now):
        qw = q.to_wire(want_shuffle=False)
    with clock(now):
        sq = dns.message.from_wire(qw, keyring=key)
    r = dns.message.make_response(sq, fudge=rdr[2], tsig_error=rdr[5])
    with clock(now + 1):
        rw = r.to_wire(want_shuffle=False)
    return [qw, rw]


def keyring_impl(case):
    """dns.tsigkeyring text forms and signing through a keyring dict (oracle only)"""
    import base64
    _, nm, secret, alg, form, wire, now = case
    name = N(nm)
    b64 = base64.b64encode(bytes(secret)).decode()
    if form == 0:
        text = {name.to_text(): b64}
    else:
        text = {name.to_text(): (N(alg).to_text(), b64)}
    kr = dns.tsigkeyring.from_text(text)
    back = dns.tsigkeyring.to_text(kr)
    kr2 = dns.tsigkeyring.from_text(back)
    val = kr[name]
    got_secret = val if isinstance(val, bytes) else val.secret
    got_alg = None if isinstance(val, bytes) else labels_of(val.algorithm)
    m = dns.message.from_wire(bytes(wire))
    if form == 0:
        m.use_tsig(kr, keyname=name, algorithm=N(alg))
    else:
        m.use_tsig(kr, keyname=name)
    with clock(now):
        out = m.to_wire(want_shuffle=False)
    with clock(now):
        m2 = dns.message.from_wire(out, keyring=kr)
    return [int(kr2 == kr), int(list(kr.keys()) == [name]), bytes(got_secret), got_alg, out, int(bool(m2.had_tsig))]


def sign_message_impl(wire, key, owner, rd, now, rmac, ctx, multi, how, raw_ctx=False):
    """Render `wire` (a message without TSIG, as rendered by the library) again with a TSIG.
    how = 0: Message.use_tsig + to_wire; how = 1: Renderer.add_tsig / add_multi_tsig."""
    rdata = mk_rdata(rd)
    m = dns.message.from_wire(wire)
    if how == 0:
        m.use_tsig(key, fudge=rdata.fudge, original_id=rdata.original_id, tsig_error=int(rdata.error), other_data=rdata.other)
        # use_tsig derives owner and algorithm from the key
        m.request_mac = rmac
        with clock(now):
            out = m.to_wire(multi=multi, tsig_ctx=ctx, want_shuffle=False)
        t = m.tsig[0]
        c2 = m.tsig_ctx if multi else None
    else:
        r = dns.renderer.Renderer(id=m.id, flags=int(m.flags))
        for rrset in m.question:
            r.add_question(rrset.name, rrset.rdtype, rrset.rdclass)
        for sec, rrsets in ((1, m.answer), (2, m.authority), (3, m.additional)):
            for rrset in rrsets:
                r.add_rrset(sec, rrset, want_shuffle=False)
        if m.opt is not None:
            r.add_opt(m.opt)
        r.write_header()
        with clock(now):
            if multi:
                c2 = r.add_multi_tsig(ctx, owner, key, rdata.fudge, rdata.original_id, int(rdata.error), rdata.other, rmac, rdata.algorithm)
            else:
                r.add_tsig(owner, key, rdata.fudge, rdata.original_id, int(rdata.error), rdata.other, rmac, rdata.algorithm)
                c2 = None
        out = r.get_wire()
        t = dns.message.from_wire(out, keyring=False).tsig[0]
    return [out, rd_fields(t), c2 if raw_ctx else probe(c2)]


# ----------------------------------------------------------------------------- generators

SECTION_TYPES = sorted(OPAQUE_TYPES)[:4] + [65534]


def gen_label(rng):
    r = rng.random()
    if r < 0.6:
        n = rng.randint(1, 8)
    elif r < 0.9:
        n = rng.randint(1, 20)
    else:
        n = rng.choice([1, 62, 63])
    alpha = b"abcdefghijklmnopqrstuvwxyzABCDEFGHIJKLMNOPQRSTUVWXYZ0123456789-_"
    if rng.random() < 0.85:
        return bytes(rng.choice(alpha) for _ in range(n))
    return bytes(rng.randrange(256) for _ in range(n))


def gen_name(rng, tld=None, maxlabels=3, absolute=True):
    ls = [gen_label(rng) for _ in range(rng.randint(0 if tld else 1, maxlabels))]
    if tld:
        ls.append(tld)
    while sum(len(l) + 1 for l in ls) > 250:
        ls.pop(0)
    if absolute:
        ls.append(b"")
    return ls


def case_variant(rng, labels):
    out = []
    for l in labels:
        b = bytearray(l)
        for i in range(len(b)):
            if rng.random() < 0.5 and (65 <= b[i] <= 90 or 97 <= b[i] <= 122):
                b[i] ^= 0x20
        out.append(bytes(b))
    return out


def gen_secret(rng):
    r = rng.random()
    if r < 0.05:
        return b""
    if r < 0.8:
        return bytes(rng.randrange(256) for _ in range(rng.choice([1, 8, 16, 20, 32])))
    if r < 0.95:
        return bytes(rng.randrange(256) for _ in range(rng.choice([48, 63, 64])))
    return bytes(rng.randrange(256) for _ in range(rng.choice([65, 127, 128, 129, 200])))


def gen_alg(rng, weird=0.05):
    r = rng.random()
    if r < weird:
        return rng.choice([[b"hmac-sha257", b""], [b"hmac-sha256", b"example", b""], [b"hmac-sha256"], [b"hmac-md5", b""], [b""]])
    a = rng.choice(ALG_LABELS)
    return case_variant(rng, a) if rng.random() < 0.4 else list(a)


def gen_key(rng, weird=0.05):
    nm = gen_name(rng, tld=rng.choice([b"tsig", b"KEYS", b"k"]), maxlabels=2)
    if rng.random() < weird:
        nm = nm[:-1]  # relative key name: to_digestable must refuse
    return [nm, gen_secret(rng), gen_alg(rng, weird)]


TIMES = [0, 1, 299, 300, 301, 2 ** 31 - 1, 2 ** 31, 2 ** 32 - 1, 2 ** 32, 2 ** 32 + 77, 2 ** 40 + 12345, 2 ** 48 - 1, 1700000000, 1790000000]
FUDGES = [0, 1, 2, 300, 300, 300, 600, 65535, 4660]


def gen_time(rng):
    return rng.choice(TIMES) if rng.random() < 0.6 else rng.randrange(2 ** 48)


def gen_mac(rng):
    return bytes(rng.randrange(256) for _ in range(rng.choice([0, 10, 16, 20, 32, 64])))


def build_wire(rng, opaque=True, qname=None):
    """A message without TSIG, built by hand: header, questions, RRs of opaque types; owner names
    are sometimes compression pointers.  -> bytes"""
    mid = rng.randrange(65536)
    opcode = rng.choice([0, 0, 0, 0, 1, 2, 4])
    flags = (rng.randrange(2) << 15) | (opcode << 11) | (rng.randrange(16) << 7) | rng.randrange(16)
    flags &= 0xFFBF  # Z bit clear
    qd = rng.choice([0, 1, 1, 1, 2])
    counts = [qd, rng.choice([0, 0, 1, 2]), rng.choice([0, 0, 1]), rng.choice([0, 0, 1, 2])]
    body = bytearray()
    offsets = []
    for _ in range(qd):
        nm = qname or gen_name(rng, tld=rng.choice([b"example", b"test"]))
        offsets.append(12 + len(body))
        body += plain_wire(nm) + u16(rng.choice([1, 28, 6, 252, 255, 250])) + u16(rng.choice([1, 1, 3, 255]))
    for sec in (1, 2, 3):
        for _ in range(counts[sec]):
            if offsets and rng.random() < 0.5:
                o = rng.choice(offsets)
                owner = bytes([0xC0 | (o >> 8), o & 0xFF])
                if rng.random() < 0.3:
                    owner = plain_wire([gen_label(rng)]) + owner
            else:
                offsets.append(12 + len(body))
                owner = plain_wire(gen_name(rng, tld=rng.choice([b"example", b"test"])))
            t = rng.choice(SECTION_TYPES)
            rdata = bytes(rng.randrange(256) for _ in range(rng.choice([0, 1, 4, 4, 16, 33])))
            body += owner + u16(t) + u16(rng.choice([1, 1, 1, 3, 254, 255])) + struct.pack("!I", rng.choice([0, 300, 2 ** 31 - 1, 2 ** 31, 2 ** 32 - 1])) + u16(len(rdata)) + rdata
    if rng.random() < 0.3:
        opts = b""
        for _ in range(rng.choice([0, 0, 1, 2])):
            d = bytes(rng.randrange(256) for _ in range(rng.choice([0, 3, 8])))
            opts += u16(rng.choice([12, 65001, 65300])) + u16(len(d)) + d
        owner = b"\0" if rng.random() < 0.9 else plain_wire([b"x", b""])
        body += owner + u16(41) + u16(rng.choice([512, 1232, 4096])) + struct.pack("!I", rng.choice([0, 0x8000, 0x01000000])) + u16(len(opts)) + opts
        counts[3] += 1
        if rng.random() < 0.1:
            body += b"\0" + u16(41) + u16(1232) + struct.pack("!I", 0) + u16(0)
            counts[3] += 1
    return struct.pack("!HHHHHH", mid, flags, *counts) + bytes(body)


def tsig_rdata_wire(alg, time, fudge, mac, oid, error, other):
    return plain_wire(alg) + u48(time) + u16(fudge) + u16(len(mac)) + mac + u16(oid) + u16(error) + u16(len(other)) + other


def append_tsig(wire, owner_wire, alg, time, fudge, mac, oid, error, other, ttl=0, cls=255, bump=True):
    rd = tsig_rdata_wire(alg, time, fudge, mac, oid, error, other)
    ar = struct.unpack("!H", wire[10:12])[0]
    hdr = wire[:10] + u16((ar + 1) & 0xFFFF if bump else ar)
    return hdr + wire[12:] + owner_wire + u16(250) + u16(cls) + struct.pack("!I", ttl) + u16(len(rd)) + rd


def hent(algname, secret, data):
    """table entry [hash code, key, octets, full digest] or None"""
    a = rfc_alg(algname)
    if a is None:
        return None
    return [HASH_CODE[a[0]], bytes(secret), bytes(data), hmac.new(bytes(secret), bytes(data), a[0]).digest()]


def table(*ents):
    out = []
    for e in ents:
        if e is not None and e not in out:
            out.append(e)
    return out


def ref_sign(wire, k, oid, time, fudge, error, other, rmac, running=None, ctxkey=None):
    """reference MAC for signing `wire` (message without TSIG) -> (mac, data, (algname, secret))"""
    if running is None:
        data = rfc_first(rmac, oid, wire, k[0], k[2], time, fudge, error, other)
        hk = (k[2], k[1])
    else:
        data = rfc_subsequent(running, oid, wire, time, fudge)
        ck = ctxkey or k
        hk = (ck[2], ck[1])
    mac = rfc_hmac(hk[0], hk[1], data)
    return mac, data, hk


def safe(f, *a, **kw):
    try:
        return f(*a, **kw)
    except Exception:  # noqa
        return None


def gen_sign_case(rng):
    wire = build_wire(rng)
    k = gen_key(rng)
    time = gen_time(rng)
    fudge = rng.choice(FUDGES)
    oid = rng.randrange(65536) if rng.random() < 0.5 else struct.unpack("!H", wire[:2])[0]
    error = 0 if rng.random() < 0.8 else rng.choice([16, 17, 18, 22, 1, 23, 4095])
    other = b"" if error != 18 and rng.random() < 0.9 else bytes(rng.randrange(256) for _ in range(rng.choice([6, 1, 40])))
    rmac = b"" if rng.random() < 0.5 else gen_mac(rng)
    rdalg = k[2] if rng.random() < 0.9 else gen_alg(rng)
    rd = [rdalg, rng.choice([0, 0, time]), fudge, gen_mac(rng) if rng.random() < 0.3 else b"", oid, error, other]
    r = rng.random()
    ctx, multi = None, 0
    if r < 0.25:
        multi = 1
    elif r < 0.5:
        ck = k if rng.random() < 0.8 else gen_key(rng, 0)
        prior = gen_mac(rng)
        data = u16(len(prior)) + prior + (build_wire(rng) if rng.random() < 0.4 else b"")
        ctx = [ck, data]
        multi = rng.choice([1, 1, 1, 0])
    r = rng.random()
    if r < 0.03:
        time = None
    elif r < 0.06:
        time = rng.choice([-1, 2 ** 48, 2 ** 48 + 5])
    ents = []
    tm = 0 if time is None else time
    if ctx is not None and multi:
        res = safe(ref_sign, wire, k, oid, tm % 2 ** 48, fudge, error, other, rmac, running=ctx[1], ctxkey=ctx[0])
    else:
        res = safe(ref_sign, wire, k, oid, tm % 2 ** 48, fudge, error, other, rmac)
    if res and res[0] is not None:
        mac, data, hk = res
        ents.append(hent(hk[0], hk[1], data))
        if multi:
            ents.append(hent(k[2], k[1], u16(len(mac)) + mac))
    return [1, wire, k, rd, time, rmac, ctx, multi, table(*ents)]


VKINDS = ["genuine", "genuine", "genuine", "case", "secret", "keyname", "owner", "alg", "rdalg", "time+", "time-", "time++", "time--",
          "rmac", "rmac0", "error", "mac-bit", "mac-trunc", "mac-ext", "mac-empty", "wire-bit", "id-bit", "ar0", "short", "start",
          "fudge", "oid", "timefield", "other", "multi", "chain", "chain-bad", "chain-unimpl"]


def gen_validate_case(rng, kind=None):
    kind = kind or rng.choice(VKINDS)
    wire = build_wire(rng)
    k = gen_key(rng, 0.02)
    time = gen_time(rng)
    fudge = rng.choice(FUDGES)
    oid = rng.randrange(65536)
    error, other = 0, b""
    rmac = b"" if rng.random() < 0.5 else gen_mac(rng)
    ctx, multi, running = None, 0, None
    if kind in ("multi",):
        multi = 1
    if kind in ("chain", "chain-bad", "chain-unimpl"):
        prior = gen_mac(rng)
        running = u16(len(prior)) + prior + (build_wire(rng) if rng.random() < 0.5 else b"")
        ctx, multi = [k, running], 1
    res = safe(ref_sign, wire, k, oid, time, fudge, error, other, rmac, running=running)
    mac = res[0] if res and res[0] is not None else gen_mac(rng)
    owner = list(k[0])
    rdalg = list(k[2])
    full = safe(append_tsig, wire, plain_wire(owner), rdalg if is_abs(rdalg) else rdalg + [b""], time, fudge, mac, oid, error, other) or wire
    tsig_start = len(wire)
    now = time + rng.choice([0, 0, 1, -1, fudge, -fudge])
    vk = [list(k[0]), k[1], list(k[2])]
    if kind == "case":
        owner = case_variant(rng, owner)
        rdalg = case_variant(rng, rdalg)
        vk[0] = case_variant(rng, vk[0])
    elif kind == "secret":
        vk[1] = gen_secret(rng) if rng.random() < 0.5 else (k[1] + b"\0")
    elif kind == "keyname":
        vk[0] = gen_key(rng, 0)[0]
        owner = vk[0] if rng.random() < 0.5 else owner
    elif kind == "owner":
        owner = gen_key(rng, 0)[0]
    elif kind == "alg":
        vk[2] = gen_alg(rng, 0)
        rdalg = vk[2] if rng.random() < 0.6 else rdalg
    elif kind == "rdalg":
        rdalg = gen_alg(rng, 0)
    elif kind == "time+":
        now = time + fudge
    elif kind == "time-":
        now = time - fudge
    elif kind == "time++":
        now = time + fudge + rng.choice([1, 1, 2, 1000])
    elif kind == "time--":
        now = time - fudge - rng.choice([1, 1, 2, 1000])
    elif kind == "rmac":
        rmac = gen_mac(rng) if rng.random() < 0.5 else (rmac + b"\0")
    elif kind == "rmac0":
        rmac = b"" if rmac else b"\0" * 16
    elif kind == "error":
        error = rng.choice([16, 17, 18, 22, 1, 9, 23, 4095])
        other = b"\0" * 6 if error == 18 else b""
        if rng.random() < 0.5:  # genuine signed error response
            r2 = safe(ref_sign, wire, k, oid, time, fudge, error, other, rmac, running=running)
            mac = r2[0] if r2 and r2[0] is not None else mac
    elif kind == "mac-bit" and mac:
        b = bytearray(mac)
        i = rng.randrange(len(b) * 8)
        b[i // 8] ^= 1 << (i % 8)
        mac = bytes(b)
    elif kind == "mac-trunc" and mac:
        mac = mac[: rng.choice([len(mac) // 2, len(mac) - 1, 10])]
    elif kind == "mac-ext":
        mac = mac + bytes([rng.randrange(256)])
    elif kind == "mac-empty":
        mac = b""
    elif kind == "wire-bit":
        b = bytearray(full)
        i = rng.randrange(16, max(17, tsig_start * 8))
        if i // 8 < len(b):
            b[i // 8] ^= 1 << (i % 8)
        full = bytes(b)
    elif kind == "id-bit":
        b = bytearray(full)
        b[rng.randrange(2)] ^= 1 << rng.randrange(8)
        full = bytes(b)
    elif kind == "ar0":
        full = full[:10] + b"\0\0" + full[12:]
    elif kind == "short":
        full = full[: rng.choice([0, 5, 10, 11, 12])]
    elif kind == "start":
        tsig_start = rng.choice([0, 5, 12, max(0, tsig_start - 1), tsig_start + 1, len(full), len(full) + 10])
    elif kind == "fudge":
        fudge = (fudge + rng.choice([1, 256])) % 65536
    elif kind == "oid":
        oid = (oid ^ (1 << rng.randrange(16)))
    elif kind == "timefield":
        time = time ^ (1 << rng.randrange(48))
        now = time
    elif kind == "other":
        other = bytes([rng.randrange(256)])
    elif kind == "chain-bad":
        ctx = [k, running[:-1] + bytes([running[-1] ^ 1])] if rng.random() < 0.5 else None
    elif kind == "chain-unimpl":
        # a later envelope whose TSIG (and the bare-secret key built from it) names an algorithm the
        # library does not implement, MAC genuine under the running context: must be rejected
        weird = rng.choice([[b"hmac-sha257", b""], [b"hmac-md5", b""], [b"x", b"example", b""]])
        vk[2] = weird
        rdalg = list(weird)
    rd = [rdalg, time, fudge, mac, oid, error, other]
    # what the validator must hash according to the RFC, under the validator's key
    ents = []
    try:
        msg = rfc_strip(full, tsig_start)
        if ctx is not None and multi:
            data = rfc_subsequent(ctx[1], oid, msg, time, fudge)
            ents.append(hent(ctx[0][2], ctx[0][1], data))
        else:
            data = rfc_first(rmac, oid, msg, vk[0], vk[2], time, fudge, error, other)
            ents.append(hent(vk[2], vk[1], data))
        if multi:
            ents.append(hent(vk[2], vk[1], u16(len(mac)) + mac))
    except Exception:  # noqa
        pass
    return kind, [2, full, vk, owner, rd, now, rmac, tsig_start, ctx, multi, table(*ents)]


def gen_rdata_fields(rng):
    alg = gen_alg(rng, 0.1)
    if rng.random() < 0.1:
        alg = gen_name(rng, maxlabels=4, absolute=rng.random() < 0.8)
    r = rng.random()
    time = gen_time(rng) if r < 0.9 else rng.choice([-1, 2 ** 48])
    fudge = rng.choice(FUDGES) if rng.random() < 0.95 else rng.choice([-1, 65536])
    oid = rng.randrange(65536) if rng.random() < 0.95 else rng.choice([-1, 65536])
    error = rng.choice([0, 0, 0, 16, 17, 18, 22, 4095]) if rng.random() < 0.93 else rng.choice([-1, 4096, 65535])
    return [alg, time, fudge, gen_mac(rng), oid, error, bytes(rng.randrange(256) for _ in range(rng.choice([0, 0, 6, 17])))]


def gen_rdata_wire_case(rng):
    f = gen_rdata_fields(rng)
    alg = f[0] if is_abs(f[0]) else f[0] + [b""]
    time = f[1] % 2 ** 48
    err = f[5] % 65536 if rng.random() < 0.8 else rng.choice([4095, 4096, 65535])
    rd = tsig_rdata_wire(alg, time, f[2] % 65536, f[3], f[4] % 65536, err, f[6])
    pre = bytes(rng.randrange(256) for _ in range(rng.choice([0, 0, 3, 12])))
    post = bytes(rng.randrange(256) for _ in range(rng.choice([0, 0, 2])))
    ln = len(rd)
    r = rng.random()
    if r < 0.15:
        ln = rng.randrange(len(rd) + 1)
    elif r < 0.25:
        ln = len(rd) + len(post)
    elif r < 0.35 and len(rd) > 0:
        b = bytearray(rd)
        i = rng.randrange(len(b) * 8)
        b[i // 8] ^= 1 << (i % 8)
        rd = bytes(b)
    elif r < 0.4 and pre:
        # compressed algorithm name pointing into the prefix
        pre = plain_wire(alg) + pre
        rd2 = bytes([0xC0, 0]) + rd[len(plain_wire(alg)):]
        rd, ln = rd2, len(rd2)
    return [4, pre + rd + post, len(pre), ln]


def lib_wire(rng, opaque=True):
    """a message rendered by the library from a hand-built opaque one (so that it re-renders identically)"""
    for _ in range(20):
        w = build_wire(rng)
        try:
            m = dns.message.from_wire(w)
            w2 = m.to_wire(want_shuffle=False)
            if dns.message.from_wire(w2).to_wire(want_shuffle=False) == w2:
                return w2
        except Exception:  # noqa
            continue
    return struct.pack("!HHHHHH", rng.randrange(65536), 0, 0, 0, 0, 0)


def gen_signmsg_case(rng, how=None):
    wire = lib_wire(rng)
    k = gen_key(rng, 0)
    now = gen_time(rng)
    fudge = rng.choice(FUDGES)
    oid = rng.randrange(65536) if rng.random() < 0.5 else struct.unpack("!H", wire[:2])[0]
    error = 0 if rng.random() < 0.8 else rng.choice([16, 17, 18, 18, 22])
    other = u48(now) if error == 18 else b""
    rmac = b"" if rng.random() < 0.5 else gen_mac(rng)
    how = rng.randrange(2) if how is None else how
    a = rfc_alg(k[2])
    mac0 = b"\0" * a[1] if how == 0 else b""
    rd = [list(k[2]), 0, fudge, mac0, oid, error, other]
    ctx, multi, running = None, 0, None
    r = rng.random()
    if r < 0.2:
        multi = 1
    elif r < 0.45:
        prior = gen_mac(rng)
        running = u16(len(prior)) + prior + (build_wire(rng) if rng.random() < 0.4 else b"")
        ctx, multi = [k, running], 1
    mac, data, hk = ref_sign(wire, k, oid, now, fudge, error, other, rmac, running=running)
    ents = [hent(hk[0], hk[1], data)]
    if multi:
        ents.append(hent(k[2], k[1], u16(len(mac)) + mac))
    return [5, wire, k, list(k[0]), rd, now, rmac, ctx, multi, table(*ents), how]


def signed_wire(rng, wire=None, k=None, rmac=None, time=None, fudge=None, running=None, owner_wire=None, **kw):
    """a reference-signed message -> (full wire, key, rmac, time, fudge, mac, tsig_start)"""
    wire = build_wire(rng) if wire is None else wire
    k = k or gen_key(rng, 0)
    rmac = (b"" if rng.random() < 0.5 else gen_mac(rng)) if rmac is None else rmac
    time = gen_time(rng) if time is None else time
    fudge = rng.choice(FUDGES) if fudge is None else fudge
    oid = kw.get("oid", struct.unpack("!H", wire[:2])[0] if rng.random() < 0.6 else rng.randrange(65536))
    error = kw.get("error", 0)
    other = kw.get("other", b"")
    mac, data, hk = ref_sign(wire, k, oid, time, fudge, error, other, rmac, running=running)
    ow = plain_wire(k[0]) if owner_wire is None else owner_wire
    full = append_tsig(wire, ow, k[2], time, fudge, mac, oid, error, other)
    return full, k, rmac, time, fudge, mac, len(wire)


def read_table(w, keys, rmac, now, running=None, ctxkey=None, multi=False):
    """table entries for reading `w` with any of `keys` (list of [name, secret, alg])"""
    ents = []
    info = walk(w)
    if not info["rrs"]:
        return ents
    for last in info["rrs"]:
        if last["type"] != 250:
            continue
        try:
            t = walk_tsig_rdata(w, last["rdata"], last["rdlen"])
            msg = rfc_strip(w, last["start"])
        except Exception:  # noqa
            continue
        for k in keys:
            try:
                if running is not None:
                    ck = ctxkey or k
                    data = rfc_subsequent(running, t["oid"], msg, t["time"], t["fudge"])
                    ents.append(hent(ck[2], ck[1], data))
                else:
                    data = rfc_first(rmac, t["oid"], msg, k[0], k[2], t["time"], t["fudge"], t["error"], t["other"])
                    ents.append(hent(k[2], k[1], data))
                if multi:
                    ents.append(hent(k[2], k[1], u16(len(t["mac"])) + t["mac"]))
            except Exception:  # noqa
                continue
    return ents


def read_case(w, kr, keys, rmac, now, ctx=None, multi=0, origin=None):
    running = ctx[1] if (ctx is not None and multi) else None
    ents = read_table(w, keys, rmac, now, running=running, ctxkey=ctx[0] if ctx else None, multi=bool(multi))
    if ctx is not None and multi:
        # an unsigned envelope extends the running digest: the probe hashes running + wire
        ents.append(hent(ctx[0][2], ctx[0][1], ctx[1] + w))
    if ctx is not None:
        ents.append(hent(ctx[0][2], ctx[0][1], ctx[1]))
    return [6, w, kr, rmac, ctx, multi, now, table(*ents), origin]


def gen_realistic_read_case(rng):
    """an ordinary query/response (A, NS, SOA, MX, TXT, AAAA; EDNS in half of them) signed per the RFC, genuine or with one bit flipped"""
    body = realistic_message(rng)
    k = gen_key(rng, 0)
    full, k, rmac, time, fudge, mac, start = signed_wire(rng, wire=body, k=k)
    now = time + rng.choice([0, fudge, -fudge])
    kind = "realistic"
    if rng.random() < 0.6:
        kind = "realistic-flip"
        b = bytearray(full)
        i = rng.randrange(len(b) * 8)
        b[i // 8] ^= 1 << (i % 8)
        full = bytes(b)
    return kind, read_case(full, [1, k], [k], rmac, now)


# every keyring form x good / forged MAC x single message / later envelope of a multi-message exchange
KEYRING_FORMS = ["empty", "miss", "hit", "hit-bytes", "key", "call-hit", "call-miss", "none", "false", "true"]
FORM_KINDS = ["form:%s:%s:%s" % (f, m, p) for f in KEYRING_FORMS for m in ("good", "forged") for p in ("single", "later")]

RKINDS = FORM_KINDS + ["origin", "origin-dict", "origin-dict-bytes", "origin-callable", "genuine", "genuine", "case", "compressed", "flip", "flip", "flip", "nokeyring", "kr-true", "kr-false", "dict", "dict-bytes",
          "dict-miss", "secret", "time", "rmac", "error", "notlast", "notlast-sec", "class", "two", "ttl", "trailing", "trunc",
          "unsigned", "multi", "chain", "chain-unsigned"]


def gen_read_case(rng, kind=None):
    kind = kind or rng.choice(RKINDS)
    body = build_wire(rng)
    k = gen_key(rng, 0)
    kw = {}
    if kind == "error":
        kw = dict(error=rng.choice([16, 17, 18, 22, 3]))
        if kw["error"] == 18:
            kw["other"] = b"\0\0\0\0\0\1"
    running, ctx, multi = None, None, 0
    if kind in ("chain", "chain-unsigned") or (kind.startswith("form:") and kind.endswith(":later")):
        prior = gen_mac(rng)
        running = u16(len(prior)) + prior + (build_wire(rng) if rng.random() < 0.4 else b"")
        ctx, multi = [k, running], 1
    if kind == "multi":
        multi = 1
    owner_wire = None
    if kind == "case":
        owner_wire = plain_wire(case_variant(rng, k[0]))
    if kind == "compressed":
        # key name = a name already in the message, referenced through a pointer
        info = walk(body)
        qd = info["counts"][0]
        if qd:
            nm, _ = walk_name(body, 12)
            k = [nm, k[1], k[2]]
            owner_wire = bytes([0xC0, 12])
    full, k, rmac, time, fudge, mac, start = signed_wire(rng, wire=body, k=k, running=running, owner_wire=owner_wire, **kw)
    now = time + rng.choice([0, 1, -1, fudge, -fudge])
    kr = [1, k]
    keys = [k]
    origin = None if rng.random() < 0.7 else gen_origin(rng, k[0])
    if kind == "flip":
        b = bytearray(full)
        i = rng.randrange(len(b) * 8) if rng.random() < 0.5 else rng.randrange(start * 8, len(b) * 8)
        b[i // 8] ^= 1 << (i % 8)
        full = bytes(b)
    elif kind.startswith("form:"):
        _, form, macq, _pos = kind.split(":")
        k2 = gen_key(rng, 0)
        while name_eq(k2[0], k[0]):
            k2 = gen_key(rng, 0)
        kr = {"empty": [2, []], "miss": [2, [[k2[0], k2]]], "hit": [2, [[k2[0], k2], [case_variant(rng, k[0]), k]]],
              "hit-bytes": [2, [[k[0], k[1]]]], "key": [1, k], "call-hit": [3, [[k[0], k]]], "call-miss": [3, [[k2[0], k2]]],
              "none": None, "false": 0, "true": 1}[form]
        keys = [k, k2]
        if macq == "forged" and mac:
            p_ = full.rfind(mac)
            b = bytearray(full)
            b[p_ + rng.randrange(len(mac))] ^= 1 << rng.randrange(8)
            full = bytes(b)
    elif kind.startswith("origin"):
        origin = gen_origin(rng, k[0]) or list(k[0][1:] if len(k[0]) > 1 else k[0])
        if kind == "origin-dict":
            kr = [2, [[case_variant(rng, k[0]), k]]]
        elif kind == "origin-dict-bytes":
            kr = [2, [[k[0], k[1]]]]
        elif kind == "origin-callable":
            kr = [3, [[k[0], k]]]
    elif kind == "nokeyring":
        kr = None
    elif kind == "kr-true":
        kr = 1
    elif kind == "kr-false":
        kr = 0
    elif kind == "dict":
        k2 = gen_key(rng, 0)
        while name_eq(k2[0], k[0]):  # a dict holds one entry per (case-insensitive) name
            k2 = gen_key(rng, 0)
        kr = [2, [[k2[0], k2], [case_variant(rng, k[0]), k]]]
        keys = [k, k2]
    elif kind == "dict-bytes":
        kr = [2, [[k[0], k[1]]]]
    elif kind == "dict-miss":
        k2 = gen_key(rng, 0)
        kr = [2, [[k2[0], k2]]]
        keys = [k2]
    elif kind == "secret":
        k2 = [k[0], k[1] + b"x", k[2]]
        kr = [1, k2]
        keys = [k2]
    elif kind == "time":
        now = time + rng.choice([fudge + 1, -fudge - 1, fudge, -fudge])
    elif kind == "rmac":
        rmac = rmac + b"\1" if rng.random() < 0.5 else (b"" if rmac else b"\0" * 20)
    elif kind in ("notlast", "notlast-sec", "two"):
        # re-assemble: put the TSIG RR somewhere other than last
        tsig_rr = full[start:]
        extra = plain_wire(gen_name(rng, tld=b"example")) + u16(65280) + u16(1) + struct.pack("!I", 0) + u16(2) + b"ab"
        ar = struct.unpack("!H", body[10:12])[0]
        if kind == "notlast":
            full = body[:10] + u16(ar + 2) + body[12:] + tsig_rr + extra
        elif kind == "two":
            full = body[:10] + u16(ar + 2) + body[12:] + tsig_rr + tsig_rr
        else:
            # TSIG as the last record of the answer / authority section of a message that has nothing after it
            hdr = struct.pack("!HHHHHH", rng.randrange(65536), 0x8000, 0, 0, 0, 0)
            sec = rng.choice([1, 2])
            cnt = [0, 0, 0, 0]
            cnt[sec] = 1
            hdr = hdr[:4] + struct.pack("!HHHH", *cnt)
            full = hdr + tsig_rr
    elif kind == "class":
        info = walk(full)
        p = info["rrs"][-1]["rdata"] - 8
        full = full[:p] + u16(rng.choice([1, 254, 0])) + full[p + 2:]
    elif kind == "ttl":
        info = walk(full)
        p = info["rrs"][-1]["rdata"] - 6
        full = full[:p] + struct.pack("!I", rng.choice([1, 300, 2 ** 31, 2 ** 32 - 1])) + full[p + 4:]
    elif kind == "trailing":
        full = full + bytes([rng.randrange(256)])
    elif kind == "trunc":
        full = full[: rng.randrange(len(full))]
    elif kind in ("unsigned", "chain-unsigned"):
        full = body
    return kind, read_case(full, kr, keys, rmac, now, ctx, multi, origin)


def gen_origin(rng, keyname):
    """the origin argument of from_wire: None, unrelated, the key name itself, an ancestor of it, the root"""
    r = rng.randrange(6)
    if r == 0:
        return None
    if r == 1:
        return gen_name(rng, tld=b"elsewhere")
    if r == 2:
        return case_variant(rng, list(keyname))
    if r == 3 and len(keyname) > 2:
        return list(keyname[1:])
    if r == 4:
        return list(keyname[-2:]) if len(keyname) >= 2 else [b""]
    return [b""] if rng.random() < 0.3 else list(keyname[rng.randrange(len(keyname)):])


def gen_stream(rng, n=None):
    """a multi-message exchange: envelopes with any subset of the intermediate ones unsigned.
    -> (list of (wire, signed?), key, rmac, times, fudge)"""
    n = n or rng.choice([1, 2, 3, 3, 4, 5])
    k = gen_key(rng, 0)
    rmac = b"" if rng.random() < 0.2 else gen_mac(rng)
    base = gen_time(rng) % (2 ** 48 - 1000)
    fudge = rng.choice([300, 300, 5, 65535])
    envs = []
    for i in range(n):
        signed = True if i in (0, n - 1) else rng.random() < 0.5
        envs.append((lib_wire(rng), signed, base + rng.randint(0, 3), fudge, rng.randrange(65536)))
    return envs, k, rmac, base, fudge


def ref_sign_stream(envs, k, rmac):
    """reference: the wires of the exchange, each signed one carrying the RFC MAC; also table entries"""
    out, ents = [], []
    running = None
    for w, signed, t, fudge, oid in envs:
        if not signed:
            out.append(w)
            if running is not None:
                running += w
            continue
        mac, data, hk = ref_sign(w, k, oid, t, fudge, 0, b"", rmac, running=running)
        ents.append(hent(hk[0], hk[1], data))
        out.append(append_tsig(w, plain_wire(k[0]), k[2], t, fudge, mac, oid, 0, b""))
        running = u16(len(mac)) + mac
        ents.append(hent(k[2], k[1], running))
    return out, ents


def stream_read_table(ws, k, rmac):
    """table for reading the envelopes `ws` in order with key k (reference running digest)"""
    ents = []
    running = None
    for w in ws:
        info = walk(w)
        ts = [r for r in info["rrs"] if r["type"] == 250]
        if not ts:
            if running is not None:
                running += w
                ents.append(hent(k[2], k[1], running))
            continue
        last = ts[-1]
        try:
            t = walk_tsig_rdata(w, last["rdata"], last["rdlen"])
            msg = rfc_strip(w, last["start"])
            if running is None:
                data = rfc_first(rmac, t["oid"], msg, k[0], k[2], t["time"], t["fudge"], t["error"], t["other"])
            else:
                data = rfc_subsequent(running, t["oid"], msg, t["time"], t["fudge"])
            ents.append(hent(k[2], k[1], data))
            running = u16(len(t["mac"])) + t["mac"]
            ents.append(hent(k[2], k[1], running))
        except Exception:  # noqa
            break
    return ents


def gen_stream_cases(rng):
    envs, k, rmac, base, fudge = gen_stream(rng)
    ws, ents = ref_sign_stream(envs, k, rmac)
    now = base + rng.choice([0, 1, 2])
    yield "stream-sign", [8, [[w, ([list(k[2]), 0, f, b"\0" * rfc_alg(k[2])[1], oid, 0, b""] if s else None)] + ([t] if s else []) for (w, s, t, f, oid) in envs],
                          k, rmac, table(*ents)]
    origin = gen_origin(rng, k[0])
    kr7 = rng.choice([[1, k], [2, [[k[0], k]]], [2, [[k[0], k[1]]]], [3, [[k[0], k]]]])
    yield "stream-read", [7, ws, kr7, rmac, now, table(*stream_read_table(ws, k, rmac)), origin]
    # tamper with one envelope (signed or not): everything from the next TSIG on must fail
    if ws:
        i = rng.randrange(len(ws))
        b = bytearray(ws[i])
        j = rng.randrange(16, len(b) * 8)
        b[j // 8] ^= 1 << (j % 8)
        ws2 = list(ws)
        ws2[i] = bytes(b)
        yield "stream-tamper", [7, ws2, [1, k], rmac, now, table(*stream_read_table(ws2, k, rmac)), None]
        if len(ws) > 2:
            # drop or swap intermediate envelopes
            j = rng.randrange(1, len(ws) - 1)
            ws3 = ws[:j] + ws[j + 1:]
            yield "stream-drop", [7, ws3, [1, k], rmac, now, table(*stream_read_table(ws3, k, rmac)), gen_origin(rng, k[0])]


def gen_keyring_case(rng):
    k = gen_key(rng, 0)
    if rng.random() < 0.3:
        k[1] = k[1] or b"x"
    return [9, k[0], k[1], k[2], rng.randrange(2), lib_wire(rng), gen_time(rng)]


def gen_exchange_case(rng):
    for _ in range(50):
        w = lib_wire(rng)
        fl = struct.unpack("!H", w[2:4])[0]
        if not (fl & 0x8000) and ((fl >> 11) & 15) == 0 and struct.unpack("!H", w[4:6])[0] >= 1:
            break
    else:
        w = dns.message.make_query("www.example.", "A", id=rng.randrange(65536)).to_wire()
    return [10, w, gen_key(rng, 0), rng.choice([1700000000, 2 ** 32 - 1, 2 ** 40]), rng.choice([0, 1, 300])]


def gen_rerender_case(rng, shape):
    """shape 0: single message, 1: first envelope (multi, no context), 2: later envelope (explicit context)"""
    wire = lib_wire(rng)
    k = gen_key(rng, 0)
    fudge = rng.choice(FUDGES)
    oid = rng.randrange(65536) if rng.random() < 0.5 else struct.unpack("!H", wire[:2])[0]
    rmac = b"" if rng.random() < 0.3 else gen_mac(rng)
    base = gen_time(rng) % (2 ** 48 - 10)
    nows = [base + (0 if rng.random() < 0.5 else j) for j in range(rng.choice([2, 3]))]
    rd = [list(k[2]), 0, fudge, b"\0" * rfc_alg(k[2])[1], oid, 0, b""]
    cx, multi, running = None, 0, None
    if shape == 1:
        multi = 1
    elif shape == 2:
        prior = gen_mac(rng)
        running = u16(len(prior)) + prior + (build_wire(rng) if rng.random() < 0.4 else b"")
        cx, multi = [k, running], 1
    ents = []
    for now in nows:
        mac, data, hk = ref_sign(wire, k, oid, now, fudge, 0, b"", rmac, running=running)
        ents.append(hent(hk[0], hk[1], data))
        if multi:
            ents.append(hent(k[2], k[1], u16(len(mac)) + mac))
    return [12, wire, k, list(k[0]), rd, nows, rmac, cx, multi, table(*ents)]


RESPONSE_ERRORS = [0, 16, 17, 18, 22]   # NOERROR, BADSIG, BADKEY, BADTIME, BADTRUNC


def gen_response_case(rng, error, alg=None):
    """a query rendered by the library, the body of the response make_response gives for it (both
    without TSIG), the key, and the TSIG parameters of both messages"""
    while True:
        qwire = gen_exchange_case(rng)[1]
        # a PADDING option in the query makes make_response pad the response to a block size that
        # depends on the TSIG size (C08's subject): keep those out of this generator
        padded = False
        for r in walk(qwire)["rrs"]:
            if r["type"] == 41:
                p_, end = r["rdata"], r["rdata"] + r["rdlen"]
                while p_ + 4 <= end:
                    code, olen = struct.unpack("!HH", qwire[p_: p_ + 4])
                    padded = padded or code == 12
                    p_ += 4 + olen
        if not padded:
            break
    k = gen_key(rng, 0)
    if alg is not None:
        k[2] = list(alg)
    now = rng.choice([1700000000, 2 ** 32 - 2, 2 ** 40])
    rbody = dns.message.make_response(dns.message.from_wire(qwire)).to_wire(want_shuffle=False)
    qid = struct.unpack("!H", qwire[:2])[0]
    n = rfc_alg(k[2])[1]
    fq, fr = rng.choice([300, 1, 65535]), rng.choice([300, 0, 600])
    rdq = [list(k[2]), 0, fq, b"\0" * n, qid, 0, b""]
    rdr = [list(k[2]), 0, fr, b"\0" * n, qid, error, b""]
    qmac, qdata, hk = ref_sign(qwire, k, qid, now, fq, 0, b"", b"")
    rmac, rdata_, _ = ref_sign(rbody, k, qid, now + 1, fr, error, b"", qmac)
    return [11, qwire, rbody, k, rdq, rdr, now, table(hent(hk[0], hk[1], qdata), hent(hk[0], hk[1], rdata_))]


def cases(ctx):
    rng = ctx.rng
    yield "tables", [0]
    # the same Message object rendered 2..3 times: single message, first envelope, later envelope
    for i in range(ctx.n(36, 600)):
        yield "rerender", gen_rerender_case(rng, i % 3)
    # every TSIG error a response can carry x every algorithm
    for i in range(ctx.n(45, 450)):
        yield "response", gen_response_case(rng, RESPONSE_ERRORS[i % 5], ALG_LABELS[(i // 5) % 9])
    for _ in range(ctx.n(25, 300)):
        yield "exchange", gen_exchange_case(rng)
    for _ in range(ctx.n(30, 300)):
        yield "keyring", gen_keyring_case(rng)
    for _ in range(ctx.n(80, 2500)):
        yield "sign", gen_sign_case(rng)
    for i in range(ctx.n(210, 4000)):
        yield gen_validate_case(rng, VKINDS[i % len(VKINDS)])   # every variant in every run
    for _ in range(ctx.n(60, 1000)):
        yield "rdata-to-wire", [3, gen_rdata_fields(rng)]
        yield "rdata-from-wire", gen_rdata_wire_case(rng)
    for _ in range(ctx.n(48, 1200)):
        yield "sign-message", gen_signmsg_case(rng)
    for i in range(ctx.n(210, 4000)):
        kind, c = gen_read_case(rng, RKINDS[i % len(RKINDS)])
        yield "read:" + kind, c
    for _ in range(ctx.n(40, 1500)):
        kind, c = gen_realistic_read_case(rng)
        yield "read:" + kind, c
    for _ in range(ctx.n(18, 600)):
        yield from gen_stream_cases(rng)


def in_model(kind, case):
    op = case[0]
    if op in (9, 10):
        return False
    if op == 5:
        # the model writes the TSIG owner uncompressed; the key names of this generator never share a suffix with message names
        return True
    if op in (6, 7):
        ws = [case[1]] if op == 6 else case[1]
        for w in ws:
            info = walk(bytes(w))
            if len(w) >= 12 and ((info.get("flags", 0) >> 11) & 15) == 5:
                return False
            for r in info["rrs"]:
                if r["type"] == 41:
                    if not opt_options_opaque(bytes(w), r):
                        return False
                elif r["type"] != 250 and r["type"] not in OPAQUE_TYPES:
                    if not (r["type"] in SIMPLE_TYPES and simple_rdata_ok(bytes(w), r)):
                        return False
    return True


# ----------------------------------------------------------------------------- oracle


def oracle(ctx, kind, case, out):
    F = []

    def fail(what, **kw):
        F.append({"kind": kind.split(":")[0] + ":" + what, "what": what, "impl": out, **kw})

    op = case[0]
    if isinstance(out, Err) and (out.code >= 700 or out.code < 0):
        fail("unexpected exception " + out.text)
        return F
    if op == 0:
        if not isinstance(out, Err):
            got = {name_key(n): (h, s) for n, h, s in out[0]}
            want = {k: (HASH_CODE[h], None if hashlib.new(h).digest_size == n else n * 8) for k, (h, n) in RFC_ALGS.items()}
            if got != want:
                fail("HMAC algorithm table differs from RFC 8945 section 6", got=sorted(got.items()), want=sorted(want.items()))
            sizes = {name_key(n): v for n, v in out[1]}
            for kname, (h, n) in RFC_ALGS.items():
                if sizes.get(kname) != n:
                    fail("mac_sizes differs from RFC 8945 for " + kname.decode())
    elif op == 3:
        # RFC 8945 4.2: Algorithm Name, Time Signed (48), Fudge, MAC Size, MAC, Original ID, Error, Other Len, Other Data
        if not isinstance(out, Err):
            f = case[1]
            if out != tsig_rdata_wire(f[0], f[1], f[2], f[3], f[4], f[5], f[6]):
                fail("TSIG rdata wire form differs from RFC 8945 4.2", sig="rdata-wire")
    elif op == 4:
        _, w, start, ln = case
        try:
            want = walk_tsig_rdata(w, start, ln) if start + ln <= len(w) else None
        except Malformed:
            want = None
        if want is not None and want["error"] > 4095:
            want = None   # the library's rcode type stops at 4095
        if isinstance(out, Err):
            if want is not None:
                fail("well-formed TSIG rdata refused: " + out.text, sig="rdata-parse")
        else:
            got = dict(alg=out[0], time=out[1], fudge=out[2], mac=out[3], oid=out[4], error=out[5], other=out[6])
            if want is None or got != want:
                fail("TSIG rdata parsed differently from RFC 8945 4.2", sig="rdata-parse", want=str(want))
    elif op == 1:
        _, wire, k, rd, time, rmac, cx, multi, _ = case
        if isinstance(out, Err):
            return F
        t, pr = out
        first = not (cx is not None and multi)
        try:
            if first:
                res = ref_sign(wire, k, rd[4], time, rd[2], rd[5], rd[6], rmac)
            else:
                res = ref_sign(wire, k, rd[4], time, rd[2], rd[5], rd[6], rmac, running=cx[1], ctxkey=cx[0])
        except Exception:  # noqa
            res = None
        if res is None or res[0] is None:
            fail("sign succeeded where the RFC input is undefined")
            return F
        if t[3] != res[0]:
            fail("MAC is not the RFC 8945 HMAC over the specified digest components", sig="mac", want=res[0], got=t[3])
        if t[1] != time or t[0] != rd[0] or t[2] != rd[2] or t[4:] != rd[4:]:
            fail("signed TSIG rdata fields differ from the request", sig="fields")
        if multi:
            want = rfc_hmac(k[2], k[1], u16(len(t[3])) + t[3])
            if pr != want:
                fail("running digest after a signed envelope is not seeded with the length-prefixed MAC", sig="seed")
    elif op == 2:
        _, full, vk, owner, rd, now, rmac, tsig_start, cx, multi, _ = case
        res = out[0] if isinstance(out, list) else out
        accepted = not isinstance(res, Err)
        # RFC verdict from the rdata fields and the wire
        want, why = None, ""
        try:
            if len(full) < 12 or struct.unpack("!H", full[10:12])[0] == 0:
                want, why = False, "no additional record"
            elif rd[5] != 0:
                want, why = False, "peer error"
            elif abs(now - rd[1]) > rd[2]:
                want, why = False, "time"
            elif not name_eq(owner, vk[0]):
                want, why = False, "key name"
            elif not name_eq(rd[0], vk[2]):
                want, why = False, "algorithm"
            elif rfc_alg(vk[2]) is None:
                want, why = False, "unsupported algorithm"
            else:
                msg = rfc_strip(full, tsig_start)
                if cx is not None and multi:
                    data = rfc_subsequent(cx[1], rd[4], msg, rd[1], rd[2])
                    mac = rfc_hmac(cx[0][2], cx[0][1], data)
                else:
                    data = rfc_first(rmac, rd[4], msg, vk[0], vk[2], rd[1], rd[2], rd[5], rd[6])
                    mac = rfc_hmac(vk[2], vk[1], data)
                if mac is None:
                    want, why = False, "unsupported algorithm"
                else:
                    want, why = (mac == rd[3]), "mac"
        except Exception:  # noqa
            want, why = False, "undefined input"
        if accepted and not want:
            fail("validate accepted a TSIG that RFC 8945 rejects (" + why + ")", sig="accept:" + why, variant=kind)
        if not accepted and want:
            fail("validate rejected a genuine TSIG", sig="reject-genuine", variant=kind)
        if not accepted and not want:
            exp = {"peer error": {24, 25, 26, 27, 28}, "time": {20}, "key name": {22}, "algorithm": {23}, "mac": {21}}.get(why)
            if exp and res.code not in exp and res.code < 100 and why != "mac":
                # the property only demands rejection; which exception is raised is pinned by the
                # model correspondence, not by the oracle
                ctx.count("note:rejected-with-other-exception:" + why)
    elif op == 5:
        if isinstance(out, Err):
            fail("signing a message failed: " + out.text, sig="sign-failed")
            return F
        _, wire, k, owner, rd, now, rmac, cx, multi, _, how = case[:11]
        full, t, pr = out
        running = cx[1] if cx is not None and multi else None
        mac, data, hk = ref_sign(wire, k, rd[4], now, rd[2], rd[5], rd[6], rmac, running=running)
        if t[3] != mac:
            fail("MAC in the rendered message is not the RFC 8945 HMAC", sig="mac", want=mac, got=t[3])
        want_full = append_tsig(wire, plain_wire(k[0]), rd[0], now, rd[2], mac, rd[4], rd[5], rd[6])
        info = walk(full)
        if info["error"] or not info["rrs"] or info["rrs"][-1]["type"] != 250:
            fail("rendered message does not end with a TSIG RR", sig="shape")
        else:
            last = info["rrs"][-1]
            if last["cls"] != 255 or last["ttl"] != 0 or last["section"] != 3:
                fail("TSIG RR is not class ANY / TTL 0 / in ADDITIONAL", sig="shape")
            if rfc_strip(full, last["start"]) != wire:
                fail("message before the TSIG RR differs from the signed octets", sig="shape")
        # every message it signs validates under the same key (a signed error response is reported as Peer*)
        v = rfc_verdict(full, k[0], k[1], k[2], rmac, now, running=running)
        if rd[5] == 0 and v[0] != "accept":
            fail("signed message is not valid per RFC 8945: " + str(v[:2]), sig="self-invalid")
        try:
            with clock(now):
                m = dns.message.from_wire(full, keyring=mk_key(k), request_mac=rmac, tsig_ctx=mk_ctx(cx), multi=bool(multi))
            if not m.had_tsig:
                fail("signed message read back without TSIG", sig="self-reject")
            elif rd[5] != 0:
                fail("a TSIG carrying an error was accepted", sig="peer-error-accepted")
        except dns.tsig.PeerError as e:
            if rd[5] == 0:
                fail("a message the library signed does not validate under the same key: " + type(e).__name__, sig="self-reject")
        except Exception as e:  # noqa
            fail("a message the library signed does not validate under the same key: " + type(e).__name__, sig="self-reject")
    elif op == 6:
        _, w, kr, rmac, cx, multi, now, _, origin = case
        F += read_oracle(kind, w, kr, rmac, cx, multi, now, out, origin)
    elif op == 7:
        _, ws, kr, rmac, now, _, origin = case
        if kr[0] == 1:
            k = kr[1]
        else:
            ent = kr[1][0]
            k = ent[1] if not isinstance(ent[1], (bytes, bytearray)) else [ent[0], ent[1], walk_tsig_alg(ws)]
        running = None
        if origin is not None and name_eq(origin, [b""]) and any(r["type"] == 41 for w in ws for r in walk(w)["rrs"]):
            return F  # from_wire(origin=root) reports BadEDNS for every OPT record (its owner relativizes to the empty name)
        for i, w in enumerate(ws):
            if i >= len(out):
                break
            o = out[i]
            v = rfc_verdict(w, k[0], k[1], k[2], rmac, now, running=running)
            acc = not isinstance(o, Err)
            if acc and o[0] and v[0] != "accept":
                F.append({"kind": "stream:accepted", "what": "envelope %d accepted although RFC 8945 says %s" % (i, v[:2]), "impl": out,
                          "sig": "stream-accept", "variant": kind})
                break
            if v[0] == "accept" and not (acc and o[0]):
                F.append({"kind": "stream:rejected", "what": "genuine envelope %d rejected" % i, "impl": out, "sig": "stream-reject", "variant": kind})
                break
            if not acc:
                break
            if v[0] == "accept":
                running = u16(len(v[1])) + v[1]
            elif v[0] == "unsigned":
                if running is not None:
                    running += w
            else:
                break
    elif op == 12:
        _, wire, k, owner, rd, nows, rmac, cx, multi, _ = case
        if isinstance(out, Err):
            fail("rendering a signed message failed: " + out.text, sig="rerender-failed")
            return F
        running = cx[1] if cx is not None and multi else None
        for i, (now, o) in enumerate(zip(nows, out)):
            if isinstance(o, Err):
                fail("render %d of the same Message object failed: %s" % (i + 1, o.text), sig="rerender-failed")
                break
            full, pr = o
            mac, data, hk = ref_sign(wire, k, rd[4], now, rd[2], rd[5], rd[6], rmac, running=running)
            want_full = append_tsig(wire, plain_wire(k[0]), rd[0], now, rd[2], mac, rd[4], rd[5], rd[6])
            v = rfc_verdict(full, k[0], k[1], k[2], rmac, now, running=running)
            if v[0] != "accept" or full != want_full:
                fail("render %d of the same Message object (multi=%d, tsig_ctx argument %s) does not carry the RFC 8945 MAC of %s: %s"
                     % (i + 1, multi, "given" if cx is not None else "None", "a later envelope" if running is not None else "a first/only message", v[:2]),
                     sig="rerender-mac", render=i + 1)
                break
            try:
                with clock(now):
                    m = dns.message.from_wire(full, keyring=mk_key(k), request_mac=rmac, tsig_ctx=mk_ctx(cx), multi=bool(multi))
                if not m.had_tsig:
                    fail("render %d read back without TSIG" % (i + 1), sig="rerender-reject")
            except Exception as e:  # noqa
                fail("render %d of the same Message object does not validate: %s" % (i + 1, type(e).__name__), sig="rerender-reject", render=i + 1)
                break
    elif op == 11:
        _, qwire, rbody, k, rdq, rdr, now, _ = case
        if isinstance(out, Err):
            fail("signed query / make_response(tsig_error=%d) failed: %s" % (rdr[5], out.text), sig="response-failed")
            return F
        qw, rw = out
        vq = rfc_verdict(qw, k[0], k[1], k[2], b"", now)
        if vq[0] != "accept":
            fail("signed query is not valid per RFC 8945: " + str(vq[:2]), sig="response-query")
            return F
        qmac = vq[1]
        info = walk(rw)
        last = info["rrs"][-1] if info["rrs"] and not info["error"] else None
        if last is None or last["type"] != 250:
            fail("response to a signed query carries no TSIG", sig="response-unsigned")
            return F
        t = walk_tsig_rdata(rw, last["rdata"], last["rdlen"])
        msg = rfc_strip(rw, last["start"])
        if t["error"] != rdr[5]:
            fail("TSIG error of the response is not the one requested", sig="response-error-field")
        bound = rfc_hmac(k[2], k[1], rfc_first(qmac, t["oid"], msg, last["owner"], t["alg"], t["time"], t["fudge"], t["error"], t["other"]))
        unbound = rfc_hmac(k[2], k[1], rfc_first(b"", t["oid"], msg, last["owner"], t["alg"], t["time"], t["fudge"], t["error"], t["other"]))
        # RFC 8945 5.3.2: a signed error response digests the request MAC when that MAC validated
        # (BADTIME, BADTRUNC and of course NOERROR); for BADSIG/BADKEY the request MAC did not
        # validate and the RFC prefers an unsigned response, so either digest form is tolerated there
        ok = (t["mac"] == bound) or (rdr[5] in (16, 17) and t["mac"] in (unbound, b""))
        if not ok:
            fail("MAC of the response built by make_response(tsig_error=%d) is not the RFC 8945 HMAC over request MAC + message + TSIG variables"
                 % rdr[5], sig="response-mac", want=bound, got=t["mac"], unbound=int(t["mac"] == unbound))
    elif op == 10:
        _, qwire, k, now, fudge = case
        if isinstance(out, Err):
            fail("signed query / response exchange failed: " + out.text, sig="exchange")
            return F
        qw, rw, qmac, shad, chad, unbound = out
        vq = rfc_verdict(qw, k[0], k[1], k[2], b"", now)
        vr = rfc_verdict(rw, k[0], k[1], k[2], qmac, now + 1)
        if vq[0] != "accept" or vq[1] != qmac or not shad:
            fail("signed query is not valid per RFC 8945: " + str(vq[:2]), sig="exchange-query")
        if vr[0] != "accept" or not chad:
            fail("response of make_response is not bound to the request MAC per RFC 8945 4.3.1: " + str(vr[:2]), sig="exchange-response")
        if unbound:
            fail("response validated with a different request MAC", sig="exchange-unbound")
    elif op == 9:
        _, nm, secret, alg, form, wire, now = case
        if isinstance(out, Err):
            fail("keyring text round trip / signing through a keyring failed: " + out.text, sig="keyring")
            return F
        same, one, got_secret, got_alg, full, had = out
        if not same or not one or got_secret != secret or (form == 1 and not name_eq(got_alg, alg)):
            fail("dns.tsigkeyring from_text/to_text do not round-trip", sig="keyring-roundtrip")
        v = rfc_verdict(full, nm, secret, alg, b"", now)
        if v[0] != "accept" or not had:
            fail("message signed through a keyring dict is not valid per RFC 8945: " + str(v[:2]), sig="keyring-sign")
    elif op == 8:
        _, envs, k, rmac, _ = case
        if isinstance(out, Err):
            return F
        envs2 = [(e[0], e[1] is not None, e[2] if e[1] is not None else 0, e[1][2] if e[1] is not None else 0, e[1][4] if e[1] is not None else 0) for e in envs]
        want, _ents = ref_sign_stream(envs2, k, rmac)
        for i, (a, b) in enumerate(zip(out, want)):
            if isinstance(a, Err):
                fail("signing envelope %d failed: %s" % (i, a.text), sig="stream-sign-failed")
                break
            if a != b:
                fail("envelope %d of a multi-message exchange differs from the RFC 8945 5.3.1 signature" % i, sig="stream-mac", want=b, got=a)
                break
    return F


def walk_tsig_alg(ws):
    """algorithm name of the first TSIG record of a sequence (a bare-secret keyring takes it from there)"""
    for w in ws:
        for r in walk(w)["rrs"]:
            if r["type"] == 250:
                try:
                    return walk_tsig_rdata(w, r["rdata"], r["rdlen"])["alg"]
                except Malformed:
                    return [b""]
    return [b""]


def read_oracle(kind, w, kr, rmac, cx, multi, now, out, origin=None):
    F = []

    def fail(what, **kw):
        F.append({"kind": "read:" + what, "what": what, "impl": out, "variant": kind, **kw})

    accepted = not isinstance(out, Err)
    validated = accepted and bool(out[0])
    info = walk(w)
    # a TSIG record that is not the last record (or not class ANY, or outside ADDITIONAL) is a format error
    rrs = info["rrs"]
    complete = info["error"] is None
    misplaced = [r for r in rrs if r["type"] == 250 and not (r["section"] == 3 and r["index"] == r["count"] - 1 and r["cls"] == 255)]
    if misplaced:
        if accepted or out.code not in FORMERROR_CODES:
            fail("a misplaced TSIG record was not reported as a format error", sig="tsig-not-last")
        return F
    # which key would the reader use
    key = None
    if isinstance(kr, list) and kr[0] == 1:
        key = kr[1]
    elif isinstance(kr, list) and kr[0] in (2, 3) and complete and rrs and rrs[-1]["type"] == 250:
        for ent in kr[1]:
            if name_eq(ent[0], rrs[-1]["owner"]):
                if isinstance(ent[1], (bytes, bytearray)):
                    try:
                        t = walk_tsig_rdata(w, rrs[-1]["rdata"], rrs[-1]["rdlen"])
                        key = [ent[0], ent[1], t["alg"]]
                    except Malformed:
                        key = None
                else:
                    key = ent[1]
                break
    if kr == 0:
        return F  # validation disabled by the caller
    if origin is not None and name_eq(origin, [b""]) and any(r["type"] == 41 for r in rrs):
        return F  # from_wire(origin=root) relativizes the OPT owner to the empty name and reports BadEDNS: not a TSIG matter
    if key is None:
        if validated:
            fail("a signed message was accepted without a key", sig="no-key")
        return F
    running = cx[1] if (cx is not None and multi) else None
    vkey = key if running is None else cx[0]
    v = rfc_verdict(w, key[0], vkey[1] if running is not None else key[1], vkey[2] if running is not None else key[2], rmac, now, running=running)
    if running is not None:
        # names are checked against the reader's key, the running digest belongs to the context's key
        v0 = rfc_verdict(w, key[0], key[1], key[2], rmac, now, running=running)
        if v0[0] == "reject" and v0[1] in ("key name", "algorithm"):
            v = v0
    if validated and v[0] != "accept":
        fail("from_wire validated a message that RFC 8945 rejects: " + str(v[:2]), sig="accept:" + str(v[1]))
    if v[0] == "accept" and not validated:
        fail("from_wire rejected a genuine signed message: " + (out.text if isinstance(out, Err) else "no TSIG seen"), sig="reject-genuine")
    return F


# ----------------------------------------------------------------------------- exhaustive single-bit tampering


def realistic_message(rng):
    """a query or response with ordinary record types, rendered by the library (no TSIG)"""
    qn = dns.name.from_text(rng.choice(["www.example.com.", "Mail.Example.ORG.", "a.b.c.d.example.", "example."]))
    q = dns.message.make_query(qn, rng.choice(["A", "AAAA", "MX", "SOA", "TXT", "AXFR"]), use_edns=rng.choice([False, 0]), id=rng.randrange(65536))
    if rng.random() < 0.4:
        return q.to_wire()
    r = dns.message.make_response(q)
    texts = ["www.example.com. 300 IN A 10.0.0.%d" % rng.randrange(256), "example.com. 3600 IN NS ns1.example.com.",
             "example.com. 3600 IN SOA ns1.example.com. root.example.com. %d 7200 3600 1209600 3600" % rng.randrange(2 ** 32),
             'example.com. 60 IN TXT "v=spf1 -all" "%d"' % rng.randrange(1000), "example.com. 300 IN MX 10 mail.example.com.",
             "ns1.example.com. 300 IN AAAA 2001:db8::%x" % rng.randrange(65536)]
    for sec in (r.answer, r.authority, r.additional):
        for _ in range(rng.choice([0, 1, 1, 2])):
            t = rng.choice(texts).split(None, 4)
            sec.append(dns.rrset.from_text(t[0], int(t[1]), t[2], t[3], t[4]))
    return r.to_wire()


def flip_sources(ctx):
    """signed messages to tamper with: (wire, key, rmac, now, running-ctx or None)"""
    rng = ctx.rng
    n = ctx.n(24, 300)
    for i in range(n):
        k = gen_key(rng, 0)
        r = rng.random()
        if r < 0.35:
            body = realistic_message(rng)
        elif r < 0.5:
            body = lib_wire(rng)
        else:
            body = build_wire(rng)
        if len(body) > 230:
            body = build_wire(rng)
        rmac = b"" if rng.random() < 0.5 else gen_mac(rng)
        time = rng.choice([1700000000, 2 ** 32 + 5, 12345])
        if rng.random() < 0.5:
            # signed by the library itself
            try:
                m = dns.message.from_wire(body)
                m.use_tsig(mk_key(k), fudge=300, original_id=rng.choice([None, rng.randrange(65536)]))
                m.request_mac = rmac
                with clock(time):
                    full = m.to_wire(want_shuffle=False)
            except Exception:  # noqa
                continue
        else:
            ow = None
            if rng.random() < 0.3 and walk(body)["counts"][0]:
                nm, _ = walk_name(body, 12)
                k = [nm, k[1], k[2]]
                ow = bytes([0xC0, 12])
            full = signed_wire(rng, wire=body, k=k, rmac=rmac, time=time, fudge=300, owner_wire=ow)[0]
        yield full, k, rmac, time


def extra(ctx):
    F = []
    nflips = nacc = nmsgs = 0
    accepted_regions = {}
    for full, k, rmac, now in flip_sources(ctx):
        key = mk_key(k)
        v0 = rfc_verdict(full, k[0], k[1], k[2], rmac, now)
        if v0[:2] == ("malformed", "edns"):
            continue   # hand-built body with a deliberately malformed OPT: not a genuine message
        try:
            with clock(now):
                m0 = dns.message.from_wire(full, keyring=key, request_mac=rmac)
            ok0 = m0.had_tsig
        except Exception as e:  # noqa
            ok0 = False
        if v0[0] != "accept" or not ok0:
            F.append({"kind": "flip:genuine-rejected", "what": "a genuine signed message does not validate (%s / %s)" % (v0[:2], ok0),
                      "case_kind": "read:genuine", "case": read_case(full, [1, k], [k], rmac, now), "sig": "genuine"})
            continue
        nmsgs += 1
        content0 = v0[2]
        info = walk(full)
        last = info["rrs"][-1]
        b = bytearray(full)
        for bit in range(len(full) * 8):
            b[bit >> 3] ^= 1 << (bit & 7)
            w = bytes(b)
            b[bit >> 3] ^= 1 << (bit & 7)
            nflips += 1
            try:
                with clock(now):
                    m = dns.message.from_wire(w, keyring=key, request_mac=rmac)
                validated = bool(m.had_tsig)
            except Exception:  # noqa
                validated = False
            if not validated:
                continue
            nacc += 1
            v = rfc_verdict(w, k[0], k[1], k[2], rmac, now)
            pos = bit >> 3
            region = "id" if pos < 2 else "tsig-owner" if last["start"] <= pos < last["rdata"] - 10 else "tsig-rdata" if pos >= last["rdata"] else "other"
            accepted_regions[region] = accepted_regions.get(region, 0) + 1
            if v[0] != "accept" or v[2] != content0:
                F.append({"kind": "flip:accepted", "what": "a signed message altered in one bit (octet %d, region %s) was accepted as validated; RFC 8945 verdict %s"
                          % (pos, region, v[:2]), "case_kind": "read:flip", "case": read_case(w, [1, k], [k], rmac, now), "sig": "flip-accepted", "bit": bit})
                break
    # multi-message: every bit of an envelope sent without TSIG is covered by the next MAC
    rng = ctx.rng
    nstream = 0
    for _ in range(ctx.n(6, 60)):
        envs, k, rmac, base, fudge = gen_stream(rng, n=rng.choice([3, 4]))
        envs = [envs[0]] + [(build_wire(rng), False) + e[2:] for e in envs[1:-1]] + [envs[-1]]
        ws, _ents = ref_sign_stream(envs, k, rmac)
        key = mk_key(k)
        for j in range(1, len(ws) - 1):
            b = bytearray(ws[j])
            for bit in range(len(b) * 8):
                b[bit >> 3] ^= 1 << (bit & 7)
                ws2 = ws[:j] + [bytes(b)] + ws[j + 1:]
                b[bit >> 3] ^= 1 << (bit & 7)
                nflips += 1
                nstream += 1
                c = None
                okall = True
                try:
                    for w in ws2:
                        with clock(base):
                            m = dns.message.from_wire(w, keyring=key, request_mac=rmac, tsig_ctx=c, multi=True)
                        c = m.tsig_ctx
                    okall = bool(m.had_tsig)
                except Exception:  # noqa
                    okall = False
                if okall:
                    F.append({"kind": "flip:stream-accepted", "what": "an unsigned intermediate envelope altered in one bit (envelope %d, bit %d) and the exchange still validated" % (j, bit),
                              "case_kind": "stream-tamper", "case": [7, ws2, [1, k], rmac, base, table(*stream_read_table(ws2, k, rmac)), None], "sig": "stream-flip"})
                    break
    ctx.notes["exhaustive"] = True
    ctx.notes["extra_evaluations"] = nflips
    ctx.notes["extra_nontrivial"] = nmsgs
    ctx.notes["bitflip"] = {"signed_messages": nmsgs, "single_bit_alterations": nflips, "of_which_in_unsigned_envelopes": nstream,
                            "still_validated": nacc, "still_validated_by_region": accepted_regions,
                            "unauthenticated_region": "message ID octets 0-1 (RFC 8945 4.3.2 digests the original ID) and the case bit of letters in the TSIG owner / algorithm name (4.3.3: canonical form)"}
    return F
