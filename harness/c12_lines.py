"""C12 - line-level preemption (sys.settrace) inside writer()/reader()/commit/rollback/_setup_version.

Validates the atomicity assumption of the model: with a context switch possible before every source
line of the admission code (also inside critical sections, where the other threads can only run
their unlocked code: event.wait() checks, the unlocked reads of _setup_version, transaction bodies),
the property oracle must still hold.  Schedules: every schedule with at most k preemptions
(context-bounded, exhaustive) for 2 writers + 1 reader, plus random preemption.
"""
import c12_sched as cs


def serial_reference(progs, admission):
    hist = [(1, {})]
    for x in admission:
        _, repl, edits, commit = progs[x]
        cont = {} if repl else dict(hist[-1][1])
        changed = False
        for e in edits:
            if e[0] == 0:
                cont[e[1]] = e[2]
                changed = True
            elif e[1] in cont:
                del cont[e[1]]
                changed = True
        if commit == 1 and changed:
            hist.append((hist[-1][0] + 1, cont))
    return hist


class LineRun:
    def __init__(self, progs, kind):
        self.progs = progs
        self.kind = kind
        self.r = cs.Run(progs, kind, line_mode=True)
        self.trace = []
        self.fail = None
        self.in_body = set()

    def check_state(self, i):
        r = self.r
        ws = r.sched.workers
        # user-visible mutual exclusion: writer() has returned, commit()/rollback() has not
        body = [w.tid for w in ws if getattr(w, "phase", None) == "body"]
        if len(body) > 1:
            return {"what": "two write transactions open at the same time", "threads": body}
        if r.admission != r.arrival[: len(r.admission)]:
            return {"what": "writers admitted out of arrival order", "arrival": list(r.arrival), "admission": list(r.admission)}
        z = r.z
        for txn in list(z._readers):
            if not any(txn.version is v for v in z._versions):
                return {"what": "version pinned by an open reader was pruned", "vid": txn.version.id,
                        "retained": [v.id for v in z._versions]}
        waited = {w.last_event for w in ws if getattr(w, "phase", None) == "waiting" and w.last_event is not None}
        if z._write_event is not None and z._write_event not in waited:
            return {"what": "lost wake-up: _write_event is an event no writer waits on"}
        if any(e not in waited for e in list(z._write_waiters)):
            return {"what": "stale event in _write_waiters: no writer waits on it (its wake-up will be lost)"}
        for w in ws:
            if getattr(w, "phase", None) == "waiting" and not w.done and w.gate[:1] == ("line",) and len(w.gate) > 2 \
                    and w.gate[2] == "Event.wait":
                e = w.last_event
                if e is not None and not e.flag and e is not z._write_event and e not in z._write_waiters:
                    return {"what": "a waiting writer's event is neither queued nor the wake-up token: it can "
                                    "never be woken", "thread": w.tid}
        if not r.all_done() and not r.enabled_tids():
            return {"what": "deadlock: unfinished threads and no step enabled",
                    "gates": [repr(w.gate[2:]) for w in ws if not w.done]}
        for w in ws:
            if w.error is not None:
                return {"what": "a thread raised " + repr(w.error), "thread": w.tid}
        return None

    def final_check(self):
        r = self.r
        progs = self.progs
        writers = [t for t, p in enumerate(progs) if p[0] == 0]
        if sorted(r.admission) != writers:
            return {"what": "a writer finished without being admitted", "admission": list(r.admission)}
        hist = serial_reference(progs, r.admission)
        z = r.z
        import pC11
        got = pC11.version_content(z._versions[-1])
        want = sorted([k, v] for k, v in hist[-1][1].items())
        if got != want or z._versions[-1].id != hist[-1][0]:
            return {"what": "final zone differs from the serial application in admission order", "got": got,
                    "want": want, "admission": list(r.admission)}
        states = {vid: sorted([k, v] for k, v in c.items()) for vid, c in hist}
        for w in r.sched.workers:
            if w.prog[0] == 1 and isinstance(w.result, list):
                if states.get(w.result[0]) != w.result[1] or getattr(w, "result2", w.result) != w.result:
                    return {"what": "reader observed a state that is not a committed serial state",
                            "thread": w.tid, "seen": w.result}
        if z._write_txn is not None or len(z._write_waiters) or len(z._readers):
            return {"what": "zone not idle after every thread finished"}
        return None


def run_line_schedule(progs, kind, chooser, max_steps=4000):
    """chooser(i, enabled tids, last tid) -> tid.  Returns (schedule, failure or None)."""
    lr = LineRun(progs, kind)
    r = lr.r
    sched = []
    last = None
    fail = None
    try:
        i = 0
        fail = lr.check_state(-1)
        while fail is None and not r.all_done() and i < max_steps:
            en = r.enabled_tids()
            t = chooser(i, en, last)
            sched.append(t)
            r.step(t)
            last = t
            fail = lr.check_state(i)
            i += 1
        if fail is None and r.all_done():
            fail = lr.final_check()
        elif fail is None:
            fail = {"what": "run did not finish within the step budget"}
    finally:
        r.close()
    if fail is not None:
        fail["step"] = len(sched) - 1
    return sched, fail


def bounded_preemption_schedules(progs, kind, k, cap, rng):
    """all schedules with at most k preemptions: a schedule is determined by the positions at which the
    running thread is preempted (it is still enabled but another thread is chosen) and by the thread
    chosen whenever a choice is forced or a preemption happens.  DFS by replay."""
    results = []
    # a decision list: [(step index, tid)] overriding the default "keep running the last thread,
    # else the lowest enabled tid"
    stack = [[]]
    seen = 0
    while stack and seen < cap:
        decisions = stack.pop(rng.randrange(len(stack)))   # capped: visit the tree in random order
        dmap = dict(decisions)
        log = []

        def chooser(i, en, last, dmap=dmap, log=log):
            default = last if last in en else en[0]
            t = dmap.get(i, default)
            if t not in en:
                t = default
            log.append((i, list(en), last, t))
            return t

        sched, fail = run_line_schedule(progs, kind, chooser)
        seen += 1
        results.append((sched, fail))
        if fail is not None:
            break
        # children: one more decision at a step after the last decision
        start = decisions[-1][0] + 1 if decisions else 0
        npre = sum(1 for (i, t) in decisions if _is_preemption(log, i, t))
        for (i, en, last, t) in log:
            if i < start:
                continue
            for alt in en:
                if alt == t:
                    continue
                preempt = last in en  # choosing someone else while `last` could continue
                if preempt and npre >= k:
                    continue
                stack.append(decisions + [(i, alt)])
    return results, seen


def _is_preemption(log, i, t):
    for (j, en, last, chosen) in log:
        if j == i:
            return last in en and t != last
    return False


# ---------------------------------------------------------------------------------------------------
# the lock-free window of a just-admitted writer (writer() after the admission loop, _setup_version,
# _get_next_version_id, WritableVersion.__init__): at EVERY source line of it, let another thread shrink
# the version deque - a reader that pinned an old version ends (prune), or the policy is tightened.

def window_run(kind, variant, p):
    """variant 0: a reader pins an old version across a commit and ends at line p of the next writer;
    variant 1: versions are kept by set_max_versions(None) and set_max_versions(1) runs at line p.
    Returns (failure or None, number of line steps the observed writer took)"""
    WA = [0, 0, [[0, 2, 1]], 1]
    WB = [0, 0, [[0, 3, 2]], 1]
    WC = [0, 0, [[0, 4, 3]], 1]
    if variant == 0:
        progs = [[1, None], WA, WB, WC]
        first, pruner = 0, 0
    else:
        progs = [[2, None], WA, WB, WC, [2, 1]]
        first, pruner = 0, 4
    lr = LineRun(progs, kind)
    r = lr.r
    ws = r.sched.workers
    sched = []
    fail = None
    n_obs = 0

    def run_until(tid, cond, budget=5000):
        nonlocal fail
        while fail is None and not cond() and budget:
            budget -= 1
            run = tid
            if not r.sched.enabled(ws[tid]):
                # blocked on the lock: let its holder leave the critical section first
                owner = r.sched.lock.owner
                others = [w.tid for w in ws if not w.done and r.sched.enabled(w)]
                if owner is not None and owner in others:
                    run = owner
                elif others:
                    run = others[0]
                else:
                    fail = {"what": "deadlock: unfinished threads and no step enabled", "blocked": tid,
                            "gates": [repr(w.gate[2:]) for w in ws if not w.done]}
                    return
            sched.append(run)
            r.step(run)
            fail = lr.check_state(len(sched) - 1)

    try:
        if variant == 0:
            run_until(0, lambda: ws[0].done or ws[0].gate[0] == "read")     # reader holds the current version
        else:
            run_until(0, lambda: ws[0].done)                                 # keep every version
        run_until(1, lambda: ws[1].done)                                     # a commit: the deque grows
        # the observed writer: p line steps (it is admitted within the first few of them)
        k = 0
        while fail is None and k < p and not ws[2].done:
            run_until(2, lambda k0=len(sched): len(sched) > k0)
            k += 1
        n_obs = k
        run_until(pruner, lambda: ws[pruner].done)                           # the deque shrinks here
        run_until(2, lambda: ws[2].done)
        run_until(3, lambda: ws[3].done)                                     # the zone must not be wedged
        if fail is None:
            for w in ws:
                if not w.done:
                    run_until(w.tid, lambda w=w: w.done)
        if fail is None and r.all_done():
            fail = lr.final_check()
    finally:
        r.close()
    if fail is not None:
        fail["step"] = len(sched) - 1
    return fail, n_obs, progs, sched


def window_check(ctx):
    F = []
    runs = 0
    for kind in (0, 1):
        for variant in (0, 1):
            _, total, _, _ = window_run(kind, variant, 10 ** 6)
            for p in range(total + 1):
                fail, _, progs, sched = window_run(kind, variant, p)
                runs += 1
                if fail is not None:
                    F.append({
                        "kind": "C12:lines:" + fail["what"], "sig": "window:" + fail["what"],
                        "what": fail["what"] + " (the version deque was pruned at line %d of a just-admitted writer)" % p,
                        "how": ["a reader that pinned an old version ended there", "set_max_versions(1) ran there"][variant],
                        "detail": {k: v for k, v in fail.items() if k != "what"},
                        "case": [3, kind, progs, sched],
                    })
                    break
    ctx.notes["extra_evaluations"] = ctx.notes.get("extra_evaluations", 0) + runs
    ctx.notes["extra_nontrivial"] = ctx.notes.get("extra_nontrivial", 0) + runs
    ctx.notes["lockfree_window_runs"] = runs
    seen, out = set(), []
    for f in F:
        if f["sig"] not in seen:
            seen.add(f["sig"])
            out.append(f)
    return out


# ---------------------------------------------------------------------------------------------------
# publication of a commit: at EVERY source line of a committing writer (in particular of _commit_version /
# _commit_version_unlocked, and the lines after the lock is released) let the NEXT writer run as far as it
# can - a writer that is already waiting (it is woken by the committer's end-of-write), or a newcomer calling
# writer() right there.  The next writer then commits; the final zone must be the serial application of all
# committed transactions in admission order (a writer that copied a not-yet-published zone loses the
# committer's update).  Deterministic: does not depend on the random stream.

def publish_run(kind, variant, p):
    """variant 0: the second writer is already waiting when the first one starts to move;
    variant 1: the second writer calls writer() at line p of the first.
    Returns (failure or None, line steps of the first writer, progs, schedule)"""
    WA = [0, 0, [[0, 2, 1], [0, 0, 7]], 1]
    WB = [0, 0, [[0, 3, 2]], 1]
    WC = [0, 0, [[0, 4, 3], [1, 2]], 1]
    progs = [WA, WB, WC]
    lr = LineRun(progs, kind)
    r = lr.r
    ws = r.sched.workers
    sched = []
    fail = None

    def step(tid):
        nonlocal fail
        sched.append(tid)
        r.step(tid)
        fail = lr.check_state(len(sched) - 1)

    def run_free(tid, budget=5000):
        """as far as the thread can go on its own"""
        while fail is None and budget and not ws[tid].done and r.sched.enabled(ws[tid]):
            budget -= 1
            step(tid)

    def run_done(tid, budget=5000):
        while fail is None and budget and not ws[tid].done:
            budget -= 1
            if r.sched.enabled(ws[tid]):
                step(tid)
                continue
            owner = r.sched.lock.owner
            others = [w.tid for w in ws if not w.done and r.sched.enabled(w)]
            if not others:
                return {"what": "deadlock: unfinished threads and no step enabled", "blocked": tid}
            step(owner if owner in others else others[0])
        return None

    k = 0
    try:
        if variant == 0:
            # first writer admitted (its writer() has returned), second one queued behind it
            while fail is None and getattr(ws[0], "phase", None) != "body" and not ws[0].done:
                step(0)
            run_free(1)
        while fail is None and k < p and not ws[0].done and r.sched.enabled(ws[0]):
            step(0)
            k += 1
        run_free(1)                      # the next writer moves here, as far as it can
        for tid in (0, 1, 2):
            if fail is None:
                fail = run_done(tid) or fail
        if fail is None and r.all_done():
            fail = lr.final_check()
    finally:
        r.close()
    if fail is not None:
        fail["step"] = len(sched) - 1
    return fail, k, progs, sched


def publish_check(ctx):
    F = []
    runs = 0
    for kind in (0, 1):
        for variant in (0, 1):
            _, total, _, _ = publish_run(kind, variant, 10 ** 6)
            for p in range(total + 1):
                fail, _, progs, sched = publish_run(kind, variant, p)
                runs += 1
                if fail is not None:
                    F.append({
                        "kind": "C12:lines:" + fail["what"], "sig": "publish:" + fail["what"],
                        "what": fail["what"] + " (the next writer ran at source line %d of a committing writer)" % p,
                        "how": ["the next writer was already waiting", "the next writer called writer() there"][variant],
                        "detail": {k: v for k, v in fail.items() if k != "what"},
                        "case": [3, kind, progs, sched],
                    })
                    break
    ctx.notes["extra_evaluations"] = ctx.notes.get("extra_evaluations", 0) + runs
    ctx.notes["extra_nontrivial"] = ctx.notes.get("extra_nontrivial", 0) + runs
    ctx.notes["commit_publication_runs"] = runs
    seen, out = set(), []
    for f in F:
        if f["sig"] not in seen:
            seen.add(f["sig"])
            out.append(f)
    return out


W1 = [0, 0, [[0, 2, 1]], 1]
W2 = [0, 0, [[0, 3, 2], [1, 2]], 1]
WR = [0, 0, [[0, 2, 7]], 3]
R = [1, None]
P = [2, 1]


def check(ctx):
    F = []
    evals = 0
    lines = 0
    F += window_check(ctx)
    F += publish_check(ctx)

    def report(progs, kind, sched, fail, how):
        F.append({
            "kind": "C12:lines:" + fail["what"], "what": fail["what"] + " (line-level preemption)", "sig": "lines:" + fail["what"],
            "how": how, "detail": {k: v for k, v in fail.items() if k != "what"},
            "case": [3, kind, progs, sched],
        })

    configs = [([W1, W2, R], 0), ([W1, WR, R], 1)]
    if not ctx.quick:
        configs += [([W1, W2, WR], 0), ([W2, W1, P, R], 1)]
    k = 1 if ctx.quick else 2
    cap = ctx.n(250, 800)
    scopes = []
    for progs, kind in configs:
        res, seen = bounded_preemption_schedules(progs, kind, k, cap, ctx.rng)
        evals += seen
        scopes.append(f"{seen} schedules{' (capped, random order)' if seen >= cap else ' (all)'} with <= {k} preemptions of {progs}")
        for sched, fail in res:
            lines = max(lines, len(sched))
            if fail is not None:
                report(progs, kind, sched, fail, "bounded preemption")
                break
    rng = ctx.rng
    import pC12
    for i in range(ctx.n(150, 800)):
        progs = pC12.gen_progs(rng, rng.choice([2, 3, 3, 4, 5]))
        stick = rng.choice([0.0, 0.5, 0.8, 0.95])

        def chooser(j, en, last, stick=stick):
            if last in en and rng.random() < stick:
                return last
            return rng.choice(en)

        sched, fail = run_line_schedule(progs, i % 2, chooser)
        evals += 1
        lines = max(lines, len(sched))
        if fail is not None:
            report(progs, i % 2, sched, fail, "random preemption")
            if len(F) >= 3:
                break
    ctx.notes["extra_evaluations"] = ctx.notes.get("extra_evaluations", 0) + evals
    ctx.notes["extra_nontrivial"] = ctx.notes.get("extra_nontrivial", 0) + evals
    ctx.notes["line_level_schedules"] = evals
    ctx.notes["line_level_scope"] = "; ".join(scopes) + "; plus random preemption; longest schedule %d line steps" % lines
    return F


def replay(case):
    _, kind, progs, sched = case
    it = iter(sched)

    def chooser(i, en, last):
        try:
            t = next(it)
        except StopIteration:
            return last if last in en else en[0]
        return t if t in en else en[0]

    _, fail = run_line_schedule(progs, kind, chooser)
    return fail
