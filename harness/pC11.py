"""C11 - versioned readers see one immutable snapshot; version retention is sound.

case = [zone kind (0 = dns.versioned.Zone, 1 = dns.btreezone.Zone), [op, ...]]
op   = [0] reader() | [1,i] reader(id=i) | [2,s] reader(serial=s) | [3,h] end reader h
     | [4,repl] writer(repl) | [5,k,v] replace key k | [6,k] delete key k | [7] commit | [8] rollback
     | [9,n|None] set_max_versions | [10,code,arg?] set_pruning_policy
output = one [result, view] per op; view = [retained ids, [[h, vid, content]...], write txn open,
         content of zone.nodes (current), ] (see coq/Model/VersM.v `view`).
"""
import itertools

import dns.btreezone
import dns.exception
import dns.name
import dns.node
import dns.rdata
import dns.rdataclass
import dns.rdataset
import dns.rdatatype
import dns.transaction
import dns.versioned
import dns.zone

from lib import Err
import c11_immut

ID = "C11"
COQ_IMPORTS = "From DV Require Import Model.VersM."
COQ_RUN = "VersM.run"
TRUSTED = [
    "model: coq/Model/VersM.v (Zone.reader/_end_read/_commit_version_unlocked/_prune_versions_unlocked/"
    "set_max_versions/set_pruning_policy/_get_next_version_id, commit-creates-version rule of "
    "Transaction._end_transaction); zone content abstracted to a key->value map",
    "object-level immutability (every public callable of version/node/rdataset/map/B-tree objects reachable "
    "from a snapshot) is a finite enumeration on the implementation (harness/c11_immut.py), not a Coq theorem",
]
ASSUMPTIONS = [
    "pruning policies are deterministic functions of (retained versions, candidate version)",
    "single-threaded histories (interleavings of threads are C12)",
]
CASE_TIMEOUT = 20.0

ZONES = (dns.versioned.Zone, dns.btreezone.Zone)
# zone kinds of a case: 0/1 relativized versioned / B-tree zone, 2/3 the same with relativize=False
# (absolute owner names inside the zone; reader(serial=) then looks the SOA up at zone.origin)
ORIGIN = dns.name.from_text("example.")
IN = dns.rdataclass.IN
A, SOA, TXT = dns.rdatatype.A, dns.rdatatype.SOA, dns.rdatatype.TXT


NS = dns.rdatatype.NS
# key -> (owner name, rdtype).  Keys 0/1 share the origin, 6/8 share x.sub; 5 and 8 are NS rdatasets, so on
# a dns.btreezone.Zone adding / deleting them creates and removes delegation points above committed
# descendants (x.sub, y.x.sub): the glue-flag copy-on-write paths.
KEYMAP = {
    0: ("@", SOA), 1: ("@", TXT), 2: ("n2", A), 3: ("n3", A), 4: ("n4", A),
    5: ("sub", NS), 6: ("x.sub", A), 7: ("y.x.sub", A), 8: ("x.sub", NS),
}
NAME_LEVEL_DELETE = (2, 3, 4)   # these names carry one rdataset: delete the whole name (delete_node path)
REV = {(dns.name.from_text(n, None) if n != "@" else dns.name.empty, t): k for k, (n, t) in KEYMAP.items()}


def key_name(k):
    n = KEYMAP[k][0]
    return dns.name.empty if n == "@" else dns.name.from_text(n, None)


def key_rdataset(k, v):
    t = KEYMAP[k][1]
    if t == SOA:
        return dns.rdataset.from_text("IN", "SOA", 300, "ns hostmaster %d 7200 900 1209600 300" % v)
    if t == TXT:
        return dns.rdataset.from_text("IN", "TXT", 300, '"%d"' % v)
    if t == NS:
        return dns.rdataset.from_text("IN", "NS", 300, "ns%d" % v)
    return dns.rdataset.from_text("IN", "A", 300, "10.0.%d.%d" % ((v >> 8) & 255, v & 255))


def delete_key(txn, k):
    if k in NAME_LEVEL_DELETE:
        txn.delete(key_name(k))
    else:
        txn.delete(key_name(k), KEYMAP[k][1])


def content_of(pairs):
    """(name, rdataset) pairs -> sorted [[key, value]]"""
    out = []
    for name, rds in pairs:
        rd = list(rds)
        if name.is_absolute():
            name = name.relativize(ORIGIN)
        k = REV.get((name, rds.rdtype))
        if len(rd) != 1 or k is None:
            out.append([-1, len(rd)])
            continue
        rd = rd[0]
        if rds.rdtype == SOA:
            out.append([k, rd.serial])
        elif rds.rdtype == TXT:
            out.append([k, int(rd.strings[0])])
        elif rds.rdtype == NS:
            out.append([k, int(rd.target.labels[0][2:])])
        else:
            a = [int(x) for x in rd.address.split(".")]
            out.append([k, a[2] * 256 + a[3]])
    return sorted(out)


def txn_content(txn):
    return content_of(txn.iterate_rdatasets())


def version_content(v):
    return content_of((name, rds) for name, node in v.nodes.items() for rds in node)


def make_policy(code, arg):
    if code == 0:
        return None
    if code == 1:
        return lambda zone, version: None  # falsy, as documented `bool | None`
    if code == 2:
        return lambda zone, version: version.id < arg
    if code == 3:
        return lambda zone, version: version.id % 2 == 0
    if code == 4:
        return lambda zone, version: any(k == arg for k, _ in version_content(version))
    if code == 5:
        return lambda zone, version: len(zone._versions) > arg and any(k == 0 for k, _ in version_content(version))
    raise ValueError("bad policy code")


def mutable_objects(z):
    """every object of every retained version that is not of an immutable class (must be none)"""
    import dns._immutable_ctx
    import dns.btree
    imm = dns._immutable_ctx._Immutable
    bad = []
    for v in z._versions:
        if imm not in type(v).__mro__:
            bad.append(f"version {v.id}: {type(v).__name__}")
        m = v.nodes
        if isinstance(m, dns.btree.BTree):
            if not m._immutable:
                bad.append(f"version {v.id}: mutable BTreeDict")
        elif imm not in type(m).__mro__:
            bad.append(f"version {v.id}: node map {type(m).__name__}")
        d = getattr(v, "delegations", None)
        if d is not None and not d._immutable:
            bad.append(f"version {v.id}: mutable delegations index")
        for name, node in m.items():
            if imm not in type(node).__mro__ or not node.is_immutable() or not isinstance(node.rdatasets, tuple):
                bad.append(f"version {v.id} node {name}: {type(node).__module__}.{type(node).__name__}")
            for rds in node.rdatasets:
                if not isinstance(rds, dns.rdataset.ImmutableRdataset):
                    bad.append(f"version {v.id} node {name} rdataset {dns.rdatatype.to_text(rds.rdtype)}: {type(rds).__name__}")
    if z.nodes is not z._versions[-1].nodes:
        bad.append("zone.nodes is not the newest version's node map")
    return bad


class LeaveByException(Exception):
    pass


class Run:
    def __init__(self, kind):
        self.z = ZONES[kind % 2]("example.", relativize=kind < 2)
        self.handles = []
        self.w = None

    def view(self):
        z = self.z
        rs = []
        for txn in z._readers:
            h = next((i for i, t in enumerate(self.handles) if t is txn), -1)
            rs.append([h, txn.version.id, txn_content(txn)])
        rs.sort()
        return [
            [v.id for v in z._versions],
            rs,
            int(z._write_txn is not None),
            content_of(z.iterate_rdatasets()),
            len(mutable_objects(z)),
        ]

    def step(self, op):
        z = self.z
        c = op[0]
        if c == 11:
            try:
                z.reader(id=op[1], serial=op[2]).rollback()
            except ValueError:
                return Err(2, "ValueError")
            return Err(199, "reader(id=, serial=) accepted")
        if c in (0, 1, 2):
            try:
                if c == 0:
                    t = z.reader()
                elif c == 1:
                    t = z.reader(id=op[1])
                else:
                    t = z.reader(serial=op[1])
            except KeyError:
                return Err(1, "KeyError")
            self.handles.append(t)
            return [len(self.handles) - 1, t.version.id, txn_content(t)]
        if c in (3, 12):
            h = op[1]
            if not (0 <= h < len(self.handles)):
                return Err(999, "no such handle")
            txn = self.handles[h]
            how = op[2] if c == 12 else h % 2
            try:
                if how == 0:
                    txn.rollback()
                elif how == 1:
                    txn.commit()
                elif txn._ended:
                    txn.rollback()       # `with` on an ended transaction does nothing: use the explicit call
                elif how == 2:
                    with txn:
                        pass
                else:
                    exc = [None, None, None, LeaveByException, SystemExit, KeyboardInterrupt, GeneratorExit][how]
                    try:
                        with txn:
                            raise exc()
                    except exc:
                        pass
            except dns.transaction.AlreadyEnded:
                return Err(3, "AlreadyEnded")
            except KeyError:
                return Err(103, "KeyError in set.remove")
            # however it was left, the transaction is over: using it must raise
            try:
                txn.get(key_name(2), "A")
                return Err(196, "an ended read transaction is still usable")
            except dns.transaction.AlreadyEnded:
                pass
            return None
        if c == 4:
            if z._write_txn is not None:
                return Err(4, "would block")
            self.w = z.writer(bool(op[1]))
            return None
        if c in (5, 6, 7, 8):
            if self.w is None:
                return Err(5, "no write txn")
            if c == 5:
                self.w.replace(key_name(op[1]), key_rdataset(op[1], op[2]))
            elif c == 6:
                delete_key(self.w, op[1])
            else:
                w, self.w = self.w, None
                if c == 7:
                    w.commit()
                else:
                    w.rollback()
            return None
        if c == 9:
            try:
                z.set_max_versions(op[1])
            except ValueError:
                return Err(2, "ValueError")
            return None
        if c == 10:
            z.set_pruning_policy(make_policy(op[1], op[2] if len(op) > 2 else None))
            return None
        return Err(999, "bad op")


def exc_code(e):
    if isinstance(e, IndexError):
        return Err(101, "IndexError")
    if isinstance(e, AssertionError):
        return Err(102, "AssertionError")
    return Err(199, type(e).__name__ + ": " + str(e)[:80])


def in_model(kind, case):
    return case[0] not in (102, 103, 104, 105, 106)


def impl(case):
    if case[0] == 104:  # replay of one reader()-preemption schedule
        import c11_atomic
        f = c11_atomic.replay(case)
        return [0, []] if f is None else [1, [f["what"]]]
    if case[0] == 106:  # replay of one zone of the rdata-class family
        import c11_classes
        f = c11_classes.replay(case)
        return [0, []] if f is None else [1, [f["what"] + " (rdclass %s, %s)" % (f.get("rdclass"), f.get("zone"))]]
    if case[0] == 105:  # replay of one commit-window schedule
        import c11_atomic
        f = c11_atomic.replay_commit_window(case)
        return [0, []] if f is None else [1, [f["what"]]]
    if case[0] == 103:  # replay of one B-tree snapshot-isolation run
        f = c11_immut.replay_isolation(case)
        return [0, []] if f is None else [1, [f["what"] + " version %s after commit %s" % (f["version"], f["after_commit"])]]
    if case[0] == 102:  # replay of one reported immutability failure
        fs = c11_immut.replay(case)
        return [len(fs), [f["what"] + " " + " ".join(f.get("args", [])) for f in fs[:5]]]
    kind, ops = case
    try:
        r = Run(kind)
    except Exception as e:  # noqa
        return Err(198, "constructing the zone raised " + type(e).__name__ + ": " + str(e)[:80])
    out = []
    for op in ops:
        try:
            res = r.step(op)
        except Exception as e:  # noqa
            res = exc_code(e)
        try:
            out.append([res, r.view()])
        except Exception as e:  # noqa
            return Err(197, "observing the zone raised " + type(e).__name__ + ": " + str(e)[:80])
    return out


# ---------------------------------------------------------------------------- generators

KEYS = [0, 0, 1, 2, 2, 3, 4, 5, 5, 6, 6, 7, 8]


def gen_write(rng, serial):
    ops = [[4, 1 if rng.random() < 0.12 else 0]]
    only_deletes = rng.random() < 0.15
    for _ in range(rng.choice([0, 1, 1, 1, 2, 3])):
        k = rng.choice(KEYS)
        if only_deletes or rng.random() < 0.25:
            ops.append([6, k])
        else:
            ops.append([5, k, serial[0] if k == 0 else rng.randrange(0, 6)])
            if k == 0:
                serial[0] += rng.choice([1, 1, 1, 0, 3])
    return ops


def gen_policy(rng, ncommit):
    r = rng.random()
    if r < 0.35:
        return [9, rng.choice([None, 1, 1, 2, 3, 4, 0, -1])]
    code = rng.choice([0, 1, 2, 2, 3, 4, 5])
    if code == 2:
        return [10, 2, rng.randint(0, ncommit + 3)]
    if code == 4:
        return [10, 4, rng.choice(KEYS)]
    if code == 5:
        return [10, 5, rng.randint(0, 3)]
    return [10, code]


def gen_history(rng, length):
    ops = []
    serial = [1]
    opened = 0
    ncommit = 1
    pending = []  # ops of the open write txn still to be emitted
    in_write = False
    while len(ops) < length:
        r = rng.random()
        if pending and r < 0.55:
            ops.append(pending.pop(0))
            continue
        if in_write and not pending and r < 0.6:
            ops.append([7] if rng.random() < 0.8 else [8])
            in_write = False
            ncommit += 1
            continue
        r = rng.random()
        if r < 0.22 and not in_write:
            w = gen_write(rng, serial)
            ops.append(w[0])
            pending = w[1:]
            in_write = True
        elif r < 0.40:
            ops.append([0])
            opened += 1
        elif r < 0.50:
            ops.append([1, rng.randint(max(1, ncommit - 4), ncommit + 1)])
            opened += 1
        elif r < 0.58:
            ops.append([2, rng.randint(0, serial[0] + 1)])
            opened += 1
        elif r < 0.80:
            if opened:
                if rng.random() < 0.5:
                    ops.append([3, rng.randint(0, opened)])
                else:
                    ops.append([12, rng.randint(0, opened), rng.randrange(7)])
        elif r < 0.93:
            ops.append(gen_policy(rng, ncommit))
        elif r < 0.96:
            ops.append(rng.choice([[7], [8], [5, 2, 1], [6, 2], [4, 0], [11, 1, 1]]))  # possibly misplaced
        else:
            ops.append([3, rng.randint(0, opened + 2)])
    return ops


# alphabet of the exhaustive small scope (macro letters expand to op lists)
def W(v, k=2):
    return [[4, 0], [5, k, v], [7]]


ALPHABET = [
    [[0]],                      # reader on latest
    [[1, 1]], [[1, 2]],         # reader by id
    [[3, 0]], [[3, 1]],         # end reader 0 / 1
    W(1), W(2, 0),              # commit a change / a new serial
    [[4, 0], [7]],              # empty commit = rollback
    [[9, 2]], [[9, None]], [[10, 0]],
    [[2, 2]],                   # reader by serial
    [[4, 0], [6, 2], [7]],      # a transaction that only deletes a name (commits iff the name existed)
    [[12, 0, 3]],               # reader 0 leaves its `with` block through an exception
]


# second alphabet: delegation points added / removed above committed descendants (glue-flag copy-on-write
# in dns.btreezone), interleaved with readers
ALPHABET2 = [
    [[0]], [[3, 0]], [[1, 2]],
    [[4, 0], [5, 6, 1], [5, 7, 1], [7]],   # descendants x.sub, y.x.sub
    [[4, 0], [5, 5, 1], [7]],              # NS at sub: delegation above them
    [[4, 0], [6, 5], [7]],                 # delete that NS
    [[4, 0], [5, 8, 2], [7]],              # nested NS at x.sub
    [[4, 0], [6, 8], [5, 2, 3], [7]],
    [[9, None]],
    [[4, 0], [6, 7], [7]],                 # delete-only transaction below a (possible) delegation
]


def cases(ctx):
    rng = ctx.rng
    for word in itertools.product(range(len(ALPHABET2)), repeat=ctx.n(3, 4)):
        ops = [o for i in word for o in ALPHABET2[i]]
        yield "exhaustive-delegations", [1 if word[-1] % 2 else 3, ops]
        if word[0] % 3 == 0:
            yield "exhaustive-delegations", [0, ops]
    # 1. exhaustive: every word of length L over the alphabet (prefixes are covered by the per-step outputs)
    L = ctx.n(3, 4)
    n = 0
    for word in itertools.product(range(len(ALPHABET)), repeat=L):
        if L == 4 and (word[0] + word[3]) % 2:
            continue   # thorough: half of the length-4 words (all length-3 words are prefixes of the kept ones)
        ops = [o for i in word for o in ALPHABET[i]]
        yield "exhaustive", [n % 4, ops]
        n += 1
    ctx.notes["exhaustive"] = True
    ctx.notes["exhaustive_scope"] = (
        f"all histories of 3 macro-operations over a {len(ALPHABET)}-letter alphabet and over a {len(ALPHABET2)}-letter "
        f"delegation alphabet (quick); thorough: all of length 4 over the second and half of length 4 over the first"
    )
    # 2. random interleaved histories
    for i in range(ctx.n(700, 6000)):
        length = rng.choice([6, 10, 16, 24, 40])
        yield "history", [i % 4, gen_history(rng, length)]
    # 3. long retention scenarios: many commits under a max-versions policy with pinned readers
    for i in range(ctx.n(60, 1000)):
        ops = [[9, rng.choice([1, 2, 3, 5])]]
        opened = 0
        for j in range(rng.randint(5, 14)):
            ops += W(j % 6, rng.choice([0, 2, 3]))
            if rng.random() < 0.5:
                ops.append(rng.choice([[0], [1, rng.randint(1, j + 3)]]))
                opened += 1
            if opened and rng.random() < 0.4:
                ops.append(rng.choice([[3, rng.randrange(opened)], [12, rng.randrange(opened), rng.randrange(2, 7)]]))
        yield "retention", [i % 4, ops]


# ---------------------------------------------------------------------------- oracle


def policy_fn(op):
    """the policy requested by an op, as a function of (retained ids at the time, id, content) -> bool,
    written from the documentation of set_max_versions/set_pruning_policy"""
    if op[0] == 9:
        n = op[1]
        if n is None:
            return lambda ids, i, c: False
        return lambda ids, i, c: len(ids) > n
    code = op[1]
    arg = op[2] if len(op) > 2 else None
    return {
        0: lambda ids, i, c: True,
        1: lambda ids, i, c: False,
        2: lambda ids, i, c: i < arg,
        3: lambda ids, i, c: i % 2 == 0,
        4: lambda ids, i, c: any(k == arg for k, _ in c),
        5: lambda ids, i, c: len(ids) > arg and any(k == 0 for k, _ in c),
    }[code]


def oracle(ctx, kind, case, out):
    F = []

    def fail(what, step, **kw):
        F.append({"kind": "C11:" + what, "what": what, "step": step, "sig": what, **kw})

    if isinstance(out, Err):
        fail("history runner failed: " + out.text, -1)
        return F
    if case[0] in (102, 103, 104, 105, 106):
        if out[0]:
            fail(("immutability: " if case[0] == 102 else "snapshot isolation: " if case[0] == 103 else
                  "commit atomicity: " if case[0] == 105 else "rdata classes: " if case[0] == 106 else "reader() atomicity: ") + "; ".join(x.decode("latin-1") if isinstance(x, bytes) else str(x) for x in out[1]), -1)
        return F
    zk, ops = case
    history = [1]              # every id ever committed, in order
    content = {1: []}          # id -> content at commit time
    policy = lambda ids, i, c: True
    opened = {}                # handle -> (vid, content at open)
    open_handles = set()
    prev_ids = [1]
    nh = 0
    for n, (op, o) in enumerate(zip(ops, out)):
        if not isinstance(o, list) or len(o) != 2:
            fail("malformed step output", n)
            return F
        res, view = o
        if isinstance(res, Err) and res.code >= 100 and res.code != 999:
            fail("internal exception escaped: " + res.text, n)
            return F
        ids, readers, wopen, cur, nmut = view
        if nmut:
            fail("a committed version contains a mutable object", n, count=nmut)
        c = op[0]
        ok = not isinstance(res, Err)
        # -- ids strictly increase; retained = contiguous run of history containing the newest
        if ids != sorted(set(ids)) or not ids:
            fail("retained ids not strictly increasing / empty", n, ids=ids)
            return F
        new = [i for i in ids if i not in content]
        if len(new) > 1 or (new and new[0] != ids[-1]):
            fail("more than one new version in one step", n, ids=ids)
            return F
        if new:
            if new[0] <= history[-1]:
                fail("version id does not exceed all earlier ids", n, ids=ids, history=history)
            if not (c == 7 and ok):
                fail("a version appeared without a commit", n)
            history.append(new[0])
            content[new[0]] = cur
        if ids[-1] != history[-1]:
            fail("newest version not retained", n, ids=ids, history=history)
            return F
        if ids != history[len(history) - len(ids):]:
            fail("retained versions are not a contiguous run of history", n, ids=ids, history=history)
            return F
        if cur != content[ids[-1]]:
            fail("zone content differs from newest version content", n)
        # -- what was opened
        if c in (0, 1, 2) and ok:
            h, vid, cont = res
            if h != nh:
                fail("handle numbering", n)
                return F
            nh += 1
            want = None
            if c == 0:
                want = prev_ids[-1]
            elif c == 1:
                want = op[1]
            else:
                want = next((i for i in reversed(prev_ids) if dict(map(tuple, content[i])).get(0) == op[1]), None)
            if vid != want:
                fail("reader opened on the wrong version", n, got=vid, want=want)
            if vid in content and cont != content[vid]:
                fail("reader content differs from the version's content at commit", n, got=cont, want=content.get(vid))
            opened[h] = (vid, cont)
            open_handles.add(h)
        if c == 1 and not ok and res.code == 1 and op[1] in prev_ids:
            fail("reader(id=) refused a retained version", n, id=op[1], ids=prev_ids)
        if c == 1 and ok and op[1] not in prev_ids:
            fail("reader(id=) opened a version that is not retained", n)
        if c == 2 and not ok and res.code == 1:
            if any(dict(map(tuple, content[i])).get(0) == op[1] for i in prev_ids):
                fail("reader(serial=) refused a retained serial", n, serial=op[1])
        if c in (3, 12) and ok:
            open_handles.discard(op[1])
        if c in (9, 10) and ok:
            policy = policy_fn(op)
        # -- pinned versions retained, snapshot stable
        seen = set()
        for h, vid, cont in readers:
            seen.add(h)
            if h not in opened:
                fail("unknown reader registered", n)
                continue
            if vid not in ids:
                fail("version pinned by an open reader was pruned", n, reader=h, vid=vid, ids=ids)
            if (vid, cont) != opened[h]:
                fail("snapshot changed under an open reader", n, reader=h, at_open=opened[h], now=[vid, cont])
        if seen != open_handles:
            fail("registered readers differ from open readers", n, registered=sorted(seen), open=sorted(open_handles))
        # -- whatever was dropped in this step was allowed to go
        before = prev_ids + new
        dropped = [i for i in before if i not in ids]
        pins = [vid for _, vid, _ in readers]
        least = min(pins) if pins else ids[-1]
        cur_ids = list(before)
        for i in dropped:
            if i >= least:
                fail("pruned a version at or above the oldest pinned version", n, dropped=i, least=least)
            if not policy(cur_ids, i, content[i]):
                fail("pruned a version the policy wanted to keep", n, dropped=i, ids=cur_ids)
            cur_ids.remove(i)
        if dropped and c not in (3, 7, 9, 10, 12):
            fail("versions pruned by an operation that does not prune", n)
        # -- and nothing prunable is left (maximality)
        head = ids[0]
        if head < least and policy(ids, head, content[head]):
            fail("oldest retained version is neither pinned, newest, nor kept by the policy", n, ids=ids, least=least)
        prev_ids = ids
    return F


def generated_obligations(ctx):
    import c11_atomic
    return c11_atomic.generated_obligations(ctx)


def extra(ctx):
    import traceback
    import c11_atomic
    F = []
    import c11_classes
    for name, fn in (("immutability enumeration", c11_immut.check), ("reader() atomicity test", c11_atomic.check),
                     ("rdata-class family", c11_classes.check)):
        try:
            F += fn(ctx)
        except Exception:  # noqa  (e.g. a zone cannot even be constructed any more)
            F.append({"kind": "C11:" + name + " crashed", "what": name + " could not run: " + traceback.format_exc()[-600:],
                      "sig": name + " crashed", "case": [0, [[0], [4, 0], [5, 2, 1], [7], [0]]]})
    return F


def widen(ctx, disagreements):
    """broken proof / correspondence without an oracle failure: longer random histories through the oracle"""
    F = []
    rng = ctx.rng
    for i in range(4000):
        case = [i % 4, gen_history(rng, rng.choice([20, 40, 80]))]
        f = oracle(ctx, "widen", case, impl(case))
        if f:
            f[0]["case"] = case
            F.append(f[0])
            if len(F) >= 3:
                break
    return F
