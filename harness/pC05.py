"""C05 - every record type's master-file text parses back to an equal record.

Two families of cases:
  * ops 1..31  : tokenizer / escape / chunking / generic-form functions, run through the
                 implementation and through the Coq model TokM.run (correspondence);
  * ops 100,101: whole records of every implemented type (value given as wire, or as text),
                 property evaluated on the implementation only (oracle), see c05lib.py.
"""
import base64
import binascii
import re

import dns.exception
import dns.ipv4
import dns.ipv6
import dns.name
import dns.rdata
import dns.rdataclass
import dns.rdatatype
import dns.rdtypes.util
import dns.tokenizer
import dns.ttl

import c05lib
import namelib as nl
from lib import Err

ID = "C05"
COQ_IMPORTS = "From DV Require Import Model.TokM Model.RdTextM."
COQ_RUN = "RdTextM.run"
CASE_TIMEOUT = 30.0
TRUSTED = [
    "model: coq/Model/TokM.v (Tokenizer.get and helper methods, Token.unescape/unescape_to_bytes, dns.ttl.from_text, "
    "rdata._escapify/_wordbreak/_hexify/_base64ify/_truncate_bitmap, GenericRdata text form, TXT-like text form), "
    "coq/Model/RdTextM.v (schema-driven to_text/from_text of the regular record types)",
    "binascii.hexlify/unhexlify/a2b_base64/b2a_base64 and int()/str.isdecimal() are C code outside /repo: modelled in "
    "Gallina for ASCII input and compared with CPython on every run (ops 8, 22, 23); time.gmtime/strftime and "
    "calendar.timegm (RRSIG times) likewise for 32-bit times (ops 60, 61)",
    "record-level oracle (harness/c05lib.py): dns.rdata.from_wire/from_text/to_text/to_wire/to_generic of /repo on "
    "specimen, mutated and random values of every implemented type",
]
RULE = (
    "tokenizer/escape cases: generated from the zone-file grammar (delimiters, quotes, escapes, parentheses, comments, "
    "non-ASCII code points) plus all 256 octets; record cases: every implemented rdata type x (specimens from "
    "tests/example* and hand-written ones, byte mutations accepted by from_wire, random wire, token mutations of the text) "
    "x lossless styles x origin/relativize choices; distinct = distinct canonical case; non-trivial = the implementation "
    "returned a value or an error class not yet seen for that case kind"
)

# ------------------------------------------------------------------ exception mapping


def exc_code(e):
    for cls, code in nl.EXC:
        if type(e) is cls:
            return Err(code, type(e).__name__)
    if isinstance(e, dns.exception.UnexpectedEnd):
        return Err(21, "UnexpectedEnd")
    if isinstance(e, dns.ttl.BadTTL):
        return Err(23, "BadTTL")
    if isinstance(e, dns.tokenizer.UngetBufferFull):
        return Err(22, "UngetBufferFull")
    if isinstance(e, dns.exception.SyntaxError):
        return Err(20, "SyntaxError")
    if type(e) is dns.exception.FormError:
        return Err(24, "FormError")
    if isinstance(e, UnicodeEncodeError):
        return Err(103, "UnicodeEncodeError")
    if isinstance(e, binascii.Error):
        return Err(104, "binascii.Error")
    if isinstance(e, dns.exception.DNSException):
        return Err(800, type(e).__name__)
    return Err(900, type(e).__name__ + ":" + str(e)[:80])


def enc(s):
    """text -> bytes when every code point < 256, else list of code points (mirrors obs_of_text)"""
    if isinstance(s, (bytes, bytearray)):
        return bytes(s)
    if all(ord(c) < 256 for c in s):
        return s.encode("latin-1")
    return [ord(c) for c in s]


def enc_cp(s):
    return enc(s)


def dec(t):
    if isinstance(t, (bytes, bytearray)):
        return t.decode("latin-1")
    return "".join(chr(c) for c in t)


def tok_obs(t):
    return [t.ttype, enc(t.value), int(bool(t.has_escape)), None if t.comment is None else enc(t.comment)]


# ------------------------------------------------------------------ generators (text level)

SPECIAL = ' \t\n;()"\\'
NONASCII = ["é", "È", "ÿ", "Ā", "߿", "ࠀ", "​", "￿", "\U00010000", "\U0001f600", "\ud800", "\udfff"]


def gen_atom(rng):
    r = rng.random()
    if r < 0.30:
        return rng.choice(["a", "abc", "www", "example", "1", "12", "255", "256", "65535", "65536", "007", "+5", "-1", "1_0",
                           "4294967295", "4294967296", "281474976710655", "281474976710656", "1w2d", "3h", "10S", "1x",
                           "\\#", "0x1f", "0o17", "17", "8", "deadBEEF", "YWJj", "YQ==", "-", "."])
    if r < 0.45:
        return "\\" + rng.choice(["000", "032", "034", "092", "127", "128", "200", "255", "256", "999", "12", "1", "1a2", "a", '"', "\\", ";", "(", " ", "\n", "é"])
    if r < 0.60:
        return rng.choice(SPECIAL)
    if r < 0.65:
        return rng.choice(NONASCII)
    if r < 0.80:
        return '"' + "".join(rng.choice(['a', ' ', ';', '(', ')', '\\"', '\\\\', '\\065', '\t', 'x y', 'é', '\\200']) for _ in range(rng.randint(0, 4))) + '"'
    return "".join(chr(rng.choice([rng.randrange(33, 127), rng.randrange(0, 256)])) for _ in range(rng.randint(1, 5)))


def gen_text(rng):
    n = rng.choice([0, 1, 2, 3, 5, 8, 12])
    parts = []
    for _ in range(n):
        parts.append(gen_atom(rng))
        if rng.random() < 0.7:
            parts.append(rng.choice([" ", " ", "\t", "  ", "\n", " ( ", " ) ", " ; c\n", ""]))
    return "".join(parts)


def gen_bytes(rng, maxlen=40):
    r = rng.random()
    n = 0 if r < 0.05 else rng.randint(1, 6) if r < 0.6 else rng.randint(0, maxlen)
    r = rng.random()
    if r < 0.3:
        return bytes(rng.choice([0, 9, 10, 31, 32, 34, 59, 92, 126, 127, 128, 200, 255, 65, 48]) for _ in range(n))
    if r < 0.5:
        return bytes(rng.randrange(32, 127) for _ in range(n))
    return bytes(rng.randrange(256) for _ in range(n))


SEPS = [b" ", b"  ", b"\t", b" \t ", b""]

# code points from every class that str.isprintable / the escaping rules could treat differently
UCHARS = ["\x00", "\x01", "\x09", "\x0a", "\x1f", " ", '"', "\\", ";", "a", "~", "\x7f", "\x80", "\x9f", "\xa0", "\xad",
          "\xe9", "\xff", "\u0100", "\u0378", "\u07ff", "\u0800", "\u200b", "\u200f", "\u2028", "\u2029", "\u3000",
          "\ud7ff", "\ue000", "\ufeff", "\uffff", "\U00010000", "\U0001f600", "\U000e0001", "\U0010ffff"]
BAD_UTF8 = [b"\xc0\x80", b"\xc1\xbf", b"\xe0\x80\x80", b"\xe0\x9f\xbf", b"\xed\xa0\x80", b"\xed\xbf\xbf", b"\xf0\x80\x80\x80",
            b"\xf0\x8f\xbf\xbf", b"\xf4\x90\x80\x80", b"\xf5\x80\x80\x80", b"\x80", b"\xbf", b"\xc2", b"\xe2\x82", b"\xf0\x9f\x98",
            b"\xff", b"\xfe", b"\xc2\x41", b"\xe2\x28\xa1"]


def gen_utext(rng, maxlen=8):
    return "".join(rng.choice(UCHARS) for _ in range(rng.randint(0, maxlen)))


def gen_ubytes(rng):
    """mostly valid UTF-8, sometimes with an ill-formed sequence spliced in"""
    b = gen_utext(rng).encode()
    if rng.random() < 0.35:
        i = rng.randint(0, len(b))
        b = b[:i] + rng.choice(BAD_UTF8) + b[i:]
    return b[:255]


def cases(ctx):
    rng = ctx.rng
    # --- exhaustive: every octet through _escapify and back (single, and in context)
    for o in range(256):
        yield "escapify", [1, bytes([o])]
        yield "txt-rt", [7, enc(dns.rdata._escapify(bytes([o, 0x41, o])).join(['"', '"']))]
    ctx.notes["exhaustive"] = True
    # --- exhaustive small scope: every text over the characters that drive the tokenizer state machine
    alpha = 'a0 "\\;()\n'
    import itertools
    nexh = 0
    for n in range(0, ctx.n(4, 5)):
        for tup in itertools.product(alpha, repeat=n):
            t = "".join(tup)
            nexh += 1
            yield "tokenize-exh", [2, enc(t), 0, 0]
            if n <= ctx.n(2, 3):
                yield "txt-exh", [7, enc(t)]
    ctx.notes["exhaustive_scopes"] = ("all 256 octets through _escapify and back; all texts of length <= %d over %r through "
                                      "Tokenizer.get (and, up to length 3, through TXT from_text)" % (ctx.n(3, 4), alpha))
    for _ in range(ctx.n(80, 2500)):
        b = gen_bytes(rng)
        yield "escapify", [1, b]
        t = dns.rdata._escapify(b)
        yield "unescape-bytes", [4, enc(t)]
        yield "unescape", [3, enc(t), 1]
    for _ in range(ctx.n(180, 8000)):
        t = gen_text(rng)
        yield "tokenize", [2, enc(t), int(rng.random() < 0.2), int(rng.random() < 0.2)]
        yield "txt-from-text", [7, enc(t)]
    for _ in range(ctx.n(120, 4000)):
        a = gen_atom(rng) + (gen_atom(rng) if rng.random() < 0.5 else "")
        yield "unescape", [3, enc(a), int(rng.random() < 0.9)]
        yield "unescape-bytes", [4, enc(a)]
        yield "int", [8, enc(a), rng.choice([10, 10, 8])]
        yield "ttl", [9, enc(a)]
    for _ in range(ctx.n(180, 6000)):
        t = gen_text(rng)
        ops = [rng.choice([0, 0, 1, 2, 3, 4, 5, 6, 7, 8, 8, 9, 10, 11, 12, 13, 14, 16, 17, 18, 19, 20, 21, 21, 22]) for _ in range(rng.randint(1, 6))]
        yield "script", [5, enc(t), ops]
    # character-strings at the length boundary whose escaped text is longer than 255 characters: the limit of
    # get_string_as_bytes(max_length) / the constructors counts octets, not characters of the text
    for b in c05lib.boundary_strings(rng, full=not ctx.quick):
        q = '"' + c05lib.independent_escape(b) + '"'
        yield "script", [5, enc(q), [22]]
        yield "script", [5, enc(q + " " + q), [21, 22]]
        yield "script", [5, enc(c05lib.independent_escape(b).replace(" ", "\\032")), [22]]
        yield "escapify", [1, b]
        yield "unescape-bytes", [4, enc(c05lib.independent_escape(b))]
        yield "txt-to-text", [6, [b, b[:1]]]
        yield "txt-from-text", [7, enc(q)]
        for rdtype, text in ((13, q + ' "x"'), (13, '"" ' + q), (19, q), (35, "1 2 " + q + ' "" "" .'), (35, '1 2 "" "" ' + q + " x."),
                             (257, "0 issue " + q), (256, "1 2 " + q)):
            yield "rd-from-text", [41, rdtype, enc(text), [None, 1, None]]
            if len(b) == 255:
                # one octet too many: rejected by the limit, not by the length of the text
                yield "rd-from-text", [41, rdtype, enc(text.replace(q, q[:-1] + 'a"')), [None, 1, None]]
    for _ in range(ctx.n(80, 2000)):
        ss = [gen_bytes(rng, 300 if rng.random() < 0.1 else 30) for _ in range(rng.randint(1, 4))]
        ss = [s[:255] for s in ss]
        yield "txt-to-text", [6, ss]
        yield "txt-from-text", [7, enc(c05lib.txt_text(ss))]
    for _ in range(ctx.n(50, 1200)):
        # TXT in RFC 3597 generic syntax: valid wire, truncated / over-long strings, empty rdata
        ss = [gen_bytes(rng, 12) for _ in range(rng.randint(0, 3))]
        w = b"".join(bytes([len(x)]) + x for x in ss)
        if rng.random() < 0.4:
            w = mutate_ascii(rng, w) if w else b"\x05ab"
        t = c05lib.generic_text(w, rng.choice([0, 2, 128]), rng.choice(SEPS))
        yield "txt-generic", [7, enc(t if rng.random() < 0.8 else mutate_text(rng, t))]
    # --- RdataStyle.txt_is_utf8: _escapify_unicode, bytes.decode, TXT to_text with both settings
    for ch in UCHARS:
        yield "escapify-unicode", [11, enc(ch + "x" + ch)]
        yield "utf8-decode", [12, ch.encode()]
        yield "txt-style", [13, [ch.encode(), (ch + ch).encode()], 1]
    for b in BAD_UTF8:
        yield "utf8-decode", [12, b]
        yield "utf8-decode", [12, b"a" + b + b"z"]
        yield "txt-style", [13, [b, b"ok"], 1]
    for _ in range(ctx.n(40, 2000)):
        yield "escapify-unicode", [11, enc(gen_utext(rng))]
        yield "utf8-decode", [12, gen_ubytes(rng)]
        ss = [gen_ubytes(rng) if rng.random() < 0.7 else gen_bytes(rng, 20) for _ in range(rng.randint(1, 3))]
        yield "txt-style", [13, ss, rng.randrange(2)]
    for v in [0, 1, 7, 8, 9, 10, 99, 100, 255, 256, 65535, 65536, 2**31, 2**32 - 1, 2**32, 2**48 - 1, 2**48, 10**20]:
        yield "print", [10, 10, v]
        yield "print", [10, 8, v]
    for _ in range(ctx.n(50, 1000)):
        yield "print", [10, rng.choice([8, 10]), rng.randrange(2 ** rng.choice([4, 8, 16, 32, 48, 64]))]
    for _ in range(ctx.n(60, 2500)):
        d = gen_bytes(rng, 70)
        chunk = rng.choice([0, 1, 2, 3, 4, 5, 7, 8, 32, 64, 128])
        sep = rng.choice(SEPS)
        yield "hexify", [20, d, chunk, sep]
        yield "base64ify", [21, d, chunk, sep]
        yield "generic-to-text", [30, d, chunk, sep]
        yield "generic-from-text", [31, enc(c05lib.generic_text(d, chunk, sep))]
        h = binascii.hexlify(d)
        b = base64.b64encode(d)
        yield "unhexlify", [22, h]
        yield "unhexlify", [22, mutate_ascii(rng, h)]
        yield "b64decode", [23, b]
        yield "b64decode", [23, mutate_ascii(rng, b)]
        yield "truncate-bitmap", [24, rng.choice([d, d + b"\0\0", b"\0" * rng.randint(0, 3), d[:3] + b"\0"])]
    for _ in range(ctx.n(60, 2500)):
        d = gen_bytes(rng, 20)
        t = c05lib.generic_text(d, rng.choice([0, 2, 4, 128]), rng.choice(SEPS))
        yield "generic-from-text", [31, enc(mutate_text(rng, t))]
    # --- address text codecs (dns/ipv4.py, dns/ipv6.py)
    yield from addr_cases(ctx)
    # --- NSEC/NSEC3/CSYNC type bitmaps (dns/rdtypes/util.py Bitmap)
    yield from bitmap_cases(ctx)
    yield from rdtype_cases(ctx)
    yield from b32_cases(ctx)
    yield from sigtime_cases(ctx)
    yield from svcb_cases(ctx)
    # --- the regular record types through the schema model
    yield from schema_cases(ctx)
    # --- whole records (oracle only)
    yield from c05lib.record_cases(ctx)


# ------------------------------------------------------------------ schema types (ops 40 / 41)
# field kinds: d8 d16 d32 ttl q (character-string) n (name) hex b64 txt ; attribute names in constructor order
# keys: the type code for class IN; A in class CH (the only class-specific implementation outside IN) has the
# key rdclass * 65536 + rdtype, as in RdTextM.schema_of
CH_A = 3 * 65536 + 1


def class_type(key):
    c, t = divmod(key, 65536)
    return (c or int(dns.rdataclass.IN)), t


SCHEMA = {
    1: ("a4", ["address"]), 28: ("a6", ["address"]), 105: ("d16 a4", ["preference", "locator32"]),
    51: ("d8 d8 d16 hextok", ["algorithm", "flags", "iterations", "salt"]),
    48: ("d16 d8 alg b64", ["flags", "protocol", "algorithm", "key"]), 60: ("d16 d8 alg b64", ["flags", "protocol", "algorithm", "key"]),
    257: ("d8 tag q", ["flags", "tag", "value"]),
    47: ("n bm", ["next", "windows"]), 62: ("d32 d16 bm", ["serial", "flags", "windows"]),
    66: ("etype escheme d16 n", ["rrtype", "scheme", "port", "target"]),
    37: ("ectype d16 ealg b64", ["certificate_type", "key_tag", "algorithm", "certificate"]),
    22: ("nsap", ["address"]), 67: ("b64", ["value"]), 68: ("b64", ["value"]),
    50: ("d8 d8 d16 hextok b32 bm", ["algorithm", "flags", "iterations", "salt", "next", "windows"]),
    2: ("n", ["target"]), 5: ("n", ["target"]), 12: ("n", ["target"]), 39: ("n", ["target"]), 23: ("n", ["target"]),
    15: ("d16 n", ["preference", "exchange"]), 18: ("d16 n", ["preference", "exchange"]),
    21: ("d16 n", ["preference", "exchange"]), 36: ("d16 n", ["preference", "exchange"]),
    107: ("d16 n", ["preference", "fqdn"]),
    6: ("n n d32 ttl ttl ttl ttl", ["mname", "rname", "serial", "refresh", "retry", "expire", "minimum"]),
    17: ("n n", ["mbox", "txt"]), 26: ("d16 n n", ["preference", "map822", "mapx400"]),
    33: ("d16 d16 d16 n", ["priority", "weight", "port", "target"]),
    13: ("q q", ["cpu", "os"]), 19: ("q", ["address"]),
    35: ("d16 d16 q q q n", ["order", "preference", "flags", "service", "regexp", "replacement"]),
    256: ("d16 d16 q1", ["priority", "weight", "target"]),
    52: ("d8 d8 d8 hex", ["usage", "selector", "mtype", "cert"]), 53: ("d8 d8 d8 hex", ["usage", "selector", "mtype", "cert"]),
    44: ("d8 d8 hex", ["algorithm", "fp_type", "fingerprint"]),
    49: ("b64", ["data"]), 61: ("b64", ["key"]),
    46: ("etype ealgnum i8 ttl sigtime sigtime i16 n b64",
         ["type_covered", "algorithm", "labels", "original_ttl", "expiration", "inception", "key_tag", "signer", "signature"]),
    24: ("etype ealgnum i8 ttl sigtime sigtime i16 n b64",
         ["type_covered", "algorithm", "labels", "original_ttl", "expiration", "inception", "key_tag", "signer", "signature"]),
    108: ("eui6", ["eui"]), 109: ("eui8", ["eui"]),
    CH_A: ("n o16", ["domain", "address"]),
    20: ("q qopt", ["address", "subaddress"]),
    27: ("gplat gplon gpalt", ["latitude", "longitude", "altitude"]),
    25: ("keyrec", [("flags", "protocol", "algorithm", "key")]),
    42: ("apl", ["items"]),
    29: ("locrec", [("latitude", "longitude", "altitude", "size", "horizontal_precision", "vertical_precision")]),
    11: ("a4s wproto wports", ["address", "protocol", "bitmap"]),
    250: ("nnr d48 d16 mac d16 ercode b64opt", ["algorithm", "time_signed", "fudge", "mac", "original_id", "error", "other"]),
    # composite kinds take several constructor arguments / attributes
    45: ("d8 gwi b64e", ["precedence", ("gateway_type", "algorithm", "gateway"), "key"]),
    260: ("d8 d1 gwa", ["precedence", "discovery_optional", ("relay_type", "relay")]),
    55: ("d8 hexstr b64tok names", ["algorithm", "hit", "key", "servers"]),      # text order; constructor: hit, algorithm, ...
    249: ("nnr d32 d32 d16 d16 b64tok b64opt", ["algorithm", "inception", "expiration", "mode", "error", "key", "other"]),
    104: ("d16 fmthex", ["preference", "nodeid"]), 106: ("d16 fmthex", ["preference", "locator64"]),
    43: ("d16 alg d8 hex", ["key_tag", "algorithm", "digest_type", "digest"]),
    59: ("d16 alg d8 hex", ["key_tag", "algorithm", "digest_type", "digest"]),
    32769: ("d16 alg d8 hex", ["key_tag", "algorithm", "digest_type", "digest"]),
    63: ("d32 d8 d8 hex", ["serial", "scheme", "hash_algorithm", "digest"]),
    16: ("txt", ["strings"]), 99: ("txt", ["strings"]), 258: ("txt", ["strings"]), 56: ("txt", ["strings"]),
    261: ("txt", ["strings"]), 262: ("txt", ["strings"]),
}
MAXV = {"wproto": 255, "d48": 2**48 - 1, "d1": 1, "o16": 65535, "d8": 255, "d16": 65535, "d32": 2**32 - 1, "ttl": 2**32 - 1, "i8": 255, "i16": 65535}
# signature times around day / month / leap-year / century boundaries and the ends of the 32-bit range
SIGTIMES = [0, 1, 59, 60, 3599, 3600, 86399, 86400, 68169599, 68169600, 951782399, 951782400, 951868799, 951868800,
            1709164800, 1709251199, 1709251200, 2**31 - 1, 2**31, 4107542399, 4107542400, 4294967295]


def gen_field(rng, kind):
    if kind in MAXV:
        m = MAXV[kind]
        return rng.choice([0, 1, 9, 10, 255, 256, m - 1, m, rng.randrange(m + 1), rng.randrange(m + 1)]) % (m + 1)
    if kind in ("q", "q1"):
        if rng.random() < 0.12:
            return rng.choice(c05lib.boundary_strings(rng))
        b = gen_bytes(rng, 300 if rng.random() < 0.05 else 20)[:255]
        return b if (b or kind == "q") else b"x"
    if kind == "n":
        while True:
            r = rng.random()
            if r < 0.5:
                ls = [l for l in nl.gen_labels(rng, absolute=False, budget=40) if l] + [b"example", b""]
            else:
                ls = nl.gen_labels(rng, budget=rng.choice([20, 60, 255]))
            if nl.fits(ls):
                return ls
    if kind in ("hex", "b64"):
        return gen_bytes(rng, 80) or b"\0"
    if kind == "bm":
        return [] if rng.random() < 0.08 else windows_of_types({t for t in c05lib.gen_types(rng) if t})
    if kind == "etype":
        return rng.choice([0, 1, 2, 23, 46, 47, 48, 59, 60, 62, 255, 256, 257, 262, 263, 32768, 32769, 65535, rng.randrange(65536)])
    if kind == "ectype":
        return rng.choice([0, 1, 2, 3, 4, 5, 6, 7, 8, 9, 252, 253, 254, 255, 65535, rng.randrange(65536)])
    if kind in ("gwi", "gwa"):
        g = rng.choice([0, 1, 2, 3, 3])
        a = rng.choice([0, 1, 2, 255, rng.randrange(256)]) if kind == "gwi" else 0
        gw = 0 if g == 0 else enc(dns.ipv4.inet_ntoa(gen_field(rng, "a4"))) if g == 1 else enc(dns.ipv6.inet_ntoa(gen_v6(rng))) if g == 2 else gen_field(rng, "n")
        return [g, a, gw]
    if kind == "b64e":
        return b"" if rng.random() < 0.3 else (gen_bytes(rng, 60) or b"\x01")
    if kind in ("gplat", "gplon", "gpalt"):
        lim = {"gplat": 90, "gplon": 180, "gpalt": 10**6}[kind]
        r = rng.random()
        if r < 0.25:
            t = rng.choice(["0", "-0", "+0", "0.", ".0", "-.5", "+5.", "00.00", str(lim), "-" + str(lim), str(lim) + ".0", str(lim) + ".",
                            "-" + str(lim) + ".000", "%d.%s" % (lim - 1, "9" * rng.choice([1, 5, 17, 30])), "0" * rng.choice([1, 5, 40]) + "1.5"])
        else:
            i = str(rng.randrange(lim))
            f = "".join(rng.choice("0123456789") for _ in range(rng.choice([0, 1, 2, 3, 8, 20])))
            t = rng.choice(["", "-", "+"]) + (i if rng.random() < 0.9 else "") + ("." + f if f or rng.random() < 0.3 else "")
            if t in ("", "-", "+", ".", "-.", "+."):
                t = "1"
        return t.encode()
    if kind == "a4s":
        return gen_field(rng, "a4")
    if kind == "wports":
        r = rng.random()
        if r < 0.15:
            return b""
        n = rng.choice([1, 1, 2, 3, 4, 11, 40]) if r < 0.9 else rng.choice([100, 200])
        b = bytearray(rng.choice([0, 0, 0, 1, 0x80, 0x41, 0xFF, rng.randrange(256)]) for _ in range(n))
        b[-1] = b[-1] or rng.choice([1, 0x80, 0x10])
        return bytes(b)
    if kind == "locrec":
        def coord(lim):
            d = rng.choice([0, 1, lim - 1, lim, rng.randrange(lim + 1)])
            return [d, rng.choice([0, 0, 59, rng.randrange(60)]), rng.choice([0, 0, 59, rng.randrange(60)]),
                    rng.choice([0, 0, 1, 10, 100, 999, rng.randrange(1000)]), rng.choice([1, -1])]

        def size():
            r = rng.random()
            if r < 0.6:
                return float(rng.randrange(10) * 10 ** rng.randrange(10))
            if r < 0.8:
                return float(rng.choice(["0.29", "1.15", "0.07", "1e-9", "123456.789", "9999999999.5", "0.999", "-0.4", "5e-324"])) * 100.0
            return rng.random() * 10 ** rng.randrange(-3, 10)
        alt = rng.choice([0, 1, -1, 99, 100, 115, -100000_00, 4284967295, -9999999, rng.randrange(-10**7, 4284967296), rng.randrange(-10**6, 10**6)])
        sz = [100.0, 1000000.0, 1000.0] if rng.random() < 0.4 else [size(), size(), size()]
        return [coord(90), coord(180), alt] + [dbl_obs(x) for x in sz]
    if kind == "apl":
        items = []
        for _ in range(rng.choice([0, 1, 1, 2, 3, 5])):
            fam = rng.choice([1, 1, 2, 2, 0, 3, 255, 65535])
            if fam == 1:
                a, p = gen_field(rng, "a4"), rng.choice([0, 8, 24, 32])
            elif fam == 2:
                a, p = gen_v6(rng), rng.choice([0, 32, 64, 128])
            else:
                a = binascii.hexlify(gen_bytes(rng, 12))
                a, p = (a.upper() if rng.random() < 0.3 else a), rng.choice([0, 8, 255])
            items.append([fam, rng.randrange(2), a, p])
        return items
    if kind == "keyrec":
        f = rng.choice([0, 256, 257, 512, 0x4000, 0x8000, 0xC000, 0xC000, 0xC123, 0xFFFF, rng.randrange(65536)])
        k = b"" if (f & 0xC000) == 0xC000 else (gen_bytes(rng, 50) or b"\x01")
        return [f, rng.choice([0, 1, 3, 4, 255, rng.randrange(256)]), rng.choice([0, 1, 5, 8, 13, 255, rng.randrange(256)]), k]
    if kind == "mac":
        return gen_bytes(rng, 40) or b"\x00"
    if kind == "ercode":
        return rng.choice([0, 1, 5, 11, 12, 15, 16, 17, 18, 22, 23, 24, 4095, rng.randrange(4096)])
    if kind == "qopt":
        return b"" if rng.random() < 0.4 else gen_field(rng, "q1")
    if kind in ("hexstr", "b64tok"):
        return (gen_bytes(rng, 60) or b"\0")[:255]
    if kind == "b64opt":
        return b"" if rng.random() < 0.5 else (gen_bytes(rng, 40) or b"\xff")
    if kind == "nnr":
        return gen_field(rng, "n")
    if kind == "names":
        return [gen_field(rng, "n") for _ in range(rng.choice([0, 0, 1, 2, 3]))]
    if kind == "fmthex":
        t = ":".join("%04x" % rng.choice([0, 1, 0x14, 0xDB8, 0xABCD, 0xFFFF, rng.randrange(65536)]) for _ in range(4))
        return (t.upper() if rng.random() < 0.3 else t).encode()
    if kind in ("eui6", "eui8"):
        return bytes(rng.choice([0, 1, 9, 10, 15, 16, 0xAB, 0xF0, 255, rng.randrange(256)]) for _ in range(int(kind[3])))
    if kind == "sigtime":
        return rng.choice(SIGTIMES) if rng.random() < 0.4 else rng.randrange(2**32)
    if kind in ("escheme", "ealg", "ealgnum"):
        return rng.choice([0, 1, 2, 5, 8, 13, 16, 17, 252, 253, 254, 255, rng.randrange(256)])
    if kind == "nsap":
        return gen_bytes(rng, 24)
    if kind == "b32":
        return bytes(rng.randrange(256) for _ in range(rng.choice([1, 2, 3, 4, 5, 6, 19, 20, 20, 20, 21, 32])))
    if kind == "hextok":
        return gen_bytes(rng, 40)
    if kind == "alg":
        return rng.choice([0, 1, 5, 8, 13, 15, 16, 17, 252, 253, 254, 255, rng.randrange(256)])
    if kind == "tag":
        return bytes(rng.choice(b"issuewildodef0129AZaz") for _ in range(rng.randint(1, 12)))
    if kind == "a4":
        return bytes(rng.choice([0, 1, 9, 10, 99, 100, 199, 200, 255, rng.randrange(256)]) for _ in range(4))
    if kind == "a6":
        return gen_v6(rng)
    if kind == "txt":
        return [(gen_ubytes(rng) if rng.random() < 0.5 else gen_bytes(rng, 30))[:255] for _ in range(rng.randint(1, 4))]
    raise ValueError(kind)


DS_LEN = {1: 20, 2: 32, 3: 32, 4: 48}


def fixup(rng, rdtype, vals):
    """constraints between fields checked by the constructors (values outside them cannot be built)"""
    if rdtype in (43, 59, 32769):
        dt = rng.choice([1, 2, 3, 4, 4, 5, 6, 255, rng.randrange(1, 256)] + ([0, 0] if rdtype == 59 else []))
        n = 1 if dt == 0 else DS_LEN.get(dt, rng.choice([1, 2, 20, 33, 64]))
        vals[2] = dt
        vals[3] = bytes(rng.randrange(256) for _ in range(n))
    elif rdtype == 63:
        vals[1] = rng.choice([1, 1, 2, 240, 255, rng.randrange(1, 256)])
        vals[2] = rng.choice([1, 1, 2, 2, 3, 240, 255, rng.randrange(1, 256)])
        n = {1: 48, 2: 64}.get(vals[2], rng.choice([1, 12, 48, 64, 65]))
        vals[3] = bytes(rng.randrange(256) for _ in range(n))
    return vals


ORIGINS = [None, [b"example", b""], [b"EXAMPLE", b""], [b""], [b"sub", b"example", b""], [b"rel"], []]


def gen_style(rng):
    org = rng.choice(ORIGINS[:5]) if rng.random() < 0.6 else None
    return [org, rng.randrange(2), rng.choice([0, 1, 2, 5, 32, 128]), rng.choice(SEPS),
            rng.choice([0, 1, 3, 4, 32]), rng.choice(SEPS), rng.randrange(2)]


def gen_pctx(rng):
    org = rng.choice(ORIGINS) if rng.random() < 0.7 else None
    relto = rng.choice(ORIGINS) if rng.random() < 0.3 else None
    return [org, rng.randrange(2), relto]


def mkname(ls):
    return None if ls is None else dns.name.Name(ls)


def dbl_obs(x):
    """canonical (neg, m, e) of a finite double: x = (-1)^neg * m * 2^e, m >= 2^52 unless e = -1074"""
    import math
    neg = int(math.copysign(1.0, x) < 0)
    a = abs(x)
    if a == 0:
        return [neg, 0, -1074]
    m, e = math.frexp(a)
    M, E = int(m * 2**53), e - 53
    if E < -1074:
        M >>= (-1074 - E)
        E = -1074
    return [neg, M, E]


def dbl_of_obs(o):
    import math
    neg, m, e = o
    return (-1.0 if neg else 1.0) * math.ldexp(float(m), e)


PLAIN_FLOAT = re.compile(r"[+-]?(\d+(\.\d*)?|\.\d+)")


def loc_in_model(text):
    """float() also accepts exponents, inf/nan, underscores and blanks: those spellings are outside the model"""
    if any(ord(c) > 127 for c in text):
        return False
    try:
        tk = dns.tokenizer.Tokenizer(text)
        while True:
            t = tk.get().unescape()
            if t.is_eol_or_eof():
                break
            v = t.value[:-1] if t.value.endswith("m") else t.value
            try:
                float(v)
            except ValueError:
                continue
            if not PLAIN_FLOAT.fullmatch(v):
                return False
    except Exception:  # noqa
        pass
    return True


def gw_enc(g):
    return 0 if g is None else enc(g) if isinstance(g, str) else nl.labels_of(g)


def build_rdata(rdtype, vals):
    kinds = SCHEMA[rdtype][0].split()
    args = [mkname(v) if k in ("n", "nnr") else [mkname(x) for x in v] if k == "names" else [(w, bytes(b)) for w, b in v] if k == "bm"
            else bytes(v).decode("latin-1") if k == "fmthex" else v
            for k, v in zip(kinds, vals)]
    flat = []
    for k, a in zip(kinds, args):
        if k in ("gwi", "gwa"):
            g, alg, gw = a
            gwo = None if gw == 0 else mkname(gw) if g == 3 else dec(gw)
            flat += [g, alg, gwo] if k == "gwi" else [g, gwo]
        elif k == "keyrec":
            flat += list(a)
        elif k == "locrec":
            flat += [tuple(a[0]), tuple(a[1]), float(a[2])] + [dbl_of_obs(o) for o in a[3:]]
        elif k == "apl":
            import dns.rdtypes.IN.APL as _apl  # noqa
            flat.append([_apl.APLItem(f, bool(n), ad if f not in (1, 2) else (dns.ipv4.inet_ntoa(ad) if f == 1 else dns.ipv6.inet_ntoa(ad)), px)
                         for f, n, ad, px in a])
        elif k == "d1":
            flat.append(bool(a))
        else:
            flat.append(a)
    args = flat
    rdclass, rdt = class_type(rdtype)
    cls = dns.rdata.get_rdata_class(rdclass, rdt)
    if rdt == 55:
        # HIP: the constructor takes (hit, algorithm, key, servers); the text starts with the algorithm
        args = [args[1], args[0], args[2], args[3]]
    return cls(rdclass, rdt, *args)


def style_obj(sty):
    org, rel, hc, hs, bc, bs, u8 = sty
    return dns.rdata.RdataStyle(origin=mkname(org), relativize=bool(rel), hex_chunk_size=hc,
                                hex_chunk_separator=bytes(hs).decode(), base64_chunk_size=bc,
                                base64_chunk_separator=bytes(bs).decode(), txt_is_utf8=bool(u8))


# ------------------------------------------------------------------ every entry of every value <-> mnemonic table
ENUM_KINDS = ("etype", "ectype", "ealg", "ealgnum", "alg", "escheme", "ercode")


def enum_values(kind):
    """every value that has a mnemonic in the table of the kind, its neighbours and unknown numbers"""
    if kind == "etype":
        named = sorted({int(t) for t in dns.rdatatype.RdataType})
        return sorted(set(named) | {0, 3, 4, 110, 250, 260, 65279, 65280, 65534, 65535})
    if kind == "ectype":
        return list(range(0, 12)) + [251, 252, 253, 254, 255, 256, 65535]
    if kind in ("ealg", "ealgnum", "alg"):
        return list(range(0, 19)) + [251, 252, 253, 254, 255]
    if kind == "escheme":
        return [0, 1, 2, 3, 254, 255]
    if kind == "ercode":
        return list(range(0, 26)) + [4094, 4095]
    raise ValueError(kind)


def enum_names():
    """(rdtype, kind, text of a whole record with the mnemonic in place): text -> value -> text"""
    import dns.dnssectypes
    import dns.rcode
    import dns.rdtypes.ANY.CERT as _cert
    out = []
    for n in sorted(_cert._ctype_by_name):
        out.append((37, "%s 1 8 AQID" % n))
        out.append((37, "%s 1 8 AQID" % n.lower()))
    for a in dns.dnssectypes.Algorithm:
        out.append((37, "1 1 %s AQID" % a.name))
        out.append((37, "1 1 %s AQID" % a.name.lower()))
        out.append((48, "256 3 %s AQID" % a.name))
        out.append((43, "1 %s 2 %s" % (a.name, "ab" * 32)))
        out.append((46, "A %s 2 3600 20200101000000 20030101000000 2143 foo.example. AQID" % a.name))
    for t in dns.rdatatype.RdataType:
        out.append((46, "%s 8 2 3600 20200101000000 20030101000000 2143 foo.example. AQID" % t.name.replace("_", "-")))
        out.append((66, "%s NOTIFY 53 foo.example." % t.name.replace("_", "-")))
    for r in list(dns.rcode.Rcode.__members__) + ["BADSIG", "badkey", "23", "4095", "4096"]:
        out.append((250, "hmac-sha256. 1 300 3 AQID 4 %s 0" % r))
    for s_ in ("NOTIFY", "notify", "1", "2", "255", "256"):
        out.append((66, "CDS %s 53 foo.example." % s_))
    import dns.rdtypes.ANY.KEY as _key
    for f in _key.LegacyFlag.__members__:
        out.append((25, "%s 3 8 AQID" % f))
        out.append((25, "%s|ZONE 3 8 AQID" % f))
    for pr in _key.Protocol.__members__:
        out.append((25, "256 %s 8 AQID" % pr))
    return out


def enum_table_cases(ctx):
    """every table entry, value -> text -> value and text -> value -> text, through the model (ops 40 / 41 / 44 / 45)
    and through the record-level oracle; independent of the seed"""
    import random as _random
    rng = _random.Random(20240905)
    sty = [None, 0, 0, b" ", 0, b" ", 0]
    recorded = set()
    for rdtype in sorted(SCHEMA):
        kinds = SCHEMA[rdtype][0].split()
        for i, k in enumerate(kinds):
            if k not in ENUM_KINDS:
                continue
            base = None
            for v in enum_values(k):
                for _ in range(8):
                    vals = fixup(rng, rdtype, [gen_field(rng, kk) for kk in kinds]) if base is None else list(base)
                    vals[i] = v
                    try:
                        rd = build_rdata(rdtype, vals)
                        text = rd.to_text()
                        wire = rd.to_wire(origin=dns.name.root)
                    except Exception:  # noqa  (value outside the constructor's range: not a table entry of this type)
                        if base is not None:
                            break
                        continue
                    base = vals
                    yield "enum-to-text", [40, rdtype, vals, sty]
                    yield "enum-from-text", [41, rdtype, enc(text), [None, 1, None]]
                    if (k, v) not in recorded or k != "etype":
                        recorded.add((k, v))
                        yield "rd-enum-value", [100, class_type(rdtype)[0], class_type(rdtype)[1], wire, 0]
                    break
    for rdtype, text in enum_names():
        yield "enum-name-from-text", [41, rdtype, enc(text), [None, 1, None]]
        yield "rd-enum-name", [101, int(dns.rdataclass.IN), rdtype, text.encode(), 0, 0]
    # SVCB / HTTPS parameter keys: every registered key, its neighbours, unregistered ones
    one = {0: [[0, 1, [3]], [3, 3, 53]], 1: [[1, 2, [b"h2", b"h3"]]], 2: [[1, 2, [b"h2"]], [2, 0, 0]], 3: [[3, 3, 443]],
           4: [[4, 4, [b"\x01\x02\x03\x04"]]], 5: [[5, 5, b"\x01\x02\x03"]], 6: [[6, 6, [bytes(15) + b"\x01"]]], 7: [[7, 7, b"/dns-query"]],
           8: [[8, 0, 0]], 9: [[9, 7, b"x"]], 10: [[10, 2, [b"a", b"b"]]], 11: [[11, 7, b"y"]], 12: [[12, 0, 0]], 65534: [[65534, 7, b"z"]],
           65535: [[65535, 7, b"\x00"]]}
    for k in sorted(one):
        for rdtype in (64, 65):
            params = one[k]
            yield "svcb-key-to-text", [44, 1, [b"t", b""], params, sty]
            try:
                rd = build_svcb(rdtype, 1, [b"t", b""], params)
                yield "svcb-key-from-text", [45, rdtype, enc(rd.to_text()), [None, 1, None]]
                yield "rd-enum-value", [100, int(dns.rdataclass.IN), rdtype, rd.to_wire(), 0]
            except Exception:  # noqa
                pass
    import dns.rdtypes.svcbbase as _S
    for name in [m.name for m in _S.ParamKey] + ["key0", "key1", "key7", "key9", "key10", "key11", "KEY65535"]:
        for spelling in (name, name.lower(), name.lower().replace("_", "-")):
            for val in ("", "=x", '="1"'):
                yield "svcb-key-name", [45, 64, enc("1 . " + spelling + val), [None, 1, None]]


def schema_cases(ctx):
    rng = ctx.rng
    types = sorted(SCHEMA)
    yield from enum_table_cases(ctx)
    # directed: the constructors' cross-field checks (every digest type / hash algorithm, right and wrong length)
    for rdtype in (43, 59, 32769):
        for dt in (0, 1, 2, 3, 4, 5, 255, 256):
            for n in sorted({1, 2, DS_LEN.get(dt, 7), DS_LEN.get(dt, 7) + 1}):
                yield "rd-from-text", [41, rdtype, enc("60485 %s %d %s" % (rng.choice(["5", "8", "RSASHA1", "ED25519"]), dt, "ab" * n)), [None, 1, None]]
    # gateways: Gateway._check runs inside Gateway.from_text, before the key tokens are read
    for t in ('147 1 0 1"255.0.9 Oe6amw==', '10 1 2 1.2.3 "AQID', '10 0 2 x "AQID', '10 3 2 "x" AQID', '10 2 2 ::1 "AQID', '10 0 2 . "AQID',
              "10 1 2 1.2.3.4 AQID", "10 4 2 . AQID", "10 0 0 .", "10 0 0 . "):
        yield "rd-from-text", [41, 45, enc(t), [None, 1, None]]
    for t in ('10 1 1 1.2.3 "', "10 0 0 x (", "10 1 3 x.", "10 2 0 .", "10 0 128 .", '10 1 2 ::1 "'):
        yield "rd-from-text", [41, 260, enc(t), [None, 1, None]]
    # LOC: optional minutes / seconds / milliseconds, hemispheres, altitude and size spellings, float rounding
    for t in ('42 N 71 W 0m',
              '42 21 N 71 06 W -24m 30m',
              '42 21 54 N 71 06 18 W -24m 30m',
              '42 21 54.5 N 71 6 18.12 W 10.5m 1m 10000m 10m',
              '42 21 54.12 N 71 6 18.1 W 0', '42 21 54.1 N 71 6 18.123 W 0',
              '42 21 54.123 N 71 6 18.1 W 10.5 1 10000 10',
              '42 21 54. N 71 W 0',
              '42 21 54.1234 N 71 W 0',
              '42 21 .5 N 71 W 0',
              '42 21 5.5.5 N 71 W 0',
              '42 21 54 71 W 0',
              '42 21 54 X 71 W 0',
              '91 N 0 E 0',
              '90 59 59.999 N 180 59 59.999 E 0',
              '90 60 N 0 E 0',
              '42 N 71 W',
              '42 N 71 W m',
              '42 N 71 W .5m',
              '42 N 71 W -.5m',
              '42 N 71 W +1.m',
              '42 N 71 W 42849672.95m',
              '42 N 71 W 42849672.96m',
              '42 N 71 W -100000.00m',
              '42 N 71 W -100000.01m',
              '42 N 71 W 0 0.29m 1.15m 0.07m',
              '42 N 71 W 0 0m 0m 0m',
              '42 N 71 W 0 90000000m 90000000m 90000000m',
              '42 N 71 W 0 100000000m',
              '42 N 71 W 0 -1m',
              '42 N 71 W 0 -0.001m',
              '42 N 71 W 0 1m 2m 3m 4m',
              '42 N 71 W 0 1m 2m',
              '42 N 71 W 0 1m',
              '42 N 71 W 0 "1m" \\0491m',
              '\\04\\050 N 71 W 0',
              '42 n 71 w 0',
              '42 N 71 W 0 1x',
              '42 N 71 W 1..5',
              '-42 N 71 W 0',
              '042 021 N 071 W 01.50m',
              '42 N 71 W 0.005m',
              '42 N 71 W 0.015m',
              '42 N 71 W 0.025m',
              '42 N 71 W 1.005m',
              '42 N 71 W 2.675m',
              '42 N 71 W 99999999999999999999m'):
        yield "rd-from-text", [41, 29, enc(t), [None, 1, None]]
    # WKS: numeric protocol / ports (names are resolved by the system's databases: outside the model)
    for t in ("10.0.0.1 6", "10.0.0.1 6 ", "10.0.0.1 6 0", "10.0.0.1 6 7 0 7", "10.0.0.1 6 65535", "10.0.0.1 6 65536", "10.0.0.1 256 1", "10.0.0.1 06 08",
              '"10.0.0.1" "6" "25"', "10.0.0.1 6 25 ; smtp", "10.0.0.1 6 ( 25\n 80 )", "10.0.0.1", "10.0.0 6 1", "10.0.0.1 6 \\050\\053",
              "10.0.0.1 99999999999999999999 1", "10.0.0.1 6 8191 8192 16 15"):
        yield "rd-from-text", [41, 11, enc(t), [None, 1, None]]
    # APL: the shapes of an item
    for t in ("1:10.0.0.0/8", "!1:10.0.0.0/8", '"1:10.0.0.0/8"', "!", "1", "1:", "1:/", "1:1.2.3.4", "1:1.2.3.4/", "1:1.2.3.4/33", "2:::/0", "2:::/129",
              "2:2001:db8::1/128", "3:/0", "3:0a/8", "3:0A/8", "3:0g/8", "3:0/8", "65536:00/8", "-1:00/8", "+1:1.2.3.4/+8", "1 :1.2.3.4/8",
              "\\0491:1.2.3.4/8", "1:1.2.3.4/8/9", "1:1.2.3.4:5/8", "01:1.2.3.4/08", "1_0:00/8", "", "1:1.2.3.4/8 ; c", "1:1.2.3.4/8 !2:::/0 3:/255",
              "3:" + "ab" * 127 + "/0", "3:" + "ab" * 128 + "/0", "3:00/256"):
        yield "rd-from-text", [41, 42, enc(t), [None, 1, None]]
    # KEY: flag / protocol mnemonics, NOKEY with and without key, raw (not unescaped) first tokens
    for t in ("NOKEY|FLAG2 3 8", "HOST|SIG3 TLS RSASHA256 AQID", "ZONE|ZONE 3 5 AQID", "zone 3 5 AQID", "NOKEY 3 8 AQID", "256|ZONE 3 5 AQID",
              "\\ZONE DNSSEC 8 AQID", '"ZONE" IPSEC 8 AQID', "70000 3 8 AQID", "USER|SIG0 ALL 8 AQID", "| 3 8 AA==", "ZONE| 3 8 AA==",
              "256 NONE 8 AQID", "256 none 8 AQID", "256 300 8 AQID", '256 "TLS" ED25519 AQ ID', "\\050\\053\\054 3 8 AQID", "49152 3 8", "49151 3 8",
              "NOCONF|NOAUTH 3 8", "NOKEY 3 BOGUS", "256 3 8 AQID )", "SIG15|FLAG11|NTYP3 EMAIL 255 /w==", "49152 3 8 ; c", "NOKEY 3 8\n"):
        yield "rd-from-text", [41, 25, enc(t), [None, 1, None]]
    # GPOS: the float comparisons at the limits, and every shape _validate_float_string accepts / rejects
    for lim, pos in ((90, 0), (180, 1)):
        for t in ("%d", "-%d", "+%d.", "%d.0", "%d.000000000000001", "%d.00000000000001", "-%d.00000000000002", "%d.1", "0%d", "%d1",
                  "%de0", ".%d", "-.", "+", "", "1..2", "1.2.3", "--1", "1-", " 1", "1_0", "0x1", "nan", "inf", "\\049"):
            v = (t % lim) if "%d" in t else t
            toks = ["0", "0", "0"]
            toks[pos] = v
            yield "rd-from-text", [41, 27, enc(" ".join(toks)), [None, 1, None]]
            toks[2], toks[pos] = v, "0"
            yield "rd-from-text", [41, 27, enc(" ".join(toks)), [None, 1, None]]
    for scheme in (0, 1, 2, 255):
        for h in (0, 1, 2, 3):
            for n in (1, 47, 48, 64, 65):
                yield "rd-from-text", [41, 63, enc("2018031900 %d %d %s" % (scheme, h, "0f" * n)), [None, 1, None]]
    for _ in range(ctx.n(160, 7000)):
        rdtype = rng.choice(types)
        kinds = SCHEMA[rdtype][0].split()
        vals = fixup(rng, rdtype, [gen_field(rng, k) for k in kinds])
        sty = gen_style(rng)
        yield "rd-to-text", [40, rdtype, vals, sty]
        try:
            rd = build_rdata(rdtype, vals)
            text = rd.to_text(style=style_obj(sty))
        except Exception:  # noqa
            continue
        if rng.random() < 0.5:
            # the same value (boundary values of every field) through the record-level oracle
            try:
                yield "rd-schema-value", [100, class_type(rdtype)[0], class_type(rdtype)[1], rd.to_wire(), rng.randrange(2)]
            except Exception:  # noqa
                pass
        pc = gen_pctx(rng)
        if rng.random() < 0.5:
            # the parse context that undoes the style's relativization
            pc = [sty[0], rng.randrange(2), None]
        yield "rd-from-text", [41, rdtype, enc(text), pc]
        yield "rd-from-text", [41, rdtype, enc(text + rng.choice(["\n", " ; c", " )", "  ", " x", ""])), pc]
        yield "rd-from-text-mut", [41, rdtype, enc(c05lib.mutate_rdtext(rng, text)), gen_pctx(rng)]


V6TEXTS = ["::", "::1", "1::", "1::8", "1:2:3:4:5:6:7:8", "1:2:3:4:5:6:7::", "::2:3:4:5:6:7:8", "1:2:3:4::6:7:8", "0:0:0:0:0:0:0:0",
           "::ffff:1.2.3.4", "::1.2.3.4", "1:2:3:4:5:6:1.2.3.4", "64:ff9b::192.0.2.33", "::ffff:0:0", "::ffff:0.0.0.0", ":", ":::",
           "1:::2", "::1::", "12345::", "g::", "1.2.3.4", "::1.2.3", "::01.2.3.4", "::256.1.1.1", "2001:0DB8::1", "FFFF::ffff",
           "1:2:3:4:5:6:7:8:9", "1:2:3:4:5:6:7", ":1:2:3:4:5:6:7", "1:2:3:4:5:6:7:", "::%eth0", "fe80::1%1", "", "0", "00000::",
           "::1.2.3.4.5", "1.2.3.4::", "::.1.2.3", "::1.2..4", "a:b:c:d:e:f:0:1", "0:0:0:0:0:ffff:1:2", "0:0:0:0:0:0:1:2", "::0:1:2"]
V4TEXTS = ["0.0.0.0", "255.255.255.255", "1.2.3.4", "01.2.3.4", "1.2.3", "1.2.3.4.5", "256.1.1.1", "1..2.3", "a.b.c.d", "", ".", "1.2.3.4 ",
           "+1.2.3.4", "1.2.3.-4", "00.0.0.0", "0.0.0.00", "99999999999.1.1.1", "1.2.3.\u0664"]


def gen_v6(rng):
    chunks = []
    for _ in range(8):
        r = rng.random()
        chunks.append(0 if r < 0.5 else 0xFFFF if r < 0.6 else rng.choice([1, 0x10, 0x100, 0x1000, 0xA, 0xABCD, rng.randrange(65536)]))
    r = rng.random()
    if r < 0.15:
        chunks[:5] = [0] * 5
        chunks[5] = rng.choice([0, 0xFFFF, 0xFFFF, 1])
    elif r < 0.25:
        k = rng.randint(0, 8)
        chunks[k:] = [0] * (8 - k)
    return b"".join(c.to_bytes(2, "big") for c in chunks)


def addr_cases(ctx):
    rng = ctx.rng
    for t in V4TEXTS:
        yield "ipv4-aton", [51, enc(t)]
    for t in V6TEXTS:
        yield "ipv6-aton", [53, enc(t)]
    for o in range(256):
        yield "ipv4-ntoa", [50, bytes([o, (o * 7) % 256, 255 - o, o])]
        if not ctx.quick:
            yield "ipv4-aton", [51, enc("%d.0.%d.1" % (o, o))]
    for _ in range(ctx.n(30, 3000)):
        a4 = bytes(rng.choice([0, 1, 9, 10, 99, 100, 199, 200, 255, rng.randrange(256)]) for _ in range(4))
        yield "ipv4-ntoa", [50, a4 if rng.random() < 0.95 else a4[:3]]
        t4 = dns.ipv4.inet_ntoa(a4)
        yield "ipv4-aton", [51, enc(t4)]
        yield "ipv4-aton", [51, enc(mutate_ascii(rng, t4.encode()).decode("latin-1"))]
        a6 = gen_v6(rng)
        yield "ipv6-ntoa", [52, a6 if rng.random() < 0.97 else a6[:15]]
        t6 = dns.ipv6.inet_ntoa(a6)
        yield "ipv6-aton", [53, enc(t6)]
        yield "ipv6-aton", [53, enc(t6.upper())]
        m = bytearray(t6.encode())
        for _ in range(rng.randint(1, 2)):
            pos = rng.randint(0, len(m))
            r = rng.random()
            if r < 0.4 and m:
                del m[min(pos, len(m) - 1)]
            elif r < 0.8:
                m.insert(pos, rng.choice(b":.:0f1g"))
            elif m:
                m[min(pos, len(m) - 1)] = rng.choice(b":.09af")
        yield "ipv6-aton", [53, enc(m.decode("latin-1"))]


def windows_of_types(types):
    """independent canonical encoder (RFC 4034 4.1.2)"""
    out = []
    for window in sorted({t >> 8 for t in types}):
        bits = bytearray(32)
        for t in types:
            if t >> 8 == window:
                bits[(t & 0xFF) >> 3] |= 0x80 >> (t & 7)
        n = max(i for i in range(32) if bits[i]) + 1
        out.append([window, bytes(bits[:n])])
    return out


def rdtype_cases(ctx):
    rng = ctx.rng
    names = list(dns.rdatatype.RdataType.__members__)
    for n in names:
        yield "rdtype-from-text", [57, enc(n)]
        yield "rdtype-from-text", [57, enc(n.lower().replace("_", "-"))]
        yield "rdtype-to-text", [56, int(dns.rdatatype.RdataType[n])]
    for t in ["TYPE", "TYPE0", "TYPE1", "type65535", "TYPE65536", "TYPE-1", "TYPE1x", "TYP1", "", "A-", "NSAP_PTR", "NSAP-PTR", "nsap-ptr",
              "N-SAP-PTR", "TYPE00012", "TYPE99999999999999999999", "ANY", "none", "Type33", " A", "A ", "TYPE1_0", "TYPE+5"]:
        yield "rdtype-from-text", [57, enc(t)]
    vals = range(65536) if not ctx.quick else [rng.randrange(65536) for _ in range(150)] + [0, 255, 256, 263, 264, 32768, 32769, 32770, 65535]
    for v in vals:
        yield "rdtype-to-text", [56, v]
    for _ in range(ctx.n(100, 3000)):
        v = rng.randrange(70000)
        t = "TYPE%d" % v
        yield "rdtype-from-text", [57, enc(t if rng.random() < 0.7 else mutate_ascii(rng, t.encode()).decode("latin-1"))]
        yield "rdtype-from-text", [57, enc(mutate_ascii(rng, rng.choice(names).encode()).decode("latin-1"))]


# ------------------------------------------------------------------ SVCB / HTTPS (ops 44 / 45)
SVCB_KNOWN = {0, 1, 2, 3, 4, 5, 6, 8, 10}


def gen_svcb_params(rng):
    """[[key, kind, payload], ...] sorted by key; kinds: 0 none, 1 keys, 2 strings, 3 port, 4/6 addresses, 5 ech, 7 generic"""
    P = {}

    def ids():
        out = []
        for _ in range(rng.randint(1, 3)):
            r = rng.random()
            if r < 0.5:
                out.append(rng.choice([b"h2", b"h3", b"http/1.1", b"dot", b"x"]))
            else:
                out.append(bytes(rng.choice([44, 92, 34, 0, 32, 59, 200, 255, 97, 48, 61]) for _ in range(rng.randint(1, 6))))
        return out
    if rng.random() < 0.6:
        P[1] = [2, ids()]
        if rng.random() < 0.3:
            P[2] = [0, 0]
    if rng.random() < 0.5:
        P[3] = [3, rng.choice([0, 53, 443, 8443, 65535, rng.randrange(65536)])]
    if rng.random() < 0.4:
        P[4] = [4, [gen_field(rng, "a4") for _ in range(rng.randint(1, 3))]]
    if rng.random() < 0.3:
        P[5] = [5, gen_bytes(rng, 30) or b"\x00"]
    if rng.random() < 0.4:
        P[6] = [6, [gen_v6(rng) for _ in range(rng.randint(1, 2))]]
    if rng.random() < 0.2:
        P[7] = [7, gen_bytes(rng, 12) or b"/"]
    if rng.random() < 0.15:
        P[8] = [0, 0]
    if rng.random() < 0.2:
        P[10] = [2, ids()] if rng.random() < 0.8 else [0, 0]
    for k in rng.sample([9, 11, 12, 255, 256, 65000, 65534, 65535], rng.choice([0, 0, 1, 2])):
        P[k] = [7, gen_bytes(rng, 10)] if rng.random() < 0.8 else [0, 0]
        if P[k][0] == 7 and not P[k][1]:
            P[k] = [0, 0]
    others = [k for k in P if k != 0]
    if others and rng.random() < 0.3:
        P[0] = [1, sorted(rng.sample(others, rng.randint(1, min(3, len(others)))))]
    return [[k] + P[k] for k in sorted(P)]


def build_svcb(rdtype, prio, target, params):
    import dns.rdtypes.svcbbase as S
    d = {}
    for k, kind, v in params:
        if kind == 0:
            d[k] = None
        elif kind == 1:
            d[k] = S.MandatoryParam(v)
        elif kind == 2:
            d[k] = (S.ALPNParam if k == 1 else S.DoCPathParam)(v)
        elif kind == 3:
            d[k] = S.PortParam(v)
        elif kind == 4:
            d[k] = S.IPv4HintParam([dns.ipv4.inet_ntoa(a) for a in v])
        elif kind == 6:
            d[k] = S.IPv6HintParam([dns.ipv6.inet_ntoa(a) for a in v])
        elif kind == 5:
            d[k] = S.ECHParam(v)
        else:
            d[k] = S.GenericParam(v)
    cls = dns.rdata.get_rdata_class(dns.rdataclass.IN, rdtype)
    return cls(dns.rdataclass.IN, rdtype, prio, mkname(target), d)


def enc_svcb_params(params):
    import dns.rdtypes.svcbbase as S
    out = []
    for k, v in params.items():
        k = int(k)
        if v is None:
            out.append([k, 0, 0])
        elif isinstance(v, S.MandatoryParam):
            out.append([k, 1, [int(x) for x in v.keys]])
        elif isinstance(v, S._StringList):
            out.append([k, 2, [bytes(x) for x in v.ids]])
        elif isinstance(v, S.PortParam):
            out.append([k, 3, int(v.port)])
        elif isinstance(v, S.IPv4HintParam):
            out.append([k, 4, [dns.ipv4.inet_aton(a) for a in v.addresses]])
        elif isinstance(v, S.IPv6HintParam):
            out.append([k, 6, [dns.ipv6.inet_aton(a) for a in v.addresses]])
        elif isinstance(v, S.ECHParam):
            out.append([k, 5, bytes(v.ech)])
        else:
            out.append([k, 7, bytes(v.value)])
    return out


SVCB_TEXTS = ["1 . alpn=h2", '1 . alpn="h2,h3"', "1 . alpn=h2,h3 port=443", '1 . ALPN="h2"', "1 . Alpn=h2 no-default-alpn", "1 . no_default_alpn alpn=h2",
              "1 . no-default-alpn", "1 . no-default-alpn=", '1 . no-default-alpn=""', "1 . no-default-alpn=x alpn=h2", "1 . alpn", "1 . alpn=", '1 . alpn=""',
              '1 . alpn= "h2"', "1 . =h2", '1 . ="', '1 . =" x"', '1 . ="x"', '1 . port="1" ="', "1 . =", "1 . alpn=h2 alpn=h3", "1 . port=53", 'l . port="53"', "1 . port=65536", "1 . port=-1", "1 . port=+53", "1 . port", "1 . port=",
              "0 . alpn=h2", "0 .", "0 . ", "0 foo.example.", "16 foo.example. mandatory=alpn,port alpn=h2 port=53", "1 . mandatory=alpn", "1 . mandatory=mandatory alpn=h2",
              "1 . mandatory=alpn,alpn alpn=h2", "1 . mandatory=port,alpn alpn=h2 port=1", "1 . mandatory=key7 key7=x", "1 . mandatory= alpn=h2", "1 . mandatory",
              "1 . ipv4hint=1.2.3.4,5.6.7.8", "1 . ipv4hint=1.2.3.4, ", "1 . ipv4hint=1.2.3", "1 . ipv4hint=", "1 . ipv6hint=::1,2001:db8::1", '1 . ipv6hint="::ffff:1.2.3.4"',
              "1 . ech=AQID", "1 . ech=AQI", '1 . ech="AQ ID"', "1 . ech=A\\QID", "1 . ech=", "1 . ohttp", "1 . ohttp=", "1 . ohttp=x", "1 . dohpath=/dns-query{?dns}", "1 . dohpath",
              '1 . docpath="a,b\\,c"', "1 . docpath", "1 . docpath=", "1 . key7=abc", "1 . key9", "1 . key9=", "1 . key65535=\\001\\255", "1 . key65536=x", "1 . key09=x", "1 . key0=x",
              "1 . KEY9=x", "1 . keyx=x", "1 . key=x", "1 . foo=x", "1 . key9=a\\", "1 . key9=a\\0", "1 . key9=a\\00", "1 . key9=a\\0x0", "1 . key9=a\\300", '1 . key9="a b" port=1',
              '1 . alpn="a\\\\,b"', '1 . alpn="a\\044b"', '1 . alpn="a\\\\044b"', '1 . alpn="a,,b"', '1 . alpn=","', "1 . alpn=\\,", '1 . alpn="' + "x" * 256 + '"',
              '1 . alpn="' + "x" * 255 + '"', "65535 \\@.example. port=1 ; c", "65536 . port=1", "1 . ( port=1\n alpn=h2 )", '1 . "alpn=h2"', "1 . alpn=h2 ) port=1"]


def mutate_svcb(rng, t):
    r = rng.random()
    if r < 0.4:
        return c05lib.mutate_rdtext(rng, t)
    toks = t.split(" ")
    i = rng.randrange(len(toks))
    if r < 0.6:
        toks[i] = toks[i].replace('"', "", rng.choice([1, 2]))
    elif r < 0.75:
        toks[i] = toks[i].upper() if rng.random() < 0.5 else toks[i].replace("-", "_")
    elif r < 0.9 and len(toks) > 3:
        j = rng.randrange(2, len(toks))
        toks.insert(i, toks[j])
    else:
        toks[i] = rng.choice(["key9", "ohttp", "no-default-alpn", "port=1", "alpn=h2", "0", "="])
    return " ".join(toks)


def svcb_cases(ctx):
    rng = ctx.rng
    for t in SVCB_TEXTS:
        yield "svcb-from-text", [45, 64, enc(t), [None, 1, None]]
    for _ in range(ctx.n(60, 3000)):
        rdtype = rng.choice([64, 65])
        params = gen_svcb_params(rng)
        prio = rng.choice([1, 1, 16, 65535, rng.randrange(1, 65536)]) if params or rng.random() < 0.5 else 0
        target = gen_field(rng, "n") if rng.random() < 0.6 else [b""]
        sty = gen_style(rng)
        yield "svcb-to-text", [44, prio, target, params, sty]
        try:
            rd = build_svcb(rdtype, prio, target, params)
            text = rd.to_text(style=style_obj(sty))
        except Exception:  # noqa
            continue
        if rng.random() < 0.5:
            try:
                yield "rd-schema-value", [100, int(dns.rdataclass.IN), rdtype, rd.to_wire(), rng.randrange(2)]
            except Exception:  # noqa  (relative target)
                pass
        pc = [sty[0], rng.randrange(2), None] if rng.random() < 0.5 else gen_pctx(rng)
        yield "svcb-from-text", [45, rdtype, enc(text), pc]
        yield "svcb-from-text", [45, rdtype, enc(text + rng.choice(["\n", " ; c", " )", "  ", " x", ""])), pc]
        for _ in range(2):
            yield "svcb-from-text-mut", [45, rdtype, enc(mutate_svcb(rng, text)), gen_pctx(rng)]


def svcb_in_model(text):
    if any(ord(c) > 127 for c in text):
        return False
    try:
        import dns.rdtypes.svcbbase as S
        tk = dns.tokenizer.Tokenizer(text)
        while True:
            t = tk.get()
            if t.is_eol_or_eof():
                break
            if t.is_identifier():
                key = t.value.split("=", 1)[0]
                try:
                    kb = S._unescape(key).decode("latin-1").lower()
                except Exception:  # noqa
                    continue
                if kb.startswith("key") and kb[3:].isdecimal() and int(kb[3:]) in SVCB_KNOWN and "=" in t.value:
                    return False     # cls.from_wire_parser of a typed parameter: C02's side
    except Exception:  # noqa
        pass
    return True


def sigtime_cases(ctx):
    """RRSIG/SIG times (dns/rdtypes/rrsigbase.py): op 60 posixtime_to_sigtime, op 61 sigtime_to_posixtime"""
    rng = ctx.rng
    import dns.rdtypes.rrsigbase as _rs  # noqa
    for t in SIGTIMES + [rng.randrange(2**32) for _ in range(ctx.n(40, 4000))]:
        yield "sigtime-to-text", [60, t]
        s = _rs.posixtime_to_sigtime(t)
        yield "sigtime-from-text", [61, enc(s)]
        m = list(s)
        for _ in range(rng.randint(1, 2)):
            m[rng.randrange(len(m))] = rng.choice("0912 +-_a")
        if rng.random() < 0.3:
            m = m[:rng.randint(0, 14)]
        yield "sigtime-from-text", [61, enc("".join(m))]
    for s in ["", "0", "1234567890", "12345678901", "00000000000000", "99991231235959", "00010101000000", "20200230000000",
              "20201301000000", "20200100000000", "20200199996161", "2020010100000", "202001010000000", "4294967295", "4294967296"]:
        yield "sigtime-from-text", [61, enc(s)]


def b32_cases(ctx):
    rng = ctx.rng
    import dns.rdtypes.ANY.NSEC3 as _n3  # noqa
    for _ in range(ctx.n(60, 3000)):
        d = bytes(rng.randrange(256) for _ in range(rng.choice([0, 1, 2, 3, 4, 5, 6, 9, 10, 20, 21, 33])))
        yield "b32-encode", [58, d]
        t = base64.b32encode(d).translate(_n3.b32_normal_to_hex).lower().decode().rstrip("=")
        yield "b32-decode", [59, enc(t)]
        yield "b32-decode", [59, enc(t.upper())]
        m = list(t)
        for _ in range(rng.randint(1, 2)):
            r = rng.random()
            pos = rng.randint(0, len(m))
            if r < 0.4 and m:
                del m[min(pos, len(m) - 1)]
            elif r < 0.8:
                m.insert(pos, rng.choice("0vwzWZ=a9 -"))
            elif m:
                m[min(pos, len(m) - 1)] = rng.choice("wxyz=V0")
        yield "b32-decode", [59, enc("".join(m))]


def bitmap_cases(ctx):
    rng = ctx.rng
    for _ in range(ctx.n(60, 2000)):
        types = sorted(c05lib.gen_types(rng))
        ws = windows_of_types(types)
        yield "bitmap-types", [54, ws]
        r = rng.random()
        ts = list(types)
        if r < 0.5:
            rng.shuffle(ts)
        if r < 0.3:
            ts += [rng.choice(ts) for _ in range(rng.randint(1, 3))]
        if r > 0.9:
            ts.append(0)
        yield "bitmap-from-rdtypes", [55, ts]
        # non-canonical but constructible windows: trailing zero octets, all-zero bitmap
        w2 = [[w, b + bytes(rng.randint(0, min(2, 32 - len(b))))] for w, b in ws]
        if rng.random() < 0.2:
            w2.append([min(255, w2[-1][0] + 1), b"\x00"]) if w2[-1][0] < 255 else None
        yield "bitmap-types", [54, w2]


def mutate_ascii(rng, b):
    b = bytearray(b)
    for _ in range(rng.randint(1, 3)):
        r = rng.random()
        pos = rng.randint(0, len(b))
        if r < 0.3 and b:
            del b[min(pos, len(b) - 1)]
        elif r < 0.6:
            b.insert(pos, rng.choice(b"=ab 09AZgG+/-_=\n"))
        elif b:
            b[min(pos, len(b) - 1)] = rng.choice(b"=ab09AZgz+/ =")
    return bytes(b)


def mutate_text(rng, t):
    toks = t.split(" ")
    r = rng.random()
    i = rng.randrange(len(toks))
    if r < 0.25:
        toks[i] = rng.choice(["0", "1", "255", "65536", "-1", "\\#", "#", "zz", "0a", "\\0", '"0a"'])
    elif r < 0.45:
        del toks[i]
    elif r < 0.65:
        toks.insert(i, rng.choice(["(", ")", "; x", "00", "\n"]))
    elif r < 0.8:
        toks[i] = toks[i] + rng.choice(["0", "g", "\\", '"'])
    else:
        toks[i] = toks[i][:-1]
    return " ".join(toks)


def in_model(kind, case):
    if case[0] >= 100:
        return False
    if case[0] in (51, 53) and any(c in (10, 13) or c > 127 for c in (case[1] if isinstance(case[1], (bytes, list)) else b"")):
        # regular-expression corner cases ('.' and '$' around line breaks) and non-ASCII digits: outside the model
        return False
    if case[0] == 61 and any(c > 127 for c in (case[1] if isinstance(case[1], (bytes, list)) else b"")):
        return False  # str.isdigit() / int() of non-ASCII text
    if case[0] == 45:
        return svcb_in_model(dec(case[2]))
    if case[0] in (8, 9) and any(c > 127 for c in (case[1] if isinstance(case[1], (bytes, list)) else b"")):
        return False  # int() / isdecimal() / strip() of non-ASCII text (NEL, NBSP are white space, other Nd digits)
    if case[0] == 57 and any(c > 127 for c in (case[1] if isinstance(case[1], (bytes, list)) else b"")):
        return False  # str.upper() / isdecimal() of non-ASCII text
    if case[0] == 41 and case[1] == 29 and not loc_in_model(dec(case[2])):
        return False
    if case[0] == 41 and case[1] == 11:
        # WKS protocol / service names go to the system's databases (socket.getprotobyname / getservbyname)
        try:
            tk = dns.tokenizer.Tokenizer(dec(case[2]))
            vals = []
            while True:
                t = tk.get().unescape()
                if t.is_eol_or_eof():
                    break
                vals.append(t.value)
            if any(not (v.isdecimal() and v.isascii()) for v in vals[1:]):
                return False
        except Exception:  # noqa
            return False
    if case[0] == 41:
        text = dec(case[2])
        # names go through the IDNA codec when the text is not ASCII; the generic-syntax branch of a
        # schema type needs the wire codec (C02): neither is part of this model
        if any(ord(c) > 127 for c in text) and (set(SCHEMA[case[1]][0].split()) & {"n", "nnr", "names", "gwi", "gwa", "keyrec", "apl", "bm", "etype", "escheme", "ectype", "ealg", "ealgnum", "sigtime", "alg"}):
            return False
        if "a6" in SCHEMA[case[1]][0] and ("\\" in text or any(ord(c) > 127 for c in text)):
            # escapes can put a line break into the address text (regular-expression corner case)
            return False
        try:
            t = dns.tokenizer.Tokenizer(text).get()
            if t.is_identifier() and t.value == "\\#":
                return False
        except Exception:  # noqa
            pass
    return True


# ------------------------------------------------------------------ implementation runner

UNKNOWN_TYPE = 65280


def impl(case):
    op = case[0]
    if op >= 100:
        return c05lib.run_record_case(case)
    try:
        if op == 1:
            return enc(dns.rdata._escapify(case[1]))
        if op == 2:
            tok = dns.tokenizer.Tokenizer(dec(case[1]))
            out = []
            while True:
                try:
                    t = tok.get(bool(case[2]), bool(case[3]))
                except Exception as e:  # noqa
                    out.append(exc_code(e))
                    return out
                out.append(tok_obs(t))
                if t.is_eof():
                    return out
        if op == 3:
            return enc(dns.tokenizer.Token(dns.tokenizer.IDENTIFIER, dec(case[1]), bool(case[2])).unescape().value)
        if op == 4:
            return dns.tokenizer.Token(dns.tokenizer.IDENTIFIER, dec(case[1]), True).unescape_to_bytes().value
        if op == 5:
            return run_script(dec(case[1]), case[2])
        if op == 6:
            return enc(c05lib.txt_text(case[1]))
        if op == 7:
            rd = dns.rdata.from_text(dns.rdataclass.IN, dns.rdatatype.TXT, dec(case[1]))
            return [bytes(s) for s in rd.strings]
        if op == 8:
            try:
                return int(dec(case[1]), case[2])
            except ValueError:
                return None
        if op == 9:
            return dns.ttl.from_text(dec(case[1]))
        if op == 10:
            return enc(format(case[2], "o" if case[1] == 8 else "d"))
        if op == 11:
            return enc(dns.rdata._escapify_unicode(dec(case[1])))
        if op == 12:
            try:
                return enc_cp(bytes(case[1]).decode())
            except UnicodeDecodeError:
                return None
        if op == 13:
            rd = dns.rdata.from_wire(dns.rdataclass.IN, dns.rdatatype.TXT, b"".join(bytes([len(x)]) + bytes(x) for x in case[1]), 0,
                                     sum(len(x) + 1 for x in case[1]))
            return enc(rd.to_text(style=dns.rdata.RdataStyle(txt_is_utf8=bool(case[2]))))
        if op == 20:
            return enc(dns.rdata._styled_hexify(case[1], dns.rdata.RdataStyle(hex_chunk_size=case[2], hex_chunk_separator=case[3].decode())))
        if op == 21:
            return enc(dns.rdata._styled_base64ify(case[1], dns.rdata.RdataStyle(base64_chunk_size=case[2], base64_chunk_separator=case[3].decode())))
        if op == 22:
            return binascii.unhexlify(case[1])
        if op == 23:
            return base64.b64decode(case[1])
        if op == 24:
            return bytes(dns.rdata._truncate_bitmap(case[1]))
        if op == 30:
            return enc(c05lib.generic_text(case[1], case[2], case[3]))
        if op == 31:
            return dns.rdata.from_text(dns.rdataclass.IN, UNKNOWN_TYPE, dec(case[1])).data
        if op == 50:
            return enc(dns.ipv4.inet_ntoa(case[1]))
        if op == 51:
            return dns.ipv4.inet_aton(dec(case[1]))
        if op == 52:
            try:
                return enc(dns.ipv6.inet_ntoa(case[1]))
            except ValueError:
                return Err(105, "ValueError")
        if op == 53:
            return dns.ipv6.inet_aton(dec(case[1]))
        if op == 58:
            import dns.rdtypes.ANY.NSEC3 as _n3  # noqa (module attribute access only)
            return enc(base64.b32encode(case[1]).translate(_n3.b32_normal_to_hex).lower().decode().rstrip("="))
        if op == 59:
            import dns.rdtypes.ANY.NSEC3 as _n3  # noqa
            try:
                nxt = dec(case[1]).encode("ascii").upper().translate(_n3.b32_hex_to_normal)
                if nxt.endswith(b"="):
                    raise binascii.Error("Incorrect padding")
                if len(nxt) % 8 != 0:
                    nxt += b"=" * (8 - len(nxt) % 8)
                return base64.b32decode(nxt)
            except UnicodeEncodeError:
                return Err(103, "UnicodeEncodeError")
        if op == 44:
            return enc(build_svcb(64, case[1], case[2], case[3]).to_text(style=style_obj(case[4])))
        if op == 45:
            org, rel, relto = case[3]
            rd = dns.rdata.from_text(dns.rdataclass.IN, case[1], dec(case[2]), origin=mkname(org), relativize=bool(rel), relativize_to=mkname(relto))
            return [int(rd.priority), nl.labels_of(rd.target), enc_svcb_params(rd.params)]
        if op == 60:
            import dns.rdtypes.rrsigbase as _rs  # noqa
            return enc(_rs.posixtime_to_sigtime(case[1]))
        if op == 61:
            import dns.rdtypes.rrsigbase as _rs  # noqa
            try:
                return int(_rs.sigtime_to_posixtime(dec(case[1])))
            except _rs.BadSigTime:
                return Err(25, "BadSigTime")
            except ValueError:
                return Err(105, "ValueError")
        if op == 56:
            return enc(dns.rdatatype.to_text(case[1]))
        if op == 57:
            try:
                return int(dns.rdatatype.from_text(dec(case[1])))
            except dns.rdatatype.UnknownRdatatype:
                return Err(25, "UnknownRdatatype")
            except ValueError:
                return Err(105, "ValueError")
        if op == 54:
            bm = dns.rdtypes.util.Bitmap([(w, bytes(b)) for w, b in case[1]])
            return [int(dns.rdatatype.from_text(tok)) for tok in bm.to_text().split()]
        if op == 55:
            bm = dns.rdtypes.util.Bitmap.from_rdtypes([dns.rdatatype.RdataType.make(t) for t in case[1]])
            return [[int(w), bytes(b)] for w, b in bm.windows]
        if op == 40:
            return enc(build_rdata(case[1], case[2]).to_text(style=style_obj(case[3])))
        if op == 41:
            org, rel, relto = case[3]
            rd = dns.rdata.from_text(class_type(case[1])[0], class_type(case[1])[1], dec(case[2]), origin=mkname(org), relativize=bool(rel),
                                     relativize_to=mkname(relto))
            out = []
            for k, a in zip(SCHEMA[case[1]][0].split(), SCHEMA[case[1]][1]):
                v = tuple(getattr(rd, x) for x in a) if isinstance(a, tuple) else getattr(rd, a)
                if k == "bm":
                    out.append([[int(w), bytes(b)] for w, b in v])
                    continue
                if k == "fmthex":
                    out.append(enc(v))
                    continue
                if k == "names":
                    out.append([nl.labels_of(x) for x in v])
                    continue
                if k in ("gwi", "gwa"):
                    out.append([int(v[0]), int(v[1]) if k == "gwi" else 0, gw_enc(v[-1])])
                    continue
                if k == "keyrec":
                    out.append([int(v[0]), int(v[1]), int(v[2]), bytes(v[3])])
                    continue
                if k == "locrec":
                    out.append([[int(x) for x in v[0]], [int(x) for x in v[1]], int(v[2]), dbl_obs(v[3]), dbl_obs(v[4]), dbl_obs(v[5])])
                    continue
                if k == "apl":
                    out.append([[int(i.family), int(i.negation),
                                 dns.ipv4.inet_aton(i.address) if i.family == 1 else dns.ipv6.inet_aton(i.address) if i.family == 2 else bytes(i.address),
                                 int(i.prefix)] for i in v])
                    continue
                if k == "nnr":
                    out.append(nl.labels_of(v))
                    continue
                if k in ("a4", "a4s"):
                    v = dns.ipv4.inet_aton(v)
                elif k == "a6":
                    v = dns.ipv6.inet_aton(v)
                out.append(nl.labels_of(v) if k == "n" else [bytes(x) for x in v] if k == "txt" else bytes(v) if isinstance(v, (bytes, bytearray)) else int(v))
            return out
    except Exception as e:  # noqa
        return exc_code(e)
    return Err(999, "bad case")


def run_script(text, ops):
    tok = dns.tokenizer.Tokenizer(text)
    out = []
    last = None
    for op in ops:
        try:
            nl = None
            if op == 0:
                nl = tok.get()
                r = tok_obs(nl)
            elif op == 1:
                nl = tok.get(want_leading=True)
                r = tok_obs(nl)
            elif op == 2:
                nl = tok.get(want_comment=True)
                r = tok_obs(nl)
            elif op == 3:
                r = tok.get_int()
            elif op == 4:
                r = tok.get_uint8()
            elif op in (5, 15):
                r = tok.get_uint16()
            elif op == 6:
                r = tok.get_uint32()
            elif op == 7:
                r = tok.get_uint48()
            elif op == 8:
                r = enc(tok.get_string())
            elif op == 9:
                r = enc(tok.get_identifier())
            elif op == 10:
                r = [tok_obs(t) for t in tok.get_remaining()]
            elif op == 11:
                r = enc(tok.concatenate_remaining_identifiers())
            elif op == 12:
                r = enc(tok.concatenate_remaining_identifiers(True))
            elif op == 13:
                r = tok_obs(tok.get_eol_as_token())
            elif op == 14:
                r = tok.get_ttl()
            elif op == 16:
                if last is not None:
                    tok.unget(last)
                r = None
            elif op == 17:
                r = [tok_obs(t) for t in tok.get_remaining(max_tokens=1)]
            elif op == 18:
                r = enc(tok.get_string(max_length=255))
            elif op == 19:
                r = tok.get_uint16(base=8)
            elif op == 20:
                r = tok.get_string().encode()
            elif op == 21:
                r = tok.get_string_as_bytes()
            elif op == 22:
                r = tok.get_string_as_bytes(max_length=255)
            else:
                out.append(Err(999))
                return out
            out.append(r)
            last = nl
        except Exception as e:  # noqa
            out.append(exc_code(e))
            return out
    return out


# ------------------------------------------------------------------ oracle


def oracle(ctx, kind, case, out):
    op = case[0]
    if op >= 100:
        return c05lib.record_oracle(ctx, kind, case, out)
    F = []

    def fail(what, **kw):
        F.append({"kind": kind + ":" + what, "what": what, "impl": out, **kw})

    if isinstance(out, Err) and out.code >= 900:
        fail("unexpected exception " + out.text, sig="exc")
        return F
    if op == 1:
        # property: the quoted form of any octet string parses back to the same octets
        text = '"' + dec(out) + '"'
        try:
            rd = dns.rdata.from_text(dns.rdataclass.IN, dns.rdatatype.TXT, text)
            if list(rd.strings) != [case[1]]:
                fail("escapify then TXT parse gives different octets", sig="escapify")
        except Exception as e:  # noqa
            fail("escapified string does not parse: " + repr(e), sig="escapify")
        if any(c in out for c in b"\n") or any(c > 126 or c < 32 for c in out):
            fail("escapified text contains a raw control / non-ASCII character", sig="escapify-raw")
    elif op == 6:
        text = dec(out)
        try:
            rd = dns.rdata.from_text(dns.rdataclass.IN, dns.rdatatype.TXT, text)
            if list(rd.strings) != list(case[1]):
                fail("TXT text does not parse back to the same strings", sig="txt")
        except Exception as e:  # noqa
            fail("TXT text does not parse: " + repr(e), sig="txt")
    elif op in (50, 52) and not isinstance(out, Err):
        try:
            back = dns.ipv4.inet_aton(dec(out)) if op == 50 else dns.ipv6.inet_aton(dec(out))
            if back != case[1]:
                fail("address text does not parse back to the same octets", sig="addr")
        except Exception as e:  # noqa
            fail("address text does not parse: %r" % e, sig="addr")
    elif op == 60 and not isinstance(out, Err):
        import dns.rdtypes.rrsigbase as _rs  # noqa
        try:
            if _rs.sigtime_to_posixtime(dec(out)) != case[1]:
                fail("signature time text does not parse back to the same time", sig="sigtime")
        except Exception as e:  # noqa
            fail("signature time text does not parse: %r" % e, sig="sigtime")
    elif op == 54 and not isinstance(out, Err):
        # the printed types, read back, must give the same windows when the bitmap is canonical
        ws = [[w, bytes(b)] for w, b in case[1]]
        if all(len(b) > 0 and b[-1] != 0 for _, b in ws) and 0 not in out:
            back = dns.rdtypes.util.Bitmap.from_rdtypes([dns.rdatatype.RdataType.make(t) for t in out])
            if [[int(w), bytes(b)] for w, b in back.windows] != ws:
                fail("type bitmap does not survive to_text / from_rdtypes", sig="bitmap")
    elif op == 13:
        text = dec(out)
        try:
            rd = dns.rdata.from_text(dns.rdataclass.IN, dns.rdatatype.TXT, text)
            if [bytes(x) for x in rd.strings] != [bytes(x) for x in case[1]]:
                fail("TXT text (txt_is_utf8=%d) does not parse back to the same strings" % case[2], sig="txt-style")
        except Exception as e:  # noqa
            fail("TXT text (txt_is_utf8=%d) does not parse: %r" % (case[2], e), sig="txt-style")
    elif op in (20, 21):
        # chunked output, blanks only as separators: concatenating the identifiers and decoding gives the data
        text = dec(out)
        try:
            tok = dns.tokenizer.Tokenizer(text + "\n")
            s = tok.concatenate_remaining_identifiers(True).encode()
            d = binascii.unhexlify(s) if op == 20 else base64.b64decode(s)
            if d != case[1]:
                fail("chunked text does not decode to the data", sig="chunk")
        except Exception as e:  # noqa
            fail("chunked text does not parse: " + repr(e), sig="chunk")
    elif op == 30:
        try:
            rd = dns.rdata.from_text(dns.rdataclass.IN, UNKNOWN_TYPE, dec(out))
            if rd.data != case[1]:
                fail("generic text does not parse back to the data", sig="generic")
        except Exception as e:  # noqa
            fail("generic text does not parse: " + repr(e), sig="generic")
    return F


# ------------------------------------------------------------------ widened search


def widen(ctx, disagreements):
    """Model and implementation disagree (or a proof broke) but the oracle found no failing input among the
    generated cases: look harder around the disagreeing cases - turn each into whole records and run the full
    record-level property (all styles / modes) on them, then a larger random sweep of the record generators."""
    found = []
    seen = set()

    def check_wire(rdclass, rdtype, wire, why):
        key = (rdclass, rdtype, bytes(wire))
        if key in seen:
            return
        seen.add(key)
        for oc in (0, 1):
            case = [100, rdclass, rdtype, bytes(wire), oc]
            out = c05lib.run_record_case(case)
            for f in c05lib.record_oracle(ctx, "rd-widened", case, out) or []:
                f["case"] = case
                f["case_kind"] = "rd-widened"
                f["why"] = why
                found.append(f)

    IN = int(dns.rdataclass.IN)
    for d in disagreements[:200]:
        case = d["case"]
        op = case[0]
        try:
            if op == 40:
                rd = build_rdata(case[1], case[2])
                check_wire(class_type(case[1])[0], class_type(case[1])[1], rd.to_wire(), "schema to_text disagreement")
            elif op == 41:
                org, rel, relto = case[3]
                kc, kt = class_type(case[1])
                rd = dns.rdata.from_text(kc, kt, dec(case[2]), origin=mkname(org), relativize=bool(rel), relativize_to=mkname(relto))
                check_wire(kc, kt, rd.to_wire(origin=dns.name.root), "schema from_text disagreement")
            elif op in (50, 51):
                a = case[1] if op == 50 else dns.ipv4.inet_aton(dec(case[1]))
                check_wire(IN, int(dns.rdatatype.A), a, "ipv4 text disagreement")
            elif op in (52, 53):
                a = case[1] if op == 52 else dns.ipv6.inet_aton(dec(case[1]))
                check_wire(IN, int(dns.rdatatype.AAAA), a, "ipv6 text disagreement")
            elif op in (60, 61):
                t = case[1] if op == 60 else impl(case)
                if isinstance(t, int) and 0 <= t < 2**32:
                    import struct as _st
                    check_wire(IN, int(dns.rdatatype.RRSIG), _st.pack("!HBBIIIH", 1, 8, 2, 3600, t, t, 7) + b"\x01x\x00" + b"sig",
                               "signature time disagreement")
            elif op in (54, 55):
                types = impl([54, case[1]]) if op == 54 else case[1]
                bm = c05lib.bitmap_wire({t for t in types if t})
                check_wire(IN, int(dns.rdatatype.NSEC), b"\x01x\x00" + bm, "bitmap disagreement")
                check_wire(IN, int(dns.rdatatype.CSYNC), b"\x00\x00\x00\x01\x00\x00" + bm, "bitmap disagreement")
            elif op in (1, 4, 6, 7, 11, 13):
                ss = case[1] if op in (6, 13) else [case[1] if isinstance(case[1], bytes) else dec(case[1]).encode("utf-8", "replace")]
                ss = [bytes(x)[:255] for x in ss] or [b""]
                check_wire(IN, int(dns.rdatatype.TXT), b"".join(bytes([len(x)]) + x for x in ss), "escape disagreement")
            elif op in (20, 21, 22, 23, 30, 31):
                d0 = case[1] if isinstance(case[1], bytes) else b""
                check_wire(IN, c05lib.UNKNOWN_TYPE, d0, "hex/base64/generic disagreement")
                check_wire(IN, int(dns.rdatatype.DHCID), d0 or b"\x00", "hex/base64/generic disagreement")
        except Exception:  # noqa
            continue
    if not found:
        # larger sweep of the record generators (thorough sizes even in the quick tier)
        import lib as _lib
        wide = _lib.Ctx(ctx.prop + "w", "thorough", ctx.seed + 17)
        try:
            n = 0
            for kind, case in c05lib.record_cases(wide):
                n += 1
                if n > 60000:
                    break
                out = c05lib.run_record_case(_lib.normalize(case))
                for f in c05lib.record_oracle(wide, kind, case, out) or []:
                    f["case"] = case
                    f["case_kind"] = kind
                    found.append(f)
                if len(found) > 50:
                    break
        finally:
            wide.cleanup()
    return found
