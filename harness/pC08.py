"""C08 - rendered messages respect the size limit; truncation and padding are exact."""
import concurrent.futures
import hashlib
import hmac
import os
import random
import struct

import dns.exception
import dns.flags
import dns.message
import dns.name
import dns.tsig

import msggen as g
from lib import Err, normalize, case_key

ID = "C08"
COQ_IMPORTS = "From DV Require Import Model.MessageM."
COQ_RUN = "MessageM.run"
CASE_TIMEOUT = 120.0
TRUSTED = [
    "model: coq/Model/MessageM.v (Message.to_wire with max_size clamp, Renderer.reserve/release_reserved, "
    "_track_size/_rollback, TC rule, add_opt padding arithmetic, _write_tsig) on top of coq/Model/NameM.v",
    "harness/msggen.py (implementation objects built through class constructors; independent wire walker)",
    "TSIG rdata is opaque in the model (pre-computed MAC octets); signing itself is exercised by the "
    "oracle-only `signed` sweeps (hmac recomputed by dns.message.from_wire with the keyring)",
]
RULE = ("each generated message (<= 2.6 kB) is rendered at EVERY limit from 512 up to its full size (+2) for "
        "pad in {0,1,16,128,468} x EDNS on/off x TSIG on/off x prefer_truncation on/off; the implementation and the "
        "model must agree octet for octet at every limit (results are run-length encoded per chunk of limits); "
        "distinct = distinct (message, configuration, limit chunk)")

CHUNK = 128
PADS = [0, 1, 16, 128, 468]


def sweep_impl(am, origin, lo, n, reqp, prefer, pad):
    """results for limits lo .. lo+n-1, run-length encoded like MessageM.sweep"""
    out = []
    prev = None
    m = None
    for lim in range(lo, lo + n):
        r = normalize(g.run_render(am, origin, lim, reqp, prefer, pad))
        if prev is None or r != prev:
            out.append([lim, r])
            prev = r
    return out


def _work(args):
    return sweep_impl(*args)


def reuse_impl(am, origin, lims, reqp, prefer, pad):
    """ONE Message object rendered at every limit of lims in turn; for each limit: the result, the
    object's own flags after the call, and the result of rendering a fresh object at that limit"""
    try:
        m = g.mk_message(am, pad=pad, request_payload=reqp)
    except Exception as e:  # noqa
        return g.exc_code(e)
    org = None if origin is None else g.N(origin)
    out = []
    for lim in lims:
        try:
            r = m.to_wire(origin=org, max_size=lim, prefer_truncation=bool(prefer), want_shuffle=False)
        except Exception as e:  # noqa
            r = g.exc_code(e)
        out.append([r, int(m.flags), g.run_render(am, origin, lim, reqp, prefer, pad)])
    return out


API_SECRET = b"0123456789abcdef0123456789abcdef"


def rapi_impl(origin, mid, flags, ms, ops, extra):
    """dns.renderer.Renderer used directly: reserve / add_question / add_rrset (TooBig caught) /
    release_reserved / add_edns / write_header / add_tsig / get_wire"""
    import dns.renderer
    import dns.edns
    try:
        r = dns.renderer.Renderer(id=mid, flags=flags, max_size=ms, origin=None if origin is None else g.N(origin))
    except Exception as e:  # noqa
        return g.exc_code(e)
    res = []
    try:
        if extra["reserve"]:
            r.reserve(extra["reserve"])
        for op in ops:
            try:
                if op[0] == 0:
                    r.add_question(g.N(op[1]), op[2], op[3])
                else:
                    r.add_rrset(op[0], g.mk_rrset(op[1]), want_shuffle=False)
                res.append(0)
            except dns.exception.TooBig:
                res.append(1)
        if extra["reserve"] and extra["release"]:
            r.release_reserved()
        if extra["edns"] is not None:
            ev, ef, pl, opts = extra["edns"]
            try:
                r.add_edns(ev, ef, pl, [g.mk_option(c, d) for c, d in opts])
                res.append(0)
            except dns.exception.TooBig:
                res.append(1)
        r.write_header()
        if extra["tsig"] is not None:
            kn, alg = extra["tsig"]
            try:
                r.add_tsig(g.N(kn), API_SECRET, 300, mid, 0, b"", b"", dns.name.from_text(alg))
                res.append(0)
            except dns.exception.TooBig:
                res.append(1)
        return [res, r.get_wire()]
    except Exception as e:  # noqa
        return g.exc_code(e)


def check_rapi(case, out, fail):
    _, origin, mid, flags, ms, ops, extra = case
    if isinstance(out, Err):
        fail("the Renderer call sequence raised " + out.text, sig="exc")
        return
    res, w = out
    w = bytes(w)
    res = list(res)
    if len(w) > max(ms, 12):
        fail("renderer output exceeds max_size", length=len(w), max_size=ms, sig="size")
    if extra["reserve"] and not extra["release"] and len(w) > max(ms - extra["reserve"], 12):
        fail("renderer output uses reserved octets that were never released", length=len(w), sig="reserve")
    n = len(ops)
    body, tail = res[:n], res[n:]
    edns_ok = extra["edns"] is not None and tail[0] == 0
    tsig_ok = extra["tsig"] is not None and tail[-1] == 0
    try:
        wk = g.walk(w)
        if wk["end"] != len(w):
            fail("header counts are not consistent with the octets present", sig="counts")
    except g.WalkError as e:
        fail("result cannot be walked: " + str(e), sig="walk")
        return
    for pp in g.check_pointers(w):
        fail("compression pointer into removed or unknown bytes: " + pp, sig="pointer")
        break
    keyring = None
    if tsig_ok:
        keyring = {g.N(extra["tsig"][0]): dns.tsig.Key(g.N(extra["tsig"][0]), API_SECRET, dns.name.from_text(extra["tsig"][1]))}
    try:
        p = dns.message.from_wire(w, keyring=keyring if keyring else False,
                                  origin=None if origin is None else g.N(origin), one_rr_per_rrset=True)
    except Exception as e:  # noqa
        fail("result of the Renderer call sequence does not parse/validate: " + type(e).__name__, sig="parse")
        return
    if tsig_ok != (p.tsig is not None) or (tsig_ok and not p.had_tsig):
        fail("TSIG record lost or invented", sig="tsig")
    if edns_ok != (p.opt is not None):
        fail("OPT record lost or invented", sig="opt")
    elif edns_ok:
        ev, ef, pl, opts = extra["edns"]
        want_ttl = (ef & 0xFF00FFFF) | (ev << 16)
        if (int(p.opt.ttl), int(p.payload), [[int(o.otype), bytes(o.to_wire())] for o in p.options]) != \
           (want_ttl, pl, [[c, bytes(d)] for c, d in opts]):
            fail("OPT record differs from what add_edns was given", sig="optdata")
    kept = [op for op, fl in zip(ops, body) if fl == 0]
    am = [mid, flags, [[[op[1], op[3], op[2], 0, None, 0, []] for op in kept if op[0] == 0]] +
          [[op[1] for op in kept if op[0] == sct] for sct in (1, 2, 3)], None, None]
    try:
        pa = g.message_abs(p)
    except g.Unmodelled:
        return
    want = rr_list([mid, flags, [am[2][0]] + [[rs[:6] + [[rd]] for rs in am[2][sct] for rd in (rs[6] or [None]) if rd is not None]
                                              for sct in (1, 2, 3)], None, None], origin)
    if rr_list(pa, origin) != want:
        fail("records kept by the renderer differ from the accepted calls", sig="records")


HIST_KINDS = {1: "pad", 2: "use_edns", 3: "edns off", 4: "want_dnssec", 5: "ednsflags", 6: "tsig"}


def history_impl(am, origin, steps):
    """ONE Message object whose configuration is CHANGED between renderings (pad, EDNS options / payload / flags,
    EDNS removed and re-added, want_dnssec, TSIG record attached / detached).  After every change the object is
    rendered; returned per step: the result, the object's flags, the configuration read back from the object
    (opt, tsig, pad - attribute access only) and the rendering of a FRESH message configured that way."""
    import dns.edns
    try:
        m = g.mk_message(am, pad=0)
    except Exception as e:  # noqa
        return g.exc_code(e)
    org = None if origin is None else g.N(origin)
    out = []
    for st in steps:
        kind = st[0]
        try:
            if kind == 1:
                m.pad = st[1]
            elif kind == 2:
                ttl, payload, options, pad = st[1]
                m.use_edns(edns=(ttl >> 16) & 0xFF, ednsflags=ttl, payload=payload,
                           options=[g.mk_option(c, d) for c, d in options], pad=pad)
            elif kind == 3:
                m.use_edns(False)
            elif kind == 4:
                m.want_dnssec(bool(st[1]))
            elif kind == 5:
                m.ednsflags = st[1]
            elif kind == 6:
                if st[1] is None:
                    m.tsig = None
                else:
                    m.tsig = dns.rrset.from_rdata(g.N(st[1][0]), 0, g.mk_tsig_rdata(st[1][1]))
            lim, prefer = st[2], st[3]
            cur = g.message_abs(m)
            pad = int(m.pad)
            try:
                r = m.to_wire(origin=org, max_size=lim, prefer_truncation=bool(prefer), want_shuffle=False)
            except Exception as e:  # noqa
                r = g.exc_code(e)
            fresh = g.run_render([am[0], am[1], am[2], cur[3], cur[4]], origin, lim, 0, prefer, pad)
            out.append([r, int(m.flags), [cur[3], cur[4], pad], fresh])
        except g.Unmodelled:
            return out
        except Exception as e:  # noqa
            out.append([g.exc_code(e), int(m.flags), None, None])
            return out
    return out


def gen_history(rng, am):
    """configuration changes for history_impl; step kinds: 1 pad, 2 use_edns, 3 EDNS off, 4 want_dnssec,
    5 ednsflags setter, 6 TSIG record attached / detached"""
    mid = am[0]
    owners = [rs[0] for s in (1, 2, 3) for rs in am[2][s] if rs[0] and rs[0][-1] == b"" and len(rs[0]) > 1]
    steps = []
    pads = [0, 16, 128, 468]
    seqs = [
        [[1, 0], [1, 16], [1, 128], [1, 0], [1, 468], [1, 16]],
        None, None,
    ]
    base = rng.choice(seqs)
    if base is None:
        base = []
        for _ in range(rng.choice([4, 6, 8])):
            r = rng.random()
            if r < 0.3:
                base.append([1, rng.choice(pads)])
            elif r < 0.5:
                base.append([2, [rng.choice([0, 0x8000, 0x00010000]), rng.choice([512, 1232, 4096]),
                                      rng.choice([[], [[65001, b"\x01\x02\x03"]], [[65001, b"x"], [65002, bytes(20)]]]),
                                      rng.choice(pads)]])
            elif r < 0.58:
                base.append([3])
            elif r < 0.7:
                base.append([4, rng.choice([0, 1])])
            elif r < 0.8:
                base.append([5, rng.choice([0, 0x8000, 0x00FF0000])])
            else:
                if rng.random() < 0.35:
                    base.append([6, None])
                else:
                    t = g.gen_tsig(rng, g.NamePool(rng, None), mid)
                    while t is None:
                        t = g.gen_tsig(rng, g.NamePool(rng, None), mid)
                    if owners and rng.random() < 0.7:
                        ow = rng.choice(owners)
                        t[0] = list(ow) if rng.random() < 0.5 else [b"k"] + list(ow)
                        while g.wire_len(t[0]) > 255:
                            t[0] = t[0][1:]
                    base.append([6, t])
    if base and base[0][0] == 1 and am[3] is None:
        base = [[2, [0, 1232, [], 0]]] + base
    for st in base:
        st = list(st) + [None] * (2 - len(st))
        steps.append([st[0], st[1], rng.choice([65535, 65535, 1200, 700]), rng.choice([0, 1, 1])])
    return steps


def residue_message(n, keyname, tsig_rd, with_option):
    """www.example. A + a filler record of n opaque octets; the key name shares a suffix with the owners"""
    ex = [b"example", b""]
    secs = [[[[b"www"] + ex, g.IN, g.A, 0, None, 0, []]],
            [[[b"www"] + ex, g.IN, g.A, 0, None, 300, [[bytes([192, 0, 2, 1])]]],
             [[b"filler"] + ex, g.IN, 65280, 0, None, 300, [[bytes((i * 7 + n) & 0xFF for i in range(n))]]]],
            [], []]
    opt = [0, 1232, [[65001, b"\x01\x02\x03"]] if with_option else []]
    return [4660, 0x0100, secs, opt, [list(keyname), tsig_rd]]


_cache = {}


def variants(rng, am, quick):
    """(am', pad) configurations: EDNS on/off x TSIG on/off x pad"""
    mid, flags, secs, opt, tsig = am
    if opt is None:
        opt = [0x8000, 1232, [[65001, b"\x01\x02\x03"]] if rng.random() < 0.5 else []]
    if tsig is None:
        tsig = g.gen_tsig(rng, g.NamePool(rng, None), mid)
        while tsig is None:
            tsig = g.gen_tsig(rng, g.NamePool(rng, None), mid)
        # a key name at or below the owner of a record set (preferably one that the limit sweep
        # cuts), so that a compression entry surviving a rollback would be used by the TSIG owner
        owners = [rs[0] for s in (3, 2, 1) for rs in secs[s] if rs[0] and rs[0][-1] == b"" and len(rs[0]) > 1]
        if owners:
            ow = rng.choice(owners[: max(1, len(owners) // 2)] if rng.random() < 0.7 else owners)
            r = rng.random()
            tsig[0] = list(ow) if r < 0.4 else ([b"xfer"] + list(ow) if r < 0.8 else [b"key"] + list(ow[-min(3, len(ow)):]))
            while g.wire_len(tsig[0]) > 255:
                tsig[0] = tsig[0][1:]
    allv = [(None, None, 0), (None, tsig, 0)]
    for pad in PADS:
        allv.append((opt, None, pad))
        allv.append((opt, tsig, pad))
    if quick:
        allv = rng.sample(allv, 3)
    for o, t, pad in allv:
        yield [mid, flags, secs, o, t], pad


def rle_at(rle, lim):
    r = None
    for l, x in rle:
        if l <= lim:
            r = x
        else:
            break
    return r


def cases(ctx):
    rng = ctx.rng
    jobs = []
    meta = []
    nmsg = ctx.n(8, 10)
    made = 0
    tries = 0
    clamp = []
    while made < nmsg and tries < nmsg * 30:
        tries += 1
        origin = None
        if rng.random() < 0.2:
            origin = [g.gen_label(rng) for _ in range(rng.choice([1, 2]))] + [b""]
        if rng.random() < 0.15:
            am = g.gen_update(rng, origin)
        else:
            am = g.gen_query_like(rng, origin, rng.choice(["medium", "large", "large"]), opcode=rng.choice([0, 0, 0, 4, 2]))
        full = g.run_render(am, origin, 65535, 0, 0, 0)
        if isinstance(full, Err) or len(full) < 560 or len(full) > (1300 if ctx.quick else 2600):
            continue
        made += 1
        ctx.count("msgsize:%d00" % (len(full) // 100))
        for am2, pad in variants(rng, am, ctx.quick):
            full2 = g.run_render(am2, origin, 65535, 0, 0, pad)
            top = max((len(full2) if not isinstance(full2, Err) else len(full)) + 3, 530)
            for prefer in ((1, 0) if not ctx.quick else (rng.choice([1, 1, 0]),)):
                jobs.append((am2, origin, 512, top - 512, 0, prefer, pad))
                meta.append((am2, origin, top, prefer, pad))
        # the clamp: limits below 512, 0 with a request payload, above 65535
        for ms, reqp in ((0, 0), (0, 600), (0, 100), (1, 0), (511, 0), (70000, 0), (0, 70000)):
            clamp.append([1, am, origin, ms, reqp, 1, 0])
    # messages whose record sets all have owners that appear nowhere earlier, signed with a key named
    # at or below the owner of a record set that the sweep cuts: a compression entry that survived the
    # rollback of that record set would be used by the TSIG owner name
    for i in range(ctx.n(3, 5)):
        zones = [[b"zone%d" % j, b"test", b""] for j in range(3)]
        secs = [[[[b"q"] + zones[0], g.IN, g.SOA, 0, None, 0, []]], [], [], []]
        k = 0
        for sct in (1, 2, 3):
            for _ in range(rng.choice([3, 4, 5])):
                k += 1
                owner = [b"u%d" % k] + rng.choice(zones)
                if rng.random() < 0.5:
                    rd = [[bytes([60]) + bytes(rng.randrange(256) for _ in range(60))]]
                    secs[sct].append([owner, g.IN, g.TXT, 0, None, 300, rd])
                else:
                    secs[sct].append([owner, g.IN, g.NS, 0, None, 300,
                                      [[[0, [b"ns%d" % n] + owner]] for n in range(rng.choice([2, 4]))]])
        owners = [rs[0] for sct in (1, 2, 3) for rs in secs[sct]]
        full = g.run_render([7, 256, secs, None, None], None, 65535, 0, 0, 0)
        late = owners[len(owners) // 2:]
        for ow in rng.sample(late, min(ctx.n(3, 6), len(late))):
            kn = list(ow) if rng.random() < 0.4 else [b"xfer"] + list(ow)
            tsig = g.gen_tsig(rng, g.NamePool(rng, None), 7)
            while tsig is None:
                tsig = g.gen_tsig(rng, g.NamePool(rng, None), 7)
            tsig[0] = kn
            opt = rng.choice([None, [0, 1232, []]])
            am2 = [7, 256, secs, opt, tsig]
            top = len(full) + 200
            jobs.append((am2, None, 512, top - 512, 0, 1, 0))
            meta.append((am2, None, top, 1, 0))
    # a question section that does not fit at the small limits: the cut lies in the question section
    for i in range(ctx.n(1, 3)):
        qs = []
        for j in range(rng.choice([6, 8])):
            nm = [bytes(rng.choice(b"abcdefghijklmnop") for _ in range(50)), b"q%d" % j,
                  bytes(rng.choice(b"qrstuvwxyz") for _ in range(40)), b"example", b""]
            qs.append([nm, g.IN, rng.choice([g.A, g.MX, g.TXT]), 0, None, 0, []])
        secs = [qs, [[qs[0][0], g.IN, g.A, 0, None, 60, [[bytes([10, 0, 0, 1])]]]], [],
                [[[b"ns"] + qs[1][0][1:], g.IN, g.A, 0, None, 60, [[bytes([10, 0, 0, 2])]]]]]
        amq = [99, 0x0100, secs, rng.choice([None, [0, 1232, []]]), None]
        fullq = g.run_render(amq, None, 65535, 0, 0, 0)
        if not isinstance(fullq, Err):
            topq = len(fullq) + 3
            jobs.append((amq, None, 512, topq - 512, 0, 1, 0))
            meta.append((amq, None, topq, 1, 0))
    for c in clamp:
        yield "clamp", c
    # padding + TSIG + a key name sharing a suffix with names of the message, with a filler of every
    # length so that every residue of the pre-padding length modulo the block size occurs (residue 0
    # included: a zero-length padding option is still written and the TSIG owner must stay uncompressed).
    # All of them through the oracle (op 10); a sample also through the model (op 1).
    tsig0 = g.gen_tsig(rng, g.NamePool(rng, None), 4660)
    while tsig0 is None:
        tsig0 = g.gen_tsig(rng, g.NamePool(rng, None), 4660)
    keynames = [[b"key", b"example", b""], [b"www", b"example", b""], [b"k", b"www", b"example", b""],
                [b"KEY", b"Example", b""], [b"other", b"org", b""]]
    for pad in (16, 128, 468):
        base = rng.randrange(1, 40)
        for n in range(base, base + pad):
            kn = keynames[n % len(keynames)] if pad != 16 else None
            for k in ([kn] if kn is not None else keynames[:3]):
                am = residue_message(n, k, tsig0[1], with_option=bool(n & 1))
                prefer = rng.choice([0, 1])
                yield "padres", [10, am, None, 65535, 0, prefer, pad]
                if rng.random() < (0.25 if pad == 16 else 0.08 if ctx.quick else 0.1):
                    yield "padres-model", [1, am, None, 65535, 0, prefer, pad]
    # the implementation at EVERY limit (in parallel); the model at both ends of every run of equal
    # outputs, at random limits, and at every limit of sampled chunks
    swept = 0
    with concurrent.futures.ProcessPoolExecutor(max_workers=8) as ex:
        for (am2, origin, top, prefer, pad), rle in zip(meta, ex.map(_work, jobs, chunksize=1)):
            swept += top - 512
            pts = set()
            for i, (lim, r) in enumerate(rle):
                pts.add(lim)
                nxt = rle[i + 1][0] if i + 1 < len(rle) else top
                pts.add(nxt - 1)
            for _ in range(6):
                pts.add(rng.randrange(512, top))
            pts = sorted(pts)
            case = [6, am2, origin, pts, 0, prefer, pad]
            _cache[case_key(normalize(case))] = [rle_at(rle, l) for l in pts]
            ctx.count("runs", len(rle))
            yield "points:" + ("trunc" if prefer else "raise"), case
            # one and the same Message object rendered at descending then ascending limits (every distinct
            # result once on the way down and once on the way up, a full rendering after a truncated one)
            starts = [lim for lim, _ in rle]
            if len(starts) > 24:
                starts = sorted(rng.sample(starts, 24))
            seq = [top] + starts[::-1] + starts + [top, starts[0], top]
            yield "reuse:" + ("trunc" if prefer else "raise"), [8, am2, origin, seq, 0, prefer, pad]
            # max_size 0: the request payload is the limit - at the exact boundaries between two results
            for b in rng.sample(starts[1:], min(2, len(starts) - 1)):
                for rq in (b - 1, b):
                    yield "reqpayload", [1, am2, origin, 0, rq, prefer, pad]
            for _ in range(ctx.n(1, 1)):
                lo = rng.randrange(512, max(513, top - CHUNK))
                n = min(CHUNK, top - lo)
                case = [5, am2, origin, lo, n, 0, prefer, pad]
                sub = [[lo, rle_at(rle, lo)]] + [[l, x] for l, x in rle if lo < l < lo + n]
                _cache[case_key(normalize(case))] = sub
                yield "sweep:" + ("trunc" if prefer else "raise"), case
    ctx.notes["exhaustive"] = True
    ctx.notes["limits_swept_by_implementation"] = swept
    # hand-made: the reserve is larger than the limit
    am = [1, 0, [[[[b"a", b""], 1, 1, 0, None, 0, []]], [], [], []], [0, 1232, [[65001, bytes(600)]]], None]
    yield "reserve-too-large", [1, am, None, 512, 0, 1, 0]
    # low-level Renderer sequences: TooBig caught by the caller, then more records with the same owner
    for i in range(ctx.n(150, 450)):
        origin = None if rng.random() < 0.8 else [b"o", b"example", b""]
        mid, flags, ms, ops = g.gen_rseq(rng, origin)
        yield "rseq", [7, origin, mid, flags, ms, ops]
    # ONE message object whose configuration changes between renderings
    for i in range(ctx.n(40, 200)):
        origin = None
        am = g.gen_query_like(rng, origin, rng.choice(["small", "medium"]), opcode=rng.choice([0, 0, 4]))
        am[4] = None
        yield "history", [12, am, origin, gen_history(rng, am)]
    # the Renderer API used directly, through the model as well: reserve / release_reserved / add_opt (with
    # padding arguments) / write_header / _write_tsig next to add_question / add_rrset
    for i in range(ctx.n(120, 500)):
        origin = None if rng.random() < 0.8 else [b"o", b"example", b""]
        mid, flags, ms, ops = g.gen_rapi(rng, origin)
        yield "rapi-model", [7, origin, mid, flags, ms, ops]
    # the Renderer API used directly, with reserve/release, add_edns and add_tsig (oracle only)
    for i in range(ctx.n(120, 800)):
        origin = None if rng.random() < 0.8 else [b"o", b"example", b""]
        mid, flags, ms, ops = g.gen_rseq(rng, origin)
        ms = rng.choice([ms + 120, ms + 300, 512, 700, 1200])
        owners = [op[1][0] for op in ops if op[0] != 0 and op[1][0] and op[1][0][-1] == b""]
        kn = [b"key", b"example", b""]
        if owners and rng.random() < 0.7:
            ow = rng.choice(owners)
            kn = list(ow) if rng.random() < 0.5 else [b"k"] + list(ow)
            while g.wire_len(kn) > 255:
                kn = kn[1:]
        resv = rng.choice([0, 0, 30, 80])
        extra_ = {"reserve": resv, "release": rng.random() < 0.7,
                  "edns": rng.choice([None, [rng.choice([0, 0, 1]), rng.choice([0, 0x8000, 0x00FF8000]), rng.choice([512, 1232, 4096]),
                                             rng.choice([[], [[65001, b"\x01\x02"]]])]]),
                  "tsig": rng.choice([None, [kn, rng.choice(["hmac-sha256.", "hmac-sha1.", "hmac-sha512."])]])}
        yield "rapi", [11, origin, mid, flags, ms, ops, extra_]
    # signed sweeps (oracle only)
    for i in range(ctx.n(2, 5)):
        am = g.gen_query_like(rng, None, "medium", opcode=0, with_tsig=False)
        if am[3] is None:
            am[3] = [0, 1232, []]
        yield "signed", [9, am, rng.choice(PADS), rng.choice([0, 1, 2]), rng.choice([0, 1])]
    # every HMAC algorithm, as a dns.tsig.Key (algorithm argument of use_tsig left at its default) and through a
    # dict keyring with the algorithm given; padded and unpadded; the first rendering after use_tsig
    for algidx in range(len(TSIG_ALGS)):
        for dictmode in (0, 1):
            am = g.gen_query_like(rng, None, "small" if ctx.quick else "medium", opcode=0, with_tsig=False)
            if am[3] is None:
                am[3] = [0, 1232, []]
            yield "signed-alg", [9, am, rng.choice([16, 128, 468, 0]), rng.choice([0, 1, 2]), 1, algidx, dictmode]
    # OPT (+TSIG) reserves that bring header (+question) + reserve to within 16 octets of the limit, on both
    # sides: the budget left for the sections is then -16..16 octets around the 12 octets already written.
    # Through the model (op 1), the clauses of check_result (length <= limit) apply to every result.
    rb = random.Random(rng.randrange(2**32))
    tsigs = [None]
    for alg_mac, kn in ((32, [b"k", b""]), (64, [b"a-rather-long-key-name-for-transfers", b"keys", b"example", b""]),
                        (20, [b"key", b"example", b""])):
        t = g.gen_tsig(rb, g.NamePool(rb, None), 4660)
        while t is None:
            t = g.gen_tsig(rb, g.NamePool(rb, None), 4660)
        t[0] = kn
        tsigs.append(t)
    qn = [b"q", b"example", b""]
    k = 0
    for lim in (512, 513, 520, 600):
        for delta in range(-16, 17):
            k += 1
            for tsig in ([tsigs[k % len(tsigs)]] if ctx.quick else [tsigs[k % len(tsigs)], tsigs[(k + 1) % len(tsigs)]]):
                withq = rb.random() < 0.5
                secs = [[[qn, g.IN, g.A, 0, None, 0, []]] if withq else [], [], [], []]
                if rb.random() < 0.3:
                    secs[1] = [[qn, g.IN, g.A, 0, None, 60, [[bytes([10, 0, 0, 1])]]]]
                pad = 0 if rb.random() < 0.8 else rb.choice([16, 128])
                am0 = [4660, 0x0100, secs, [0, 1232, [[65001, b""]]], tsig]
                m0 = g.mk_message(am0, pad=pad)
                r0 = m0._compute_opt_reserve() + (m0._compute_tsig_reserve() if tsig is not None else 0)
                n = lim - 12 - (g.wire_len(qn) + 4 if withq else 0) + delta - r0
                if n < 0:
                    continue
                am = [4660, 0x0100, secs, [0, 1232, [[65001, bytes(n)]]], tsig]
                for prefer in ((1,) if ctx.quick and delta % 4 else (1, 0)):
                    yield "near-reserve", [1, am, None, lim, 0, prefer, pad]
    # the same neighbourhood through the Renderer API: reserve() calls summing to max_size - 12 +- 16
    for ms in (512, 520, 600):
        for delta in range(-16, 17, 1 if not ctx.quick else 2):
            mid, flags, ms_, ops = g.gen_rapi_near(rb, ms, delta)
            yield "rapi-near", [7, None, mid, flags, ms_, ops]
    # every generated message at exactly its own size, one below and one above (max_size and request payload)
    for (am2, origin, top, prefer, pad) in meta[:: (3 if ctx.quick else 1)]:
        full2 = g.run_render(am2, origin, 65535, 0, 0, pad)
        if isinstance(full2, Err):
            continue
        for lim in (len(full2) - 1, len(full2), len(full2) + 1):
            if lim >= 512:
                yield "exact-fit", [1, am2, origin, lim, 0, prefer, pad]
        yield "exact-fit", [1, am2, origin, 0, len(full2), 0, pad]


def in_model(kind, case):
    return case[0] in (1, 5, 6, 7)


KEY = dns.tsig.Key("key.example.com.", b"0123456789abcdef0123456789abcdef", "hmac-sha256")


TSIG_ALGS = ["hmac-sha256.", "hmac-md5.sig-alg.reg.int.", "hmac-sha1.", "hmac-sha224.", "hmac-sha256-128.", "hmac-sha384.",
             "hmac-sha384-192.", "hmac-sha512.", "hmac-sha512-256."]


def signed_sweep(am, pad, keymode, prefer, algidx=0, dictmode=0):
    """use_tsig with a real key of any HMAC algorithm (a dns.tsig.Key with the algorithm argument left at its
    default, or a dict keyring with the algorithm given); the FIRST rendering of a freshly signed message at every
    limit, parsed with the keyring.  Returns the list of problems."""
    probs = []
    alg = TSIG_ALGS[algidx % len(TSIG_ALGS)]
    m = g.mk_message(am, pad=pad)
    kn = [b"key", b"example", b"com", b""]
    if keymode == 1 and am[2][0]:
        q = am[2][0][0][0]
        if q and q[-1] == b"":
            kn = [b"key"] + q[-min(2, len(q)):]
    elif keymode == 2 and am[2][1]:
        q = am[2][1][0][0]
        if q and q[-1] == b"":
            kn = list(q)
    secret = b"0123456789abcdef0123456789abcdef"
    key = dns.tsig.Key(g.N(kn), secret, alg)

    def sign(x):
        if dictmode:
            x.use_tsig({g.N(kn): secret}, keyname=g.N(kn), algorithm=alg)
        else:
            x.use_tsig(key)

    sign(m)
    full = len(m.to_wire(want_shuffle=False))
    prev = None
    for lim in range(512, full + 3):
        m2 = g.mk_message(am, pad=pad)
        sign(m2)
        try:
            w = m2.to_wire(max_size=lim, prefer_truncation=bool(prefer), want_shuffle=False)
        except dns.exception.TooBig:
            if prefer and pad == 0:
                probs.append(f"TooBig at limit {lim} although truncation is preferred")
            continue
        except Exception as e:  # noqa
            probs.append(f"{type(e).__name__} at limit {lim}")
            continue
        if len(w) > lim:
            probs.append(f"length {len(w)} exceeds limit {lim}")
        if pad and len(w) % pad:
            probs.append(f"length {len(w)} is not a multiple of {pad} (limit {lim})")
        if len(w) == prev:
            continue
        prev = len(w)
        try:
            p = dns.message.from_wire(w, keyring=key)
        except Exception as e:  # noqa
            probs.append(f"signed result does not parse/validate at limit {lim}: {type(e).__name__}")
            continue
        if not p.had_tsig or p.opt is None:
            probs.append(f"OPT/TSIG missing at limit {lim}")
    return probs


def impl(case):
    op = case[0]
    if op == 1:
        _, am, origin, max_size, reqp, prefer, pad = case
        return g.run_render(am, origin, max_size, reqp, prefer, pad)
    if op == 5:
        k = case_key(normalize(case))
        if k in _cache:
            return _cache[k]
        _, am, origin, lo, n, reqp, prefer, pad = case
        return sweep_impl(am, origin, lo, n, reqp, prefer, pad)
    if op == 6:
        k = case_key(normalize(case))
        if k in _cache:
            return _cache[k]
        _, am, origin, lims, reqp, prefer, pad = case
        return [g.run_render(am, origin, lim, reqp, prefer, pad) for lim in lims]
    if op == 7:
        _, origin, mid, flags, ms, ops = case
        return g.run_rseq(origin, mid, flags, ms, ops)
    if op == 8:
        _, am, origin, lims, reqp, prefer, pad = case
        return reuse_impl(am, origin, lims, reqp, prefer, pad)
    if op == 10:
        _, am, origin, max_size, reqp, prefer, pad = case
        return g.run_render(am, origin, max_size, reqp, prefer, pad)
    if op == 11:
        _, origin, mid, flags, ms, ops, extra_ = case
        return rapi_impl(origin, mid, flags, ms, ops, extra_)
    if op == 12:
        _, am, origin, steps = case
        return history_impl(am, origin, steps)
    if op == 9:
        _, am, pad, keymode, prefer = case[:5]
        algidx, dictmode = (case[5], case[6]) if len(case) > 5 else (0, 0)
        try:
            return [p.encode() for p in signed_sweep(am, pad, keymode, prefer, algidx, dictmode)]
        except Exception as e:  # noqa
            return g.exc_code(e)
    return Err(998)


# ------------------------------------------------------------------ oracle


rr_list = g.rr_list


def reserves(am, pad):
    """(OPT reserve, TSIG reserve) of Message.to_wire, computed from the abstract message: the OPT record with
    its options (plus the header of the padding option), the TSIG record with nothing compressed"""
    opt, tsig = am[3], am[4]
    ro = rt = 0
    if opt is not None:
        ro = 11 + sum(4 + len(d) for _, d in opt[2]) + (4 if pad else 0)
    if tsig is not None:
        rt = g.wire_len(tsig[0]) + 10 + sum(len(p) if isinstance(p, (bytes, bytearray)) else g.wire_len(p[1]) for p in tsig[1])
    return ro, rt


def check_error(am, eff, prefer, pad, err, fail, **kw):
    """an exception instead of a result: TooBig, and with prefer_truncation (no padding) only when the header
    and the OPT/TSIG records alone do not fit; the ValueError of Renderer.reserve (a reserve larger than what
    is left of the limit) is the recorded finding C08-reserve-valueerror"""
    ro, rt = reserves(am, pad)
    if err.code != 20:
        if "ValueError" in err.text and (ro > eff or rt > eff - ro):
            fail("rendering raised something else than TooBig: " + err.text, sig="exc-reserve", exc=err.text, **kw)
        else:
            fail("rendering raised something else than TooBig: " + err.text, sig="exc", exc=err.text, **kw)
    elif prefer and pad == 0 and 12 + ro + rt <= eff:
        fail("TooBig although truncation is preferred and header, OPT and TSIG fit", sig="toobig", **kw)


def check_result(am, origin, lim, prefer, pad, w, fail):
    """the clauses of the property for one rendered result w (bytes) at limit lim"""
    mid, flags, secs, opt, tsig = am
    eff = lim
    if eff < 512:
        eff = 512
    if eff > 65535:
        eff = 65535
    if len(w) > eff:
        fail("rendered message exceeds its effective size limit", length=len(w), effective_limit=eff, sig="size")
    if pad and opt is not None and len(w) % pad:
        fail("padded length is not a multiple of the block size", length=len(w), pad=pad, sig="pad")
    try:
        wk = g.walk(w)
    except g.WalkError as e:
        fail("result cannot be walked: " + str(e), sig="walk")
        return
    if wk["end"] != len(w):
        fail("header counts are not consistent with the octets present", sig="counts")
    for p in g.check_pointers(w):
        fail("compression pointer into removed or unknown bytes: " + p, sig="pointer")
        break
    try:
        p = dns.message.from_wire(w, keyring=False, origin=None if origin is None else g.N(origin), one_rr_per_rrset=False)
    except Exception as e:  # noqa
        fail("result does not parse: " + type(e).__name__, sig="parse")
        return
    try:
        pa = g.message_abs(p)
    except g.Unmodelled:
        return
    want = rr_list(am, origin)
    got = rr_list(pa, origin)
    # prefix of the record sets in section order
    cut_section = None
    for s in range(4):
        if cut_section is not None:
            if got[s]:
                fail("records present after the cut", section=s, sig="prefix")
            continue
        if got[s] == want[s]:
            continue
        if got[s] == want[s][: len(got[s])]:
            cut_section = s
        else:
            # the reader merges RRs into rrsets: an update message is one rr per rrset already
            fail("section is not a prefix of the original record sets (partial or reordered record set)", section=s, sig="prefix")
            return
    if cut_section is not None and not prefer:
        fail("records missing although truncation was not requested", sig="prefix")
    tc = bool(p.flags & dns.flags.TC)
    orig_tc = bool(flags & 0x0200)
    want_tc = orig_tc or (cut_section is not None and cut_section < 3)
    if tc != want_tc:
        fail("TC flag wrong", tc=tc, cut_section=cut_section, sig="tc")
    if (opt is not None) != (p.opt is not None):
        fail("OPT record lost or invented", sig="opt")
    if (tsig is not None) != (p.tsig is not None):
        fail("TSIG record lost or invented", sig="tsig")
    elif tsig is not None:
        if g.labels_of(p.tsig.name) != [bytes(x) for x in tsig[0]] and p.tsig.name != g.N(tsig[0]):
            fail("TSIG owner name differs from the configured key name", got=g.labels_of(p.tsig.name), sig="tsigname")
        elif g.rdata_pieces(p.tsig[0])[1:] != [bytes(x) for x in tsig[1][1:]]:
            fail("TSIG rdata differs from the configured record", sig="tsigrdata")
    if opt is not None and p.opt is not None and pad == 0:
        if (int(p.opt.ttl), int(p.opt.rdclass), [[int(o.otype), bytes(o.to_wire())] for o in p.opt[0].options]) != \
           (opt[0], opt[1], [[c, bytes(d)] for c, d in opt[2]]):
            fail("OPT record differs from the configured one", sig="optdata")


def oracle(ctx, kind, case, out):
    F = []

    def fail(what, **kw):
        F.append({"kind": kind + ":" + what, "what": what, **kw})

    op = case[0]
    if op == 9:
        if isinstance(out, Err):
            fail("signed sweep raised " + out.text)
        else:
            for p in out[:3]:
                fail(bytes(p).decode(), sig="signed")
        return F
    if op == 7:
        g.check_rseq(case, out, fail)
        return F
    if op == 11:
        check_rapi(case, out, fail)
        return F
    if op == 12:
        _, am, origin, steps = case
        if isinstance(out, Err):
            fail("building the message failed " + out.text)
            return F
        for i, (st, res) in enumerate(zip(steps, out)):
            r, fl, cfg, fresh = res
            if cfg is None:
                if isinstance(r, Err):
                    fail("changing the configuration raised " + r.text, step=i, change=str(st[:2])[:80], sig="exc")
                break
            if fl != am[1]:
                fail("Message.to_wire changed the flags of the message object", step=i, sig="objflags")
                break
            if normalize(r) != normalize(fresh):
                fail("after changing the configuration (%s) the same Message object renders differently from a fresh "
                     "message configured the same way" % HIST_KINDS.get(st[0], st[0]), step=i, history=str([x[:1] + [str(x[1])[:30]] for x in steps[: i + 1]])[:300],
                     got=(r.text if isinstance(r, Err) else len(r)), fresh=(fresh.text if isinstance(fresh, Err) else len(fresh)),
                     sig="history")
                break
            if isinstance(r, Err):
                if r.code not in (20, 103):
                    fail("rendering raised something else than TooBig: " + r.text, step=i, sig="exc")
                continue
            n0 = len(F)
            check_result([am[0], am[1], am[2], cfg[0], cfg[1]], origin, st[2], st[3], cfg[2], bytes(r),
                         lambda what, **kw: fail(what, step=i, **kw))
            if len(F) > n0:
                break
        return F
    if op == 8:
        _, am, origin, lims, reqp, prefer, pad = case
        if isinstance(out, Err):
            fail("rendering one object repeatedly failed " + out.text)
            return F
        for i, (lim, (r, fl, fresh)) in enumerate(zip(lims, out)):
            if fl != am[1]:
                fail("Message.to_wire changed the flags of the message object (%#x -> %#x)" % (am[1], fl),
                     limit=lim, step=i, sig="objflags")
                break
            if normalize(r) != normalize(fresh):
                fail("rendering the same Message object again gives another result than a fresh object "
                     "(state kept from an earlier rendering)", limit=lim, step=i, previous=lims[:i][-3:], sig="reuse")
                break
        for lim, (r, fl, fresh) in zip(lims, out):
            if isinstance(r, Err):
                if r.code != 20:
                    fail("rendering raised something else than TooBig: " + r.text, limit=lim, sig="exc")
                continue
            n0 = len(F)
            check_result(am, origin, lim, prefer, pad, bytes(r), lambda what, **kw: fail(what, limit=lim, **kw))
            if len(F) > n0:
                break
        return F
    if op in (1, 10):
        _, am, origin, max_size, reqp, prefer, pad = case
        lim = max_size if max_size else (reqp if reqp else 65535)
        # the effective limit: max_size 0 means the request payload (or 65535), then clamped to 512..65535;
        # the result must be the one of an explicit rendering at that limit
        eff = min(max(lim, 512), 65535)
        if (max_size != eff or reqp) and kind != "reserve-too-large":
            ref = normalize(g.run_render(am, origin, eff, 0, prefer, pad))
            if normalize(out) != ref:
                fail("max_size=%d request_payload=%d is not rendered like the effective limit %d" % (max_size, reqp, eff),
                     sig="clamp")
        if isinstance(out, Err):
            check_error(am, eff, prefer, pad, out, fail)
            return F
        check_result(am, origin, lim, prefer, pad, bytes(out), fail)
        return F
    if op in (5, 6):
        if op == 5:
            _, am, origin, lo, n, reqp, prefer, pad = case
        else:
            _, am, origin, lims, reqp, prefer, pad = case
            # results at the given limits; equal neighbours are one run (checked at its smallest limit)
            if not isinstance(out, Err):
                rl = []
                for lim, r in zip(lims, out):
                    if not rl or rl[-1][1] != r:
                        rl.append([lim, r])
                out = rl
        if isinstance(out, Err):
            fail("sweep failed " + out.text)
            return F
        for i, (lim, r) in enumerate(out):
            if isinstance(r, Err):
                check_error(am, min(max(lim, 512), 65535), prefer, pad, r, fail, limit=lim)
                continue
            # the same octets for limits lim .. nxt-1: the size bound must hold for the smallest
            check_result(am, origin, lim, prefer, pad, bytes(r), lambda what, **kw: fail(what, limit=lim, **kw))
            # exactness: without padding and TSIG the reserve is exactly the OPT record, so a result first
            # appears at the limit equal to its length; appearing later means something that fits was left out
            if op == 6 and i > 0 and pad == 0 and am[4] is None and (lim - 1) in lims and len(r) != lim:
                fail("a result of %d octets only appears at limit %d: something that fits was left out"
                     % (len(r), lim), limit=lim, sig="exact")
        return F
    return F
