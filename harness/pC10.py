"""C10 - zone transactions match a reference model and are all-or-nothing.

case  = [cfg, probes, hist]
cfg   = [kind (0 dns.zone.Zone | 1 dns.versioned.Zone | 2 dns.btreezone.Zone), relativize, origin labels,
         identity observed? (optional, default 1; 0 for B-tree zones whose history touches NS records),
         t (optional; B-tree zones: branching parameter of the node map, 0 = default 127)]
probes= absolute names looked up in the *published* zone after every transaction
hist  = [txn...]     txn = [mode (0 writer | 1 writer(replacement=True) | 2 reader),
                            style (0 manual: op errors are caught, the transaction goes on, commit/rollback
                                     are explicit ops, a still-open transaction is rolled back at the end;
                                   1 context manager: the first op error leaves the with-block -> rollback,
                                     clean exit -> commit),
                            ops, fault (style 1: index after which an exception is injected, -1 none)]
op    = [1 add|2 replace|3 delete|4 delete_exact, [arg...]] | [5, value, relative, name-arg|None] (update_serial)
        | [6, name-arg, rdtype, covers(, 1 = types given as text)] get | [7, name-arg] name_exists | [8] changed | [9] iterate counts
        | [10, name-arg] get_node | [11] commit | [12] rollback
arg   = [0, labels] Name | [1, labels] str name | [2, rds] Rdataset | [3, labels, rds] RRset | [4, int]
        | [5, [rdtype, covers, body, aux, rdclass]] Rdata | [6, rdtype] type as text | [7] None
rds   = [rdtype, covers, ttl, [[body, aux]...], rdclass]
obs   = per txn [ [op results...], [len(zone.nodes), [node or None per probe]],
                  [per probe: is zone.get_node(probe) the same object as before the txn (None if absent)],
                  [per probe: None if absent, else per rdataset of the node [same object as the rdataset of that
                   (type, covers) in the node before the txn (None if there was none), is ImmutableRdataset]],
                  (B-tree zones only) [per probe: node.flags or None] ]
"""
import base64
import itertools
import os

import dns.btree
import dns.btreezone
import dns.exception
import dns.name
import dns.rdata
import dns.rdataclass
import dns.rdataset
import dns.rdatatype
import dns.rrset
import dns.transaction
import dns.versioned
import dns.zone

import namelib as nl
from lib import Err, Hang, with_watchdog

ID = "C10"
COQ_IMPORTS = "From DV Require Import Model.TxnM."
COQ_RUN = "TxnM.run"
CASE_TIMEOUT = 20.0
TRUSTED = [
    "model: coq/Model/TxnM.v (dns.transaction.Transaction._add/_delete/_rdataset_from_args/update_serial/_end/__exit__, "
    "dns.zone._validate_name, Version.get_node/get_rdataset, WritableVersion._maybe_cow_with_name/put_rdataset/"
    "delete_rdataset/delete_node, zone.Transaction._end_transaction, Node._append_rdataset/replace_rdataset/"
    "delete_rdataset, Rdataset.update_ttl/add/union/intersection/difference, dns.serial.Serial.__add__)",
    "both implementation models of TxnM.v are evaluated on every case: the object-level model hstore (node objects with identity, "
    "copy-on-write) yields the observation incl. per-name object identity before/after each transaction; the value-level model "
    "zstore (the one `refines` relates to the reference store) must agree on results and content, otherwise the case counts as a disagreement",
    "rdata values are abstract ids: rdata equality/hash (C07) and the rdata text/wire codecs are outside this model; rdataset objects are values",
    "dns.btreezone node flags / delegation index (C20) and versioned-zone version retention (C11/C12) are outside this model; "
    "the three zone classes are modelled by one version model (their differences - immutability wrappers, flags - are outside)",
]
ASSUMPTIONS = [
    "zones have a known origin (zone.origin is not None) and class IN",
    "one transaction at a time (no interleaving of open writers/readers; that is C11/C12)",
]

ZONES = [dns.zone.Zone, dns.versioned.Zone, dns.btreezone.Zone]
A, NS, CNAME, SOA, MX, TXT, SIG, KEY, NXT, DNAME, RRSIG, NSEC, NSEC3 = 1, 2, 5, 6, 15, 16, 24, 25, 30, 39, 46, 47, 50
MAX_TTL = 2**32 - 1
SINGLETONS = {SOA, NXT, DNAME, NSEC, CNAME}


class Injected(Exception):
    pass


class HookVeto(Exception):
    pass


# ------------------------------------------------------------------ python objects from case values

_rd_cache = {}


def mk_rdata(ty, cov, body, aux, cls=1):
    key = (ty, cov, body, aux, cls)
    rd = _rd_cache.get(key)
    if rd is not None:
        return rd
    if ty == A:
        text = f"10.0.{(body >> 8) & 255}.{body & 255}"
    elif ty == NS:
        text = f"ns{body}.example."
    elif ty == CNAME:
        text = f"c{body}.example."
    elif ty == SOA:
        text = f"m{body}.example. host.example. {aux} 2 3 4 5"
    elif ty == MX:
        text = f"{body} mx.example."
    elif ty == TXT:
        text = f'"t{body}"'
    elif ty == RRSIG:
        text = f"{dns.rdatatype.to_text(aux)} 8 2 300 20300101000000 20000101000000 {body} example. AAAA"
    elif ty == NSEC:
        text = f"n{body}.example. A"
    elif ty == SIG:
        text = f"{dns.rdatatype.to_text(aux)} 8 2 300 20300101000000 20000101000000 {body} example. AAAA"
    elif ty == DNAME:
        text = f"d{body}.example."
    elif ty == KEY:
        text = "256 3 8 " + base64.b64encode(bytes([body & 255])).decode()
    elif ty == NSEC3:
        text = "1 0 1 - " + "0" * 31 + "0123456789abcdefghijklmnopqrstuv"[body & 31] + " A"
    elif ty == NXT:
        text = f"\\# 1 {body & 255:02x}"
    else:
        raise ValueError(f"no rdata builder for type {ty}")
    rd = dns.rdata.from_text(cls, ty, text)
    _rd_cache[key] = rd
    return rd


def decode_rdata(rd):
    ty = int(rd.rdtype)
    if ty == A:
        o = rd.address.split(".")
        return [int(o[2]) * 256 + int(o[3]), 0]
    if ty == NS:
        return [int(rd.target.labels[0][2:]), 0]
    if ty == CNAME:
        return [int(rd.target.labels[0][1:]), 0]
    if ty == SOA:
        return [int(rd.mname.labels[0][1:]), rd.serial]
    if ty == MX:
        return [rd.preference, 0]
    if ty == TXT:
        return [int(rd.strings[0][1:]), 0]
    if ty == RRSIG:
        return [rd.key_tag, int(rd.type_covered)]
    if ty == NSEC:
        return [int(rd.next.labels[0][1:]), 0]
    if ty == SIG:
        return [rd.key_tag, int(rd.type_covered)]
    if ty == DNAME:
        return [int(rd.target.labels[0][1:]), 0]
    if ty == KEY:
        return [rd.key[0], 0]
    if ty == NSEC3:
        return [rd.next[-1] & 31, 0]
    if ty == NXT:
        return [rd.data[0], 0]
    raise ValueError(f"no rdata decoder for type {ty}")


def mk_rds(r):
    ty, cov, ttl, items, cls = r
    rds = dns.rdataset.Rdataset(cls, ty, cov, ttl)
    for body, aux in items:
        rds.add(mk_rdata(ty, cov, body, aux, cls))
    return rds


def mk_rrset(labels, r):
    ty, cov, ttl, items, cls = r
    # the `deleting` attribute of an RRset (dynamic-update flavour) is ignored by transactions: exercise it
    deleting = dns.rdataclass.ANY if ttl == 1 else (dns.rdataclass.NONE if ttl == 0 else None)
    rr = dns.rrset.RRset(dns.name.Name(labels), cls, ty, cov, deleting)
    rr.update_ttl(ttl)
    for body, aux in items:
        rr.add(mk_rdata(ty, cov, body, aux, cls))
    return rr


def mk_arg(a):
    k = a[0]
    if k == 0:
        return dns.name.Name(a[1])
    if k == 1:
        return dns.name.Name(a[1]).to_text()
    if k == 2:
        return mk_rds(a[1])
    if k == 3:
        return mk_rrset(a[1], a[2])
    if k == 4:
        return a[1]
    if k == 5:
        return mk_rdata(*a[1])
    if k == 6:
        return dns.rdatatype.to_text(a[1])
    if k == 7:
        return None
    raise ValueError("bad arg")


def dump_rds(r):
    return [int(r.rdtype), int(r.covers), r.ttl, [decode_rdata(rd) for rd in r]]


def dump_node(node):
    return [dump_rds(r) for r in node.rdatasets]


def code(e):
    T = dns.transaction
    if isinstance(e, Injected):
        return Err(77, "injected")
    if isinstance(e, HookVeto):
        return Err(40, "HookVeto")
    t = type(e)
    if t is T.DeleteNotExact:
        return Err(20, "DeleteNotExact")
    if t is T.ReadOnly:
        return Err(21, "ReadOnly")
    if t is T.AlreadyEnded:
        return Err(22, "AlreadyEnded")
    if t is KeyError:
        return Err(30, "KeyError")
    if t is ValueError:
        return Err(31, "ValueError")
    if t is TypeError:
        return Err(32, "TypeError")
    if t is dns.rdatatype.UnknownRdatatype:
        return Err(33, "UnknownRdatatype")
    if t is AssertionError:
        return Err(36, "AssertionError")
    if t is AttributeError:
        return Err(37, "AttributeError")
    return nl.exc_code(e)


METHOD = {1: "add", 2: "replace", 3: "delete", 4: "delete_exact"}


def do_op(txn, op):
    k = op[0]
    if k in METHOD:
        getattr(txn, METHOD[k])(*[mk_arg(a) for a in op[1]])
        return None
    if k == 5:
        if op[3] is None:
            txn.update_serial(op[1], bool(op[2]))
        else:
            txn.update_serial(op[1], bool(op[2]), mk_arg(op[3]))
        return None
    if k == 6:
        if len(op) > 4:
            r = txn.get(mk_arg(op[1]), dns.rdatatype.to_text(op[2]), dns.rdatatype.to_text(op[3]))
        else:
            r = txn.get(mk_arg(op[1]), op[2], op[3])
        return None if r is None else dump_rds(r)
    if k == 7:
        return int(txn.name_exists(mk_arg(op[1])))
    if k == 8:
        return int(txn.changed())
    if k == 9:
        return [len(list(txn.iterate_names())), len(list(txn.iterate_rdatasets()))]
    if k == 10:
        n = txn.get_node(mk_arg(op[1]))
        return None if n is None else dump_node(n)
    if k == 11:
        txn.commit()
        return None
    if k == 12:
        txn.rollback()
        return None
    raise ValueError("bad op")


HOOKS = None  # [put hooks, delete-rdataset hooks, delete-name hooks] of the case being run


def hook_fn(h, kind):
    k = h[0]

    def veto_if(cond):
        if cond:
            raise HookVeto()

    if kind == "put":
        def f(txn, name, rdataset):
            if k == 0:
                veto_if(int(rdataset.rdtype) == h[1])
            elif k == 1:
                veto_if(rdataset.ttl > h[1])
            elif k == 2:
                veto_if(name == dns.name.Name(h[1]))
            else:
                veto_if(txn.get(name, h[1]) is None)
    elif kind == "del_rds":
        def f(txn, name, rdtype, covers):
            if k == 0:
                veto_if(int(rdtype) == h[1])
            elif k == 1:
                veto_if(0 > h[1])
            elif k == 2:
                veto_if(name == dns.name.Name(h[1]))
            else:
                veto_if(txn.get(name, h[1]) is None)
    else:
        def f(txn, name):
            if k == 0:
                veto_if(0 == h[1])
            elif k == 1:
                veto_if(0 > h[1])
            elif k == 2:
                veto_if(name == dns.name.Name(h[1]))
            else:
                veto_if(txn.get(name, h[1]) is None)
    return f


def open_txn(z, mode):
    if mode == 0:
        txn = z.writer()
    elif mode == 1:
        txn = z.writer(replacement=True)
    else:
        txn = z.reader()
    if HOOKS is not None:
        for h in HOOKS[0]:
            txn.check_put_rdataset(hook_fn(h, "put"))
        for h in HOOKS[1]:
            txn.check_delete_rdataset(hook_fn(h, "del_rds"))
        for h in HOOKS[2]:
            txn.check_delete_name(hook_fn(h, "del_name"))
    return txn


def run_txn(z, mode, style, ops, fault):
    res = []
    if style == 1:
        try:
            with open_txn(z, mode) as txn:
                for i, op in enumerate(ops):
                    if i == fault:
                        raise Injected()
                    res.append(do_op(txn, op))
                if fault >= len(ops):
                    raise Injected()
        except Hang:
            raise
        except Exception as e:  # noqa
            res.append(code(e))
        return res
    txn = open_txn(z, mode)
    try:
        for op in ops:
            try:
                res.append(do_op(txn, op))
            except Hang:
                raise
            except Exception as e:  # noqa
                res.append(code(e))
    finally:
        try:
            txn.rollback()
        except dns.transaction.AlreadyEnded:
            pass
    return res


def observe(z, probes):
    out = []
    for p in probes:
        n = z.get_node(dns.name.Name(p))
        out.append(None if n is None else dump_node(n))
    return [len(z.nodes), out]


def lower(b):
    return bytes(c + 32 if 65 <= c <= 90 else c for c in b)


def full_dump(z):
    """deep, canonical copy of the published zone (absolute lower-cased owner -> sorted rdatasets)"""
    out = []
    for k, node in z.nodes.items():
        a = k.derelativize(z.origin)
        out.append([[lower(l) for l in a.labels], sorted([r[0], r[1], r[2], sorted(r[3])] for r in dump_node(node)),
                    len(node.rdatasets)])
    out.sort()
    return out


def node_objects(z, probes):
    return [z.get_node(dns.name.Name(p)) for p in probes]


def all_node_objects(z):
    return list(z.nodes.values())


def run_case(case, full=False):
    global HOOKS
    cfg, probes, hist = case[:3]
    HOOKS = case[3] if len(case) > 3 else None
    kind, rel, origin = cfg[:3]
    idobs = cfg[3] if len(cfg) > 3 else 1
    small_t = cfg[4] if len(cfg) > 4 else 0
    if kind == 2 and small_t:
        zcls, dcls = small_btree_classes(small_t)
        saved = dns.btreezone.Delegations
        dns.btreezone.Delegations = dcls
        try:
            return run_hist_on(zcls(dns.name.Name(origin), relativize=bool(rel)), kind, idobs, probes, hist, full)
        finally:
            dns.btreezone.Delegations = saved
    return run_hist_on(ZONES[kind](dns.name.Name(origin), relativize=bool(rel)), kind, idobs, probes, hist, full)


_SMALL = {}


def small_btree_classes(t):
    """a dns.btreezone.Zone whose node map and delegation index are B-trees with a small branching parameter t,
    so that splits, steals and merges happen with a few dozen names"""
    if t not in _SMALL:
        base = dns.btreezone.Delegations

        class SmallDelegations(base):
            def __init__(self, *, original=None, **kw):
                if original is not None:
                    super().__init__(original=original)
                else:
                    super().__init__(t=t)

        def mf():
            return dns.btree.BTreeDict(t=t)

        class SmallZone(dns.btreezone.Zone):
            map_factory = staticmethod(mf)

        _SMALL[t] = (SmallZone, SmallDelegations)
    return _SMALL[t]


def run_hist_on(z, kind, idobs, probes, hist, full):
    out = []
    for mode, style, ops, fault in hist:
        before = node_objects(z, probes)
        before_rds = [({} if b is None else {(int(r.rdtype), int(r.covers)): r for r in reversed(list(b.rdatasets))}) for b in before]
        if full:
            old_objs = all_node_objects(z)
            old_dumps = [dump_node(n) for n in old_objs]
        res = run_txn(z, mode, style, ops, fault)
        after = node_objects(z, probes)
        ident = [None if (b is None or a is None) else int(a is b) for b, a in zip(before, after)]
        rident = []
        for b, a in zip(before_rds, after):
            if a is None:
                rident.append(None)
                continue
            l = []
            for r in a.rdatasets:
                old = b.get((int(r.rdtype), int(r.covers)))
                l.append([None if old is None else int(old is r), int(isinstance(r, dns.rdataset.ImmutableRdataset))])
            rident.append(l)
        o = [res, observe(z, probes)] + ([ident, rident] if idobs else [])
        nobs = len(o)
        if kind == 2:
            o.append([None if a is None else int(a.flags) for a in after])
            nobs += 1
        if full:
            flags = o[nobs - 1] if kind == 2 else None
            o = [res, o[1], ident, rident, nobs]
            o.append(full_dump(z))
            # the node objects of the previously published zone, as they are now
            o.append(int([dump_node(n) for n in old_objs] == old_dumps))
            o.append(flags)
        out.append(o)
    return out


_full = {}


def impl(case):
    full = run_case(case, full=True)
    _full.clear()
    _full[repr(case)] = full
    out = []
    for t in full:
        idobs = len(case[0]) <= 3 or case[0][3]
        if len(case) > 3:
            out.append(t[:2])
            continue
        o = t[:4] if idobs else t[:2]
        if case[0][0] == 2:
            o = o + [t[7]]
        out.append(o)
    return out


# ------------------------------------------------------------------ the reference model (property text)
# A zone is a finite map  (absolute lower-cased owner, rdtype, covers) -> (ttl, ordered record set).
# A write transaction works on a private copy and publishes it at commit if it changed anything.


class RefErr(Exception):
    def __init__(self, group):
        self.group = group


OTHER, NOTEXACT, READONLY, ENDED, FAULT = "error", "not-exact", "read-only", "ended", "fault"


def wire_len(labels):
    return sum(len(l) + 1 for l in labels)


def classify(ty, cov):
    if ty == CNAME or (ty == RRSIG and cov == CNAME):
        return "cname"
    if ty in (NSEC, NSEC3, KEY) or (ty == RRSIG and cov in (NSEC, NSEC3, KEY)):
        return "neutral"
    return "regular"


class RefTxn:
    def __init__(self, zone, mode):
        self.zone = zone
        self.ro = mode == 2
        self.store = {} if mode == 1 else dict(zone.store)
        self.dirty = False
        self.ended = False

    # -- names
    def canon(self, labels):
        o = self.zone.origin
        if labels and labels[-1] == b"":
            if len(labels) < len(o) or [lower(l) for l in labels[len(labels) - len(o):]] != [lower(l) for l in o]:
                raise RefErr(OTHER)
            a = labels
        else:
            a = labels + o
            if wire_len(a) > 255:
                raise RefErr(OTHER)
        return tuple(lower(l) for l in a)

    def is_origin(self, labels):
        return self.canon(labels) == tuple(lower(l) for l in self.zone.origin)

    # -- check functions registered on the transaction (they see the owner as given by the caller)
    def run_hooks(self, which, owner, ty, ttl):
        for h in (self.zone.hooks[which] if self.zone.hooks else []):
            k = h[0]
            if k == 0 and ty == h[1]:
                raise RefErr(OTHER)
            if k == 1 and ttl > h[1]:
                raise RefErr(OTHER)
            if k == 2:
                a, b = owner, h[1]
                if (bool(a) and a[-1] == b"") == (bool(b) and b[-1] == b"") and [lower(l) for l in a] == [lower(l) for l in b]:
                    raise RefErr(OTHER)
            if k == 3 and (self.canon(owner), h[1], 0) not in self.store:
                raise RefErr(OTHER)

    # -- store
    def put(self, k, ty, cov, ttl, items, owner=None):
        if owner is not None:
            self.run_hooks(0, owner, ty, ttl)
        kind = classify(ty, cov)
        for (k2, t2, c2) in list(self.store):
            if k2 == k and ((kind == "cname" and classify(t2, c2) == "regular") or (kind == "regular" and classify(t2, c2) == "cname")):
                del self.store[(k2, t2, c2)]
        self.store[(k, ty, cov)] = (ttl, list(items))
        self.dirty = True

    def exists(self, k):
        return any(k2 == k for (k2, _, _) in self.store)

    # -- argument forms (documented ones only; anything else is an error)
    def name_of(self, a):
        if a[0] in (0, 1):
            return a[1]
        raise RefErr(OTHER)

    def parse_put(self, args):
        """-> (owner labels, rds)"""
        if len(args) == 1 and args[0][0] == 3:
            if not args[0][2][3]:
                raise RefErr(OTHER)
            return args[0][1], args[0][2]
        if len(args) == 2 and args[0][0] in (0, 1) and args[1][0] == 2:
            return args[0][1], args[1][1]
        if len(args) == 2 and args[0][0] in (0, 1) and args[1][0] == 3:
            if not args[1][2][3]:
                raise RefErr(OTHER)
            return args[0][1], args[1][2]
        if len(args) == 3 and args[0][0] in (0, 1) and args[1][0] == 4 and args[2][0] == 5:
            ttl = args[1][1]
            ty, cov, body, aux, cls = args[2][1]
            if ttl > MAX_TTL:
                raise RefErr(OTHER)
            return args[0][1], [ty, aux if ty in (RRSIG, SIG) else 0, ttl, [[body, aux]], cls]
        raise RefErr(OTHER)

    def add(self, args, replace):
        owner, (ty, cov, ttl, items, cls) = self.parse_put(args)
        if cls != 1:
            raise RefErr(OTHER)
        k = self.canon(owner)
        if ty == SOA and k != tuple(lower(l) for l in self.zone.origin):
            raise RefErr(OTHER)
        old = self.store.get((k, ty, cov))
        if old is not None and not replace:
            ottl, oitems = old
            nttl = ttl if not oitems else min(ottl, ttl)
            if ty in SINGLETONS:
                nitems = [items[-1]] if items else list(oitems)
            else:
                nitems = list(oitems) + [x for x in items if x not in oitems]
            ttl, items = nttl, nitems
        self.put(k, ty, cov, ttl, items, owner)

    def delete(self, args, exact):
        if len(args) >= 2 and args[0][0] in (0, 1) and args[1][0] in (4, 6):
            if len(args) > 3 or (len(args) == 3 and args[2][0] not in (4, 6)):
                raise RefErr(OTHER)
            ty = args[1][1]
            cov = args[2][1] if len(args) == 3 else 0
            if not (0 <= ty <= 65535 and 0 <= cov <= 65535):
                raise RefErr(OTHER)
            k = self.canon(args[0][1])
            if (k, ty, cov) not in self.store:
                if exact:
                    raise RefErr(NOTEXACT)
                return
            self.run_hooks(1, args[0][1], ty, 0)
            del self.store[(k, ty, cov)]
            self.dirty = True
            return
        rds = None
        if len(args) == 1 and args[0][0] in (0, 1):
            owner = args[0][1]
        elif len(args) == 1 and args[0][0] == 3:
            owner, rds = args[0][1], args[0][2]
        elif len(args) == 2 and args[0][0] in (0, 1) and args[1][0] == 2:
            owner, rds = args[0][1], args[1][1]
        elif len(args) == 2 and args[0][0] in (0, 1) and args[1][0] == 3:
            if not args[1][2][3]:
                raise RefErr(OTHER)
            owner, rds = args[0][1], args[1][2]
        elif len(args) == 2 and args[0][0] in (0, 1) and args[1][0] == 5:
            ty, cov, body, aux, cls = args[1][1]
            owner, rds = args[0][1], [ty, aux if ty in (RRSIG, SIG) else 0, 0, [[body, aux]], cls]
        else:
            raise RefErr(OTHER)
        if rds is not None and rds[3]:
            ty, cov, ttl, items, cls = rds
            if cls != 1:
                raise RefErr(OTHER)
            k = self.canon(owner)
            old = self.store.get((k, ty, cov))
            if old is None:
                if exact:
                    raise RefErr(NOTEXACT)
                return
            ottl, oitems = old
            if exact and not all(x in oitems for x in items):
                raise RefErr(NOTEXACT)
            left = [x for x in oitems if x not in items]
            if left:
                self.put(k, ty, cov, ottl, left, owner)
            else:
                self.run_hooks(1, owner, ty, 0)
                del self.store[(k, ty, cov)]
                self.dirty = True
        else:
            # no record set given (or an empty one): the whole name
            k = self.canon(owner)
            if exact and not self.exists(k):
                raise RefErr(NOTEXACT)
            self.run_hooks(2, owner, 0, 0)
            if not self.exists(k):
                return
            for key in [key for key in self.store if key[0] == k]:
                del self.store[key]
            self.dirty = True

    def update_serial(self, value, relative, name):
        if value < 0:
            raise RefErr(OTHER)
        owner = [] if name is None else self.name_of(name)
        k = self.canon(owner)
        old = self.store.get((k, SOA, 0))
        if old is None or not old[1]:
            raise RefErr(OTHER)
        body, serial = old[1][0]
        if relative:
            if value > 2**31 - 1:
                raise RefErr(OTHER)
            new = (serial + value) % 2**32
        else:
            new = value % 2**32
        if new == 0:
            new = 1
        if self.ro:
            raise RefErr(READONLY)
        if k != tuple(lower(l) for l in self.zone.origin):
            raise RefErr(OTHER)
        self.put(k, SOA, 0, old[0], [[body, new]], owner)

    def step(self, op):
        k = op[0]
        if k in (11, 12):
            if self.ended:
                raise RefErr(ENDED)
            self.ended = True
            if k == 11 and not self.ro and self.dirty:
                self.zone.store = self.store
            return None
        if self.ended:
            raise RefErr(ENDED)
        if k in (1, 2, 3, 4):
            if self.ro:
                raise RefErr(READONLY)
            if k <= 2:
                self.add(op[1], k == 2)
            else:
                self.delete(op[1], k == 4)
            return None
        if k == 5:
            self.update_serial(op[1], bool(op[2]), op[3])
            return None
        if k == 6:
            v = self.store.get((self.canon(self.name_of(op[1])), op[2], op[3]))
            return None if v is None else [op[2], op[3], v[0], sorted(v[1])]
        if k == 7:
            return int(self.exists(self.canon(self.name_of(op[1]))))
        if k == 8:
            return int(self.dirty and not self.ro)
        if k == 9:
            return [len({key[0] for key in self.store}), len(self.store)]
        if k == 10:
            kk = self.canon(self.name_of(op[1]))
            l = sorted([t, c, v[0], sorted(v[1])] for (k2, t, c), v in self.store.items() if k2 == kk)
            return l or None
        raise ValueError("bad op")


class RefZone:
    def __init__(self, origin, hooks=None):
        self.origin = origin
        self.store = {}
        self.hooks = hooks

    def dump(self):
        names = {}
        for (k, t, c), v in self.store.items():
            names.setdefault(k, []).append([t, c, v[0], sorted(v[1])])
        return sorted([list(k), sorted(v), len(v)] for k, v in names.items())

    def run_txn(self, mode, style, ops, fault):
        t = RefTxn(self, mode)
        res = []
        if style == 1:
            try:
                for i, op in enumerate(ops):
                    if i == fault:
                        raise RefErr(FAULT)
                    res.append(t.step(op))
                if fault >= len(ops):
                    raise RefErr(FAULT)
                if not t.ended:
                    t.step([11])
            except RefErr as e:
                res.append(e)
            return res
        for op in ops:
            try:
                res.append(t.step(op))
            except RefErr as e:
                res.append(e)
        return res


GROUP = {20: NOTEXACT, 21: READONLY, 22: ENDED, 77: FAULT}


def canon_result(r):
    """implementation result -> comparable with the reference: errors by group, record sets sorted"""
    if isinstance(r, Err):
        return ("err", GROUP.get(r.code, OTHER))
    if isinstance(r, RefErr):
        return ("err", r.group)
    if isinstance(r, list) and r and isinstance(r[0], list):
        return sorted([x[0], x[1], x[2], sorted(x[3])] for x in r)
    if isinstance(r, list) and len(r) == 4 and isinstance(r[3], list):
        return [r[0], r[1], r[2], sorted(r[3])]
    return r


def has_quirk(case):
    """empty record-set arguments: the property text does not say what they mean (the code stores an empty
    rdataset / deletes the whole name); such cases are model-checked but not judged by the oracle"""
    for _, _, ops, _ in case[2]:
        for op in ops:
            if op[0] in (1, 2, 3, 4):
                for a in op[1]:
                    if (a[0] == 2 and not a[1][3]) or (a[0] == 3 and not a[2][3]):
                        return True
    return False


def oracle(ctx, kind, case, out):
    F = []

    def fail(what, **kw):
        F.append({"kind": "txn:" + what, "what": what, "impl": out, **kw})

    if isinstance(out, Err):
        fail("harness-level exception " + out.text)
        return F
    if has_quirk(case):
        return F
    full = _full.get(repr(case))
    if full is None:
        try:
            full = with_watchdog(run_case, case, True, seconds=CASE_TIMEOUT)
        except Hang:
            fail("implementation did not terminate (a writer blocked on a transaction that never ended)", sig="hang")
            return F
    cfg, probes, hist = case[:3]
    ref = RefZone(cfg[2], case[3] if len(case) > 3 else None)
    before = []
    for i, (mode, style, ops, fault) in enumerate(hist):
        exp = ref.run_txn(mode, style, ops, fault)
        got = full[i][0]
        tag = f"txn {i}"
        if len(exp) != len(got):
            fail("number of executed operations differs from the reference model", sig="nops", txn=i)
            break
        bad = False
        for j, (e, g) in enumerate(zip(exp, got)):
            if canon_result(e) != canon_result(g):
                fail(f"operation result differs from the reference model ({tag} op {j}: expected {canon_result(e)!r}, got {canon_result(g)!r})",
                     sig="result", txn=i, op=j, op_kind=(ops[j][0] if j < len(ops) else -1))
                bad = True
                break
        after = full[i][5]
        if not full[i][6]:
            fail(f"a node object of the published zone was mutated in place ({tag})", sig="aliasing", txn=i)
            bad = True
        if after != ref.dump():
            committed = ref.dump() != before
            fail(("zone content after commit differs from the reference model" if committed else
                  "a transaction that did not commit changed the published zone") + f" ({tag})",
                 sig="content" if committed else "atomicity", txn=i, expected=ref.dump(), got=after)
            bad = True
        for nd in after:
            if nd[2] == 0:
                fail(f"empty node left in the zone ({tag})", sig="empty-node", txn=i)
                bad = True
        before = after
        if bad:
            break
    return F


# ------------------------------------------------------------------ generators

ORIGINS = [[b"example", b""], [b"example", b""], [b"example", b""], [b"Ex", b"ORG", b""], [b""]]
RELS = [[], [b"www"], [b"a"], [b"b", b"a"], [b"WWW"], [b"mail"], [b"c", b"b", b"a"], [b"d", b"a"]]
TYPES = [A, A, A, TXT, TXT, CNAME, CNAME, NSEC, MX, NS, RRSIG, RRSIG, SOA, SOA, DNAME, KEY, NXT, NSEC3, SIG]
TTLS = [0, 1, 300, 300, 3600, 2**31 - 1, MAX_TTL]
SERIALS = [0, 1, 5, 2**31 - 1, 2**31, 2**31 + 1, 2**32 - 2, 2**32 - 1]


def flipcase(labels):
    return [bytes(c ^ 0x20 if (65 <= c <= 90 or 97 <= c <= 122) else c for c in l) for l in labels]


class Gen:
    """op generator that remembers (roughly) what the zone holds, so that merges, exact deletes and
    deletions of the last record set of a node are frequent"""

    def __init__(self, rng, origin, form=None):
        self.rng = rng
        self.origin = origin
        self.form = form
        self.present = []  # [rel labels, ty, cov, items]

    def spell(self, rel, form=None):
        rng = self.rng
        if form is None:
            form = self.form if self.form is not None else rng.randrange(4)
        if form in (1, 3):
            o = self.origin if rng.random() < 0.8 else flipcase(self.origin)
            labels = rel + o
        else:
            labels = rel
        return [1 if form >= 2 else 0, labels]

    def owner(self, rel=None, bad=0.04):
        rng = self.rng
        r = rng.random()
        if rel is None:
            if r < bad / 2:
                return [0, [b"www", b"other", b""]]
            if r < bad:
                return [0, [b"x" * 63, b"y" * 63, b"z" * 63, b"w" * 60]]  # too long once the origin is appended
            rel = rng.choice(RELS)
        elif rng.random() < 0.2:
            rel = flipcase(rel)
        return self.spell(rel)

    def items(self, ty, cov, n=None):
        rng = self.rng
        if n is None:
            n = rng.choice([1, 1, 1, 2, 3]) if ty not in SINGLETONS else 1
        ids = rng.sample(range(1, 6), n)
        aux = cov if ty in (RRSIG, SIG) else (rng.choice(SERIALS) if ty == SOA else 0)
        return [[i, aux] for i in ids]

    def tc(self):
        ty = self.rng.choice(TYPES)
        cov = self.rng.choice([A, A, CNAME, CNAME, NSEC, TXT, KEY, NSEC3]) if ty in (RRSIG, SIG) else 0
        return ty, cov

    def rds(self, ty, cov, items=None, empty=0.03, badclass=0.02):
        rng = self.rng
        if items is None:
            items = [] if rng.random() < empty else self.items(ty, cov)
        cls = 3 if (ty == TXT and rng.random() < badclass * 5) else 1
        return [ty, cov, rng.choice(TTLS), items, cls]

    def pick(self, p):
        if self.present and self.rng.random() < p:
            return self.rng.choice(self.present)
        return None

    def note(self, rel, ty, cov, items):
        for e in self.present:
            if e[0] == rel and e[1] == ty and e[2] == cov:
                e[3] = e[3] + [x for x in items if x not in e[3]]
                return
        self.present.append([rel, ty, cov, list(items)])

    def put_args(self):
        rng = self.rng
        e = self.pick(0.45)
        if e is not None:
            rel, ty, cov = e[0], e[1], e[2]
            if rng.random() < 0.3:
                ty, cov = self.tc()
        else:
            rel = None
            ty, cov = self.tc()
        if ty == SOA and rng.random() < 0.85:
            rel = []
        owner = self.owner(rel)
        r = rng.random()
        if r < 0.4:
            rds = self.rds(ty, cov)
            self.note(rel, ty, cov, rds[3])
            return [owner, [2, rds]]
        if r < 0.7:
            body, aux = self.items(ty, cov, 1)[0]
            ttl = rng.choice(TTLS + [MAX_TTL + 1] * (rng.random() < 0.1))
            self.note(rel, ty, cov, [[body, aux]])
            return [owner, [4, ttl], [5, [ty, cov, body, aux, 1]]]
        if r < 0.9:
            rds = self.rds(ty, cov)
            self.note(rel, ty, cov, rds[3])
            return [[3, owner[1], rds]]
        if r < 0.95:
            rds = self.rds(ty, cov)
            self.note(rel, ty, cov, rds[3])
            return [owner, [3, [b"ignored"], rds]]
        return self.malformed_put(owner, ty, cov)

    def malformed_put(self, owner, ty, cov):
        body, aux = self.items(ty, cov, 1)[0]
        rd = [5, [ty, cov, body, aux, 1]]
        return self.rng.choice([
            [],
            [owner],
            [owner, [4, 300]],
            [owner, [4, MAX_TTL + 1]],
            [owner, [7]],
            [owner, [4, 300], [7]],
            [owner, [4, 300], rd, rd],
            [owner, [2, self.rds(ty, cov)], [4, 1]],
            [[4, 5]],
            [[7]],
            [owner, rd],
            [owner, [6, ty]],
            [[3, owner[1], self.rds(ty, cov)], [4, 1]],
        ])

    def del_args(self):
        rng = self.rng
        e = self.pick(0.7)
        if e is not None:
            rel, ty, cov, have = e
            if rng.random() < 0.15:
                ty, cov = self.tc()
                have = []
        else:
            rel, have = None, []
            ty, cov = self.tc()
        owner = self.owner(rel)
        r = rng.random()
        if r < 0.12:
            return [owner]
        if r < 0.35:
            t = [4, ty] if rng.random() < 0.6 else [6, ty]
            if cov or rng.random() < 0.1:
                return [owner, t, [4, cov] if rng.random() < 0.6 else [6, cov if cov else A]]
            return [owner, t]
        # a record-set argument: all of / part of / more than what is there
        if have and rng.random() < 0.8:
            k = rng.random()
            if k < 0.4:
                items = list(have)
            elif k < 0.7:
                items = rng.sample(have, rng.randint(1, len(have)))
            else:
                items = rng.sample(have, rng.randint(1, len(have))) + [x for x in self.items(ty, cov) if x not in have][:1]
            if ty in SINGLETONS:
                items = items[:1]
            rng.shuffle(items)
        else:
            items = None
        if r < 0.6:
            return [owner, [2, self.rds(ty, cov, items)]]
        if r < 0.75:
            body, aux = (items or self.items(ty, cov, 1))[0]
            return [owner, [5, [ty, cov, body, aux, 1]]]
        if r < 0.9:
            return [[3, owner[1], self.rds(ty, cov, items)]]
        if r < 0.94:
            return [owner, [3, [b"ignored"], self.rds(ty, cov, items)]]
        body, aux = self.items(ty, cov, 1)[0]
        rd = [5, [ty, cov, body, aux, 1]]
        return rng.choice([
            [],
            [[4, 5]],
            [[7]],
            [owner, [7]],
            [owner, [4, ty], [4, cov], [4, 0]],
            [owner, [4, 70000]],
            [owner, [4, ty], [4, -1]],
            [owner, rd, rd],
            [owner, [2, self.rds(ty, cov)], [7]],
            [owner, [4, ty], [7]],
            [owner, [4, ty], rd],
        ])

    def op(self):
        rng = self.rng
        r = rng.random()
        if r < 0.28:
            return [1, self.put_args()]
        if r < 0.38:
            return [2, self.put_args()]
        if r < 0.54:
            return [3, self.del_args()]
        if r < 0.64:
            return [4, self.del_args()]
        if r < 0.72:
            value = rng.choice([1, 1, 1, 0, 2, 7, 2**31 - 2, 2**31 - 1, 2**31, 2**32 - 1, 2**32, 2**32 + 3, -1])
            relative = int(rng.random() < 0.7)
            if rng.random() < 0.55:
                name = None
            elif rng.random() < 0.8:
                name = self.spell([])
            else:
                name = self.owner()
            return [5, value, relative, name]
        if r < 0.82:
            e = self.pick(0.7)
            text = [1] if rng.random() < 0.3 else []
            if e is not None:
                return [6, self.owner(e[0]), e[1], e[2]] + text
            ty, cov = self.tc()
            return [6, self.owner(), ty, cov] + text
        if r < 0.87:
            e = self.pick(0.6)
            return [7, self.owner(e[0] if e else None)]
        if r < 0.91:
            return [8]
        if r < 0.94:
            return [9]
        if r < 0.97:
            e = self.pick(0.6)
            o = self.owner(e[0] if e else None)
            return [10, [0, o[1]]]
        return [rng.choice([11, 12])]

    def setup(self):
        """a committed transaction that populates the zone"""
        rng = self.rng
        ops = [[1, [[0, []], [2, [SOA, 0, 3600, [[1, rng.choice(SERIALS)]], 1]]]]]
        for _ in range(rng.randrange(0, 6)):
            ty, cov = self.tc()
            if ty == SOA:
                continue
            rel = rng.choice(RELS)
            rds = self.rds(ty, cov, empty=0, badclass=0)
            self.note(rel, ty, cov, rds[3])
            ops.append([1, [[0, rel], [2, rds]]])
        return [0, 1, ops, -1]


def probes_of(origin):
    seen = []
    for rel in RELS:
        p = [lower(l) for l in rel + origin]
        if p not in seen:
            seen.append(p)
    return seen


def mentions_ns(hist):
    """does any argument of the history carry NS records / name the NS type (btreezone delegation bookkeeping)"""
    for _, _, ops, _ in hist:
        for op in ops:
            if op[0] in (1, 2, 3, 4):
                for a in op[1]:
                    if (a[0] == 2 and a[1][0] == NS) or (a[0] == 3 and a[2][0] == NS) or (a[0] == 5 and a[1][0] == NS) \
                            or (a[0] in (4, 6) and a[1] == NS):
                        return True
    return False


def mk_cfg(kind, rel, origin, hist):
    # object identity is not observed on B-tree zones whose history can touch a delegation (see TxnM.run)
    return [kind, rel, origin, 0 if (kind == 2 and mentions_ns(hist)) else 1]


def mk_case(kind, rel, origin, hist):
    return [mk_cfg(kind, rel, origin, hist), probes_of(origin), hist]


def reform_arg(a, origin, form):
    """rewrite an owner argument into the requested spelling (0 rel Name, 1 abs Name, 2 rel str, 3 abs str)"""
    if a[0] in (0, 1) or a[0] == 3:
        labels = a[1]
        isabs = bool(labels) and labels[-1] == b""
        o = len(origin)
        inzone = isabs and len(labels) >= o and [lower(l) for l in labels[len(labels) - o:]] == [lower(l) for l in origin]
        if isabs and not inzone:
            return a
        if not isabs and wire_len(labels + origin) > 255:
            return a
        rel = labels[: len(labels) - o] if isabs else labels
        new = rel + origin if form in (1, 3) else rel
        if a[0] == 3:
            return [3, new, a[2]]
        return [1 if form >= 2 else 0, new]
    return a


def reform_case(case, kind, rel, form):
    cfg, probes, hist = case
    origin = cfg[2]
    nh = []
    for mode, style, ops, fault in hist:
        nops = []
        for op in ops:
            if op[0] in (1, 2, 3, 4):
                args = [reform_arg(a, origin, form) if i == 0 else a for i, a in enumerate(op[1])]
                nops.append([op[0], args])
            elif op[0] == 5:
                nops.append([5, op[1], op[2], None if op[3] is None else reform_arg(op[3], origin, form)])
            elif op[0] in (6, 7):
                nops.append([op[0], reform_arg(op[1], origin, form)] + op[2:])
            elif op[0] == 10:
                nops.append([10, reform_arg(op[1], origin, form % 2)])
            else:
                nops.append(op)
        nh.append([mode, style, nops, fault])
    return [mk_cfg(kind, rel, origin, nh), probes, nh]


def cases(ctx):
    rng = ctx.rng
    # 1. random histories
    for _ in range(ctx.n(260, 4000)):
        origin = rng.choice(ORIGINS)
        kind, rel = rng.randrange(3), rng.randrange(2)
        g = Gen(rng, origin)
        hist = []
        if rng.random() < 0.8:
            hist.append(g.setup())
        for _ in range(rng.choice([1, 1, 2, 3])):
            mode = rng.choice([0, 0, 0, 0, 1, 2])
            style = rng.randrange(2)
            ops = [g.op() for _ in range(rng.choice([1, 2, 3, 4, 6, 9]))]
            hist.append([mode, style, ops, -1])
        yield "random", mk_case(kind, rel, origin, hist)
    # 2. one history under all six configurations x owner spellings (name-form / configuration irrelevance)
    for _ in range(ctx.n(30, 350)):
        origin = rng.choice(ORIGINS)
        g = Gen(rng, origin)
        hist = [g.setup()]
        for _ in range(rng.choice([1, 2])):
            ops = [g.op() for _ in range(rng.choice([2, 3, 5, 8]))]
            hist.append([rng.choice([0, 0, 0, 1]), rng.randrange(2), ops, -1])
        base = mk_case(0, 1, origin, hist)
        forms = [0, 1, 2, 3] if ctx.tier == "thorough" else [rng.choice([0, 2]), rng.choice([1, 3])]
        for kind in range(3):
            for rel in range(2):
                for form in forms:
                    yield "config", reform_case(base, kind, rel, form)
    # 3. crash points: an exception injected after every index of a with-block
    for _ in range(ctx.n(60, 900)):
        origin = rng.choice(ORIGINS)
        kind, rel = rng.randrange(3), rng.randrange(2)
        g = Gen(rng, origin)
        setup = g.setup()
        ops = [g.op() for _ in range(rng.choice([2, 3, 4, 6]))]
        ops = [op for op in ops if op[0] not in (11, 12)] or [[8]]
        follow = [0, 1, [g.op()], -1]
        for fault in range(len(ops) + 1):
            yield "crash", mk_case(kind, rel, origin, [setup, [0, 1, ops, fault], follow])
    # 4. ended / read-only transactions
    for _ in range(ctx.n(40, 600)):
        origin = rng.choice(ORIGINS)
        kind, rel = rng.randrange(3), rng.randrange(2)
        g = Gen(rng, origin)
        setup = g.setup()
        pre = [g.op() for _ in range(rng.randrange(3))]
        post = [g.op() for _ in range(rng.choice([1, 2, 4]))]
        yield "ended", mk_case(kind, rel, origin, [setup, [rng.choice([0, 1]), 0, pre + [[rng.choice([11, 12])]] + post, -1]])
        yield "readonly", mk_case(kind, rel, origin, [setup, [2, rng.randrange(2), pre + post, -1]])
    # 7. delegations: descendants (b.a, c.b.a, d.a) committed in an EARLIER transaction, then a transaction that
    #    adds / replaces / deletes / deletes-exact NS at the ancestor `a` (or at b.a) without touching them - the
    #    B-tree zone re-creates the descendant nodes for its glue flags - with reads inside the transaction, commit,
    #    then the NS removed again; every history under all six configurations (content must agree with the
    #    reference store, hence across the three zone classes)
    for i in range(ctx.n(14, 120)):
        origin = rng.choice(ORIGINS[:4])
        g = Gen(rng, origin)
        cut = rng.choice([[b"a"], [b"a"], [b"a"], [b"b", b"a"]])
        below = [r for r in RELS if len(r) > len(cut) and r[len(r) - len(cut):] == cut]
        others = [r for r in RELS if r not in below and r != cut and r != [] and r != [b"WWW"]]
        pop = [[1, [[0, []], [2, [SOA, 0, 3600, [[1, rng.choice(SERIALS)]], 1]]]]]
        for r in below + rng.sample(others, rng.randint(0, 2)) + ([cut] if rng.random() < 0.4 else []):
            for _ in range(rng.choice([1, 1, 2])):
                ty = rng.choice([A, A, TXT, MX, CNAME, NSEC, RRSIG])
                cov = rng.choice([A, TXT]) if ty == RRSIG else 0
                pop.append([1, [[0, r], [2, g.rds(ty, cov, empty=0, badclass=0)]]])
        if below and rng.random() < 0.45:
            # an NS owner beneath the future cut: occluded while the cut exists, exposed again when it goes
            pop.append([1, [[0, below[0] if rng.random() < 0.7 else rng.choice(below)], [2, g.rds(NS, 0, empty=0, badclass=0)]]])
        setup = [0, 1, pop, -1]

        def reads():
            out = []
            for r in rng.sample(below, min(len(below), rng.choice([1, 2]))):
                k = rng.randrange(4)
                if k == 0:
                    out.append([6, g.spell(r), rng.choice([A, TXT, MX]), 0])
                elif k == 1:
                    out.append([10, [0, g.spell(r, rng.randrange(2))[1]]])
                elif k == 2:
                    out.append([7, g.spell(r)])
                else:
                    out.append([9])
            return out

        ns = g.rds(NS, 0, empty=0, badclass=0)
        k = i % 4
        if k == 0:
            put = [1, [g.spell(cut), [2, ns]]]
        elif k == 1:
            put = [2, [g.spell(cut), [2, ns]]]
        elif k == 2:
            put = [1, [g.spell(cut), [4, rng.choice(TTLS)], [5, [NS, 0, ns[3][0][0], 0, 1]]]]
        else:
            put = [1, [[3, g.spell(cut)[1], ns]]]
        touch = [[1, [g.spell(rng.choice(below)), [2, g.rds(A, 0, empty=0, badclass=0)]]]] if (below and rng.random() < 0.25) else []
        t_add = [0, rng.randrange(2), reads() + [put] + touch + reads() + ([[11]] if rng.random() < 0.3 else []), -1]
        k2 = (i // 4) % 5
        if k2 == 0:
            rem = [3, [g.spell(cut), [4, NS]]]
        elif k2 == 1:
            rem = [3, [g.spell(cut), [2, ns]]]
        elif k2 == 2:
            rem = [4, [g.spell(cut), [2, [NS, 0, 0, ns[3][:1], 1]]]]
        elif k2 == 3:
            rem = [4, [g.spell(cut), [6, NS]]]
        else:
            rem = [3, [g.spell(cut)]]
        t_del = [0, rng.randrange(2), reads() + [rem] + reads(), -1]
        tail = [[2, 1, reads(), -1]]
        # a later transaction that rewrites the delegation point itself and a node beneath it
        t_touch = [0, 1, [[1, [g.spell(cut), [2, g.rds(rng.choice([A, TXT]), 0, empty=0, badclass=0)]]]]
                         + ([[1, [g.spell(rng.choice(below)), [2, g.rds(TXT, 0, empty=0, badclass=0)]]]] if below else [])
                         + reads(), -1]
        hists = [[setup, t_add] + ([t_touch] if i % 2 == 0 else []) + [t_del] + tail]
        if rng.random() < 0.5:
            hists.append([setup, [0, 1, t_add[2], len(t_add[2])], t_add, t_del])  # the NS transaction aborted first
        for hist in hists:
            base = mk_case(0, 1, origin, hist)
            form = rng.randrange(4)
            for kind in range(3):
                for rel in range(2):
                    yield "delegation", reform_case(base, kind, rel, form if ctx.tier == "quick" else rng.randrange(4))
    # 8. CNAME / other-data exclusivity at one node: CNAME, RRSIG(CNAME), regular types and their RRSIGs, neutral
    #    types (NSEC, KEY, NSEC3) and their RRSIGs stored over each other in every order, over two transactions
    kinds_tc = [(CNAME, 0), (RRSIG, CNAME), (A, 0), (RRSIG, A), (TXT, 0), (NSEC, 0), (RRSIG, NSEC), (KEY, 0), (RRSIG, KEY), (MX, 0)]
    for i in range(ctx.n(60, 600)):
        origin = rng.choice(ORIGINS[:4])
        kind, rel = i % 3, (i // 3) % 2
        g = Gen(rng, origin)
        relname = rng.choice([[b"www"], [b"a"], [b"b", b"a"], [b"mail"]])
        seq = [kinds_tc[0], kinds_tc[1]] if i % 4 == 0 else []
        seq = seq + rng.sample(kinds_tc, rng.choice([2, 3, 4]))
        rng.shuffle(seq)
        txns = [[], []]
        for j, (ty, cov) in enumerate(seq):
            ops = txns[0 if j < len(seq) // 2 else 1]
            rds = g.rds(ty, cov, empty=0, badclass=0)
            form = rng.randrange(3)
            owner = g.spell(relname)
            if form == 0:
                ops.append([rng.choice([1, 2]), [owner, [2, rds]]])
            elif form == 1:
                ops.append([rng.choice([1, 2]), [owner, [4, rds[2]], [5, [ty, cov, rds[3][0][0], rds[3][0][1], 1]]]])
            else:
                ops.append([rng.choice([1, 2]), [[3, owner[1], rds]]])
            ops.append([10, [0, g.spell(relname, rng.randrange(2))[1]]])
            if rng.random() < 0.5:
                t2, c2 = rng.choice(kinds_tc)
                ops.append([6, g.spell(relname), t2, c2])
        hist = [g.setup()] if rng.random() < 0.3 else [[0, 1, [[1, [[0, []], [2, [SOA, 0, 3600, [[1, 1]], 1]]]]], -1]]
        hist += [[0, rng.randrange(2), txns[0] + [[11]], -1], [0, 1, txns[1], -1]]
        yield "exclusive", mk_case(kind, rel, origin, hist)
    # 9. check functions (check_put_rdataset / check_delete_rdataset / check_delete_name) registered on every
    #    transaction: a veto aborts the call (and a with-block), never half-applies it
    for i in range(ctx.n(80, 700)):
        origin = rng.choice(ORIGINS[:4])
        kind, rel = i % 3, (i // 3) % 2
        g = Gen(rng, origin)

        def hk(pool):
            out = []
            for _ in range(rng.choice([0, 1, 1, 2])):
                k = rng.choice(pool)
                if k == 0:
                    out.append([0, rng.choice([A, TXT, CNAME, NS, SOA])])
                elif k == 1:
                    out.append([1, rng.choice([0, 299, 300, 3600])])
                elif k == 2:
                    out.append([2, g.spell(rng.choice(RELS[:6]), rng.randrange(2))[1]])
                else:
                    out.append([3, rng.choice([A, SOA, TXT])])
            return out

        hooks = [hk([0, 1, 2, 3]), hk([0, 2, 3]), hk([2, 3])]
        hist = [g.setup()]
        for _ in range(rng.choice([1, 2])):
            hist.append([0, rng.randrange(2), [g.op() for _ in range(rng.choice([2, 4, 6]))], -1])
        yield "hooks", mk_case(kind, rel, origin, hist)[:1] + [probes_of(origin), hist, hooks]
    # 10. B-tree rebalancing under the node map: a B-tree zone with a SMALL branching parameter t (multi-level tree
    #     after a few dozen names), pre-populated in a committed transaction; then transactions that delete / add /
    #     replace names all over the tree - forcing steals, merges and splits in nodes shared with the published
    #     version - aborted (exception after the last call, explicit rollback) and committed.  The published zone is
    #     deep-compared after every transaction (and the same histories run on plain and versioned zones).
    def rebalance_hist(rng, nnames, sorted_order, systematic):
        names = [[("h%02d" % i).encode()] for i in range(nnames)] if nnames <= 100 else [[("h%03d" % i).encode()] for i in range(nnames)]
        order = list(names)
        if not sorted_order:
            rng.shuffle(order)
        pop = [[1, [[0, []], [2, [SOA, 0, 3600, [[1, 1]], 1]]]]]
        for j, nm in enumerate(order):
            pop.append([1, [[0, nm], [2, [A, 0, 300, [[1 + j % 5, 0]], 1]]]])
        hist = [[0, 1, pop, -1]]
        present = list(names)
        if systematic:
            # every name deleted alone in a transaction that dies; nothing may change
            step = max(1, nnames // 40)
            for nm in names[::step]:
                hist.append([0, 1, [[3, [[0, nm]]]], 1])
            return hist, names
        for _ in range(rng.choice([6, 8, 10])):
            ops = []
            for _ in range(rng.choice([1, 1, 2, 3])):
                r = rng.random()
                if r < 0.6 and present:
                    nm = present[rng.randrange(len(present))] if rng.random() < 0.6 else present[rng.choice([0, 1, 2, len(present) // 2, len(present) - 1]) % len(present)]
                    ops.append([3, [[0, nm]]] if rng.random() < 0.7 else [3, [[0, nm], [4, A]]])
                elif r < 0.85:
                    nm = [("h%02dx" % rng.randrange(nnames)).encode()]
                    ops.append([1, [[0, nm], [2, [A, 0, 300, [[1, 0]], 1]]]])
                else:
                    nm = rng.choice(names)
                    ops.append([2, [[0, nm], [2, [TXT, 0, 60, [[2, 0]], 1]]]])
            end = rng.random()
            if end < 0.4:
                hist.append([0, 1, ops, len(ops)])            # exception after the last call
            elif end < 0.6:
                hist.append([0, 0, ops + [[12]], -1])         # explicit rollback
            else:
                hist.append([0, 1, ops, -1])                  # commit
                for op in ops:
                    nm = op[1][0][1]
                    if op[0] == 3 and nm in present and len(op[1]) == 1:
                        present.remove(nm)
        return hist, names

    plans = [(3, 24, True, True), (3, 30, True, False), (4, 36, True, True), (4, 40, False, False), (5, 50, True, False),
             (3, 26, False, False), (5, 44, True, True), (4, 32, False, True)]
    if ctx.tier != "quick":
        plans = plans * 6 + [(0, 300, True, True), (0, 300, True, False), (0, 280, False, False)]
    for pi, (t, nnames, so, systematic) in enumerate(plans):
        origin = [b"example", b""]
        hist, names = rebalance_hist(rng, nnames, so, systematic)
        rel = pi % 2
        probes = [[lower(l) for l in nm + origin] for nm in ([[]] + names[:3] + names[nnames // 2: nnames // 2 + 2] + names[-2:])]
        yield "rebalance", [[2, rel, origin, 1, t], probes, hist]
        if pi % 3 == 0 and nnames <= 100:
            yield "rebalance", [[pi % 2, rel, origin, 1], probes, hist]
    # 6. every rdata type of the universe: merged twice through each argument form (the second add meets an
    #    existing - possibly empty - rdataset), read back, deleted by type with boundary type values
    allt = [A, NS, CNAME, SOA, MX, TXT, SIG, KEY, NXT, DNAME, RRSIG, NSEC, NSEC3]
    for i in range(ctx.n(90, 1000)):
        origin = rng.choice(ORIGINS)
        kind, rel = rng.randrange(3), rng.randrange(2)
        g = Gen(rng, origin)
        ty = allt[i % len(allt)]
        cov = rng.choice([A, CNAME, NSEC, KEY]) if ty in (RRSIG, SIG) else 0
        relname = [] if ty == SOA else rng.choice(RELS)
        ops = []
        for j in range(rng.choice([2, 3])):
            body, aux = g.items(ty, cov, 1)[0]
            ttl = rng.choice(TTLS)
            owner = g.spell(relname)
            form = rng.randrange(3)
            if form == 0:
                ops.append([1, [owner, [4, ttl], [5, [ty, cov, body, aux, 1]]]])
            elif form == 1:
                ops.append([1, [owner, [2, [ty, cov, ttl, [] if (j == 0 and rng.random() < 0.25) else [[body, aux]], 1]]]])
            else:
                ops.append([1, [[3, owner[1], [ty, cov, ttl, [[body, aux]], 1]]]])
            ops.append([6, g.spell(relname), ty, cov])
        t = rng.choice([ty, ty, 65535, 65536, 0, -1])
        ops.append([rng.choice([3, 4]), [g.spell(relname), [4, t]] + ([[4, rng.choice([cov, 65536])]] if cov else [])])
        ops.append([10, [0, g.spell(relname, rng.randrange(2))[1]]])
        hist = [g.setup()] if rng.random() < 0.5 else []
        yield "types", mk_case(kind, rel, origin, hist + [[0, rng.randrange(2), ops, -1]])
    # 5. serial arithmetic (RFC 1982): increments landing on / around 0 and 2^31, absolute values
    for _ in range(ctx.n(60, 800)):
        origin = rng.choice(ORIGINS)
        kind, rel = rng.randrange(3), rng.randrange(2)
        g = Gen(rng, origin)
        s0 = rng.choice(SERIALS + [rng.randrange(2**32)])
        setup = [0, 1, [[1, [[0, []], [2, [SOA, 0, rng.choice(TTLS), [[1, s0]], 1]]]]], -1]
        incs = [1, 2, 2**31 - 2, 2**31 - 1, 2**31, (2**32 - s0) % 2**32, (2**32 - s0 + 1) % 2**32, 0, -1, 2**32 + 5]
        ops = []
        for _ in range(rng.choice([1, 2, 3])):
            name = None if rng.random() < 0.5 else g.spell([])
            if rng.random() < 0.7:
                ops.append([5, rng.choice(incs), 1, name])
            else:
                ops.append([5, rng.choice([0, 2**32, s0, 1, 2**32 - 1, 2**33 + 7]), 0, name])
            ops.append([6, g.spell([]), SOA, 0])
        yield "serial", mk_case(kind, rel, origin, [setup, [0, rng.randrange(2), ops, -1]])
    # 11. a CNAME (or RRSIG(CNAME)) stored at a delegation point evicts the NS rdataset: the node stops being a
    #     delegation point (B-tree zone: DELEGATION flag, delegation index and the GLUE flags beneath it follow;
    #     NS owners beneath it are exposed again), in the transaction that stored the NS, in a later one, in one
    #     that aborts; owner spelled in another case; under all six configurations
    for i in range(ctx.n(10, 90)):
        origin = rng.choice(ORIGINS[:4])
        g = Gen(rng, origin)
        cut = rng.choice([[b"www"], [b"a"], [b"a"], [b"b", b"a"]])
        below = [r for r in RELS if len(r) > len(cut) and r[len(r) - len(cut):] == cut] or [[b"x"] + cut]
        pop = [[1, [[0, []], [2, [SOA, 0, 3600, [[1, 1]], 1]]]]]
        for r in below:
            pop.append([1, [[0, r], [2, g.rds(rng.choice([A, TXT]), 0, empty=0, badclass=0)]]])
        if rng.random() < 0.4:
            pop.append([1, [[0, below[0]], [2, g.rds(NS, 0, empty=0, badclass=0)]]])
        put_ns = [rng.choice([1, 2]), [g.spell(cut), [2, g.rds(NS, 0, empty=0, badclass=0)]]]
        if rng.random() < 0.5:
            pop.append(put_ns)
            put_ns = None
        ev = (CNAME, 0) if i % 3 else (RRSIG, CNAME)
        evict = [rng.choice([1, 2]), [[0, flipcase(cut)] if i % 2 else g.spell(cut), [2, g.rds(ev[0], ev[1], empty=0, badclass=0)]]]
        look = [[10, [0, g.spell(cut, rng.randrange(2))[1]]], [6, g.spell(rng.choice(below)), A, 0], [9]]
        body = ([put_ns] if put_ns else []) + look[:1] + [evict] + look
        back = [0, 1, [[rng.choice([1, 2]), [g.spell(cut), [2, g.rds(NS, 0, empty=0, badclass=0)]]]] + look
                      + [[3, [g.spell(cut), [4, rng.choice([NS, CNAME])]]]] + look[1:], -1]
        hist = [[0, 1, pop, -1]]
        if i % 4 == 1:
            hist.append([0, 1, body, len(body)])                 # evicted in a transaction that dies
        hist += [[0, rng.randrange(2), body + ([[11]] if rng.random() < 0.3 else []), -1], back]
        base = mk_case(0, 1, origin, hist)
        for kind in ([2, 2, 0, 1] if ctx.tier == "quick" else [0, 1, 2]):
            for rel in range(2):
                if ctx.tier == "quick" and kind != 2 and rel != i % 2:
                    continue
                yield "evict", reform_case(base, kind, rel, rng.randrange(4))


# ------------------------------------------------------------------ exhaustive small scope (implementation vs reference)
# Universe: 3 owner names x 3 types (A: plain multi-valued, CNAME: singleton + exclusive, NSEC: singleton +
# neutral).  Every op sequence up to the given length is run as a committed with-block and as a with-block
# that exits through an exception after the last op (since every prefix of a sequence is itself enumerated,
# this is an exception injected after every index); the configuration (3 zone classes x relativize) and the
# owner spelling (relative / absolute) rotate with the sequence index for the longer lengths.

X_ORIGIN = [b"example", b""]
X_NAMES = [[], [b"a"], [b"b", b"a"]]
X_TYPES = [A, CNAME, NSEC]


def x_alphabet(full):
    """full: 0 = 21 ops (add, delete by type, delete name), 1 = 60 ops, 2 = 30 ops (0 + replace)"""
    ops = []
    for n in X_NAMES:
        for ty in X_TYPES:
            sing = ty in SINGLETONS
            ops.append([1, [[0, n], [4, 300], [5, [ty, 0, 1, 0, 1]]]])
            ops.append([3, [[0, n], [4, ty]]])
            if full:
                ops.append([2, [[0, n], [2, [ty, 0, 900, [[3, 0]] if sing else [[1, 0], [3, 0]], 1]]]])
            if full == 1:
                ops.append([1, [[0, n], [2, [ty, 0, 60, [[2, 0]], 1]]]])
                ops.append([3, [[0, n], [5, [ty, 0, 1, 0, 1]]]])
                ops.append([4, [[0, n], [2, [ty, 0, 0, [[1, 0]], 1]]]])
        ops.append([3, [[0, n]]])
        if full == 1:
            ops.append([4, [[0, n]]])
    return ops


X_SETUP = [0, 1, [[1, [[0, []], [2, [SOA, 0, 3600, [[1, 1]], 1]]]],
                  [1, [[0, [b"a"]], [2, [A, 0, 300, [[1, 0]], 1]]]],
                  [1, [[0, [b"b", b"a"]], [2, [CNAME, 0, 300, [[1, 0]], 1]]]]], -1]
X_COMBOS = [(k, r, f) for k in range(3) for r in range(2) for f in range(2)]


def x_spell(ops, form):
    if not form:
        return ops
    return [[op[0], [[0, op[1][0][1] + X_ORIGIN]] + op[1][1:]] for op in ops]


def x_check(ops, combos):
    """-> list of failures for one sequence under the given (kind, relativize, spelling) combinations"""
    F = []
    for (k, r, f) in combos:
        sops = x_spell(ops, f)
        for fault in (-1, len(sops)):
            case = [[k, r, X_ORIGIN], [], [X_SETUP, [0, 1, sops, fault]]]
            fs = oracle(None, "exhaustive", case, [])
            for x in fs:
                x["case"] = case
                x["case_kind"] = "exhaustive"
            F += fs
    return F


def x_worker(job):
    first_ops, length, full, all_combos = job
    alpha = x_alphabet(full)
    n = 0
    F = []
    idx = 0
    for first in first_ops:
        for rest in itertools.product(alpha, repeat=length - 1):
            ops = [alpha[first]] + list(rest)
            idx += 1
            combos = X_COMBOS if all_combos else [X_COMBOS[(idx + first) % len(X_COMBOS)]]
            F += x_check(ops, combos)
            n += 2 * len(combos)
            if len(F) > 3:
                return n, F
    return n, F


def extra(ctx):
    import concurrent.futures
    import multiprocessing
    import time

    t0 = time.time()

    # (length, full alphabet?, all 12 combinations per sequence?)
    if ctx.tier == "thorough":
        plan = [(1, 1, True), (2, 1, True), (3, 1, False), (4, 0, False)]
    else:
        plan = [(1, 1, True), (2, 1, False), (3, 2, False)]
    if os.environ.get("VERIF_C10_PLAN"):
        plan = [tuple(int(x) for x in p.split(",")) for p in os.environ["VERIF_C10_PLAN"].split(";")]
    workers = max(1, min(int(os.environ.get("VERIF_JOBS", "16")), 12))
    jobs = []
    for length, full, allc in plan:
        na = len(x_alphabet(int(full)))
        for first in range(na):
            jobs.append(([first], length, int(full), bool(allc)))
    n = 0
    F = []
    mp = multiprocessing.get_context("fork")
    with concurrent.futures.ProcessPoolExecutor(max_workers=workers, mp_context=mp) as ex:
        for k, fs in ex.map(x_worker, jobs, chunksize=1):
            n += k
            F += fs
    ctx.notes["extra_evaluations"] = n
    ctx.notes["extra_nontrivial"] = n
    ctx.notes["exhaustive"] = True
    ctx.notes["exhaustive_wall_s"] = round(time.time() - t0, 1)
    ctx.notes["exhaustive_scope"] = (
        "every op sequence (committed, and aborted by an exception after its last op) over 3 owners x 3 types: "
        + "; ".join(f"length {l}: {len(x_alphabet(int(f)))}-op alphabet, {'all 12' if a else 'one rotating'} "
                    f"(zone class x relativize x owner spelling) combination(s) per sequence" for l, f, a in plan))
    return F[:6]
