"""Message generators, case <-> implementation conversions, implementation runners and an
independent wire walker, shared by pC03.py and pC08.py.

An abstract message (= the `msg` part of a case, directly in obs shape) is
    [id, flags, [sec0, sec1, sec2, sec3], opt, tsig]
    rrset = [name, rdclass, rdtype, covers, deleting|None, ttl, [rdata...]]
    rdata = [piece...];  piece = bytes (opaque) | [0, name] (compressible name) | [1, name] (never compressed)
    opt   = None | [ednsflags(ttl), payload(class), [[code, data]...]]
    tsig  = None | [keyname, rdata]
    name  = [label bytes...]  (absolute iff the last label is b"")
"""
import random
import struct

import dns.edns
import dns.exception
import dns.flags
import dns.message
import dns.name
import dns.opcode
import dns.rcode
import dns.rdata
import dns.rdataclass
import dns.rdatatype
import dns.renderer
import dns.rrset
import dns.tsig
import dns.update
import dns.ipv4
import dns.ipv6

from lib import Err

# dns.rdata.get_rdata_class caches its answers, and the order of the first lookups matters (C02's known finding:
# a class-IN-only type first looked up in another class is cached as generic): load every implemented type in
# class-IN-first order once, so that what a wire parses to does not depend on the cases that came before it
dns.rdata.load_all_types(disable_dynamic_load=False)

IN, CH, HS, NONE, ANY = 1, 3, 4, 254, 255
A, NS, CNAME, SOA, PTR, MX, TXT, AAAA, SRV, OPT, RRSIG, TSIG = 1, 2, 5, 6, 12, 15, 16, 28, 33, 41, 46, 250
SIG = 24

SPECIAL_OPTIONS = sorted(int(k) for k in dns.edns._type_to_class)
# ... all of which are modelled (MessageM.opt_dec; REPORTCHANNEL, a name read with the message parser, in opts_loop)
UNMODELLED_OPTIONS = []


def mk_option(code, data):
    """the option object for (code, to_wire() octets): the class registered for the code when it accepts the
    octets and renders them back unchanged, GenericOption otherwise"""
    data = bytes(data)
    if int(code) in SPECIAL_OPTIONS and int(code) not in UNMODELLED_OPTIONS:
        try:
            o = dns.edns.option_from_wire(code, data, 0, len(data))
            if bytes(o.to_wire()) == data:
                return o
        except Exception:  # noqa
            pass
    return dns.edns.GenericOption(code, data)


UTF8_GOOD = [b"", b"en", b"mailto:abuse@example.net", "caf\u00e9".encode(), "\u4e2d\u6587".encode(),
             "\U0001f600".encode(), b"\xef\xbf\xbf", b"\xf4\x8f\xbf\xbf", b"\xed\x9f\xbf", b"\xee\x80\x80",
             b"\xe0\xa0\x80", b"\xf0\x90\x80\x80", b"a\x00b", b"\xc2\x80"]
UTF8_BAD = [b"\xff", b"\xc0\x80", b"\xc1\xbf", b"\xed\xa0\x80", b"\xed\xbf\xbf", b"\xf4\x90\x80\x80", b"\xf5\x80\x80\x80",
            b"\xe0\x9f\xbf", b"\xf0\x8f\xbf\xbf", b"\xc3", b"\xe2\x82", b"\xf0\x9f\x98", b"\x80", b"a\xbf", b"\xc3\x28",
            b"\xe2\x28\xa1", b"\xe2\x82\x28", b"\xf0\x28\x8c\xbc", b"\xf0\x90\x28\xbc", b"\xf0\x90\x8c\x28", b"\xf8\x88\x80\x80\x80"]


def gen_special_option(rng, valid=True):
    """(code, octets) for an option code with a class of its own; valid=False: octets the class must reject
    (or, for EDE/ECS, accepts in a non-normal spelling)"""
    code = rng.choice([3, 8, 10, 15, 22, 23, 24, 25])
    rb = lambda n: bytes(rng.randrange(256) for _ in range(n))
    if code == 3:
        return [3, rb(rng.choice([0, 1, 5, 20]))]
    if code == 10:
        if valid:
            return [10, rb(rng.choice([8, 16, 17, 24, 40]))]
        return [10, rb(rng.choice([0, 7, 9, 15, 41, 64]))]
    if code in (22, 23, 24, 25):
        return [code, rng.choice(UTF8_GOOD if valid else UTF8_BAD)]
    if code == 15:
        info = struct.pack("!H", rng.choice([0, 1, 18, 24, 49, 65535, rng.randrange(65536)]))
        if valid:
            t = rng.choice(UTF8_GOOD)
            while t.endswith(b"\x00"):
                t = t[:-1]
            return [15, info + t]
        r = rng.random()
        if r < 0.3:
            return [15, rng.choice([b"", b"\x00"])]
        if r < 0.65:
            return [15, info + rng.choice(UTF8_GOOD) + b"\x00" * rng.choice([1, 2, 5])]
        return [15, info + rng.choice(UTF8_BAD) + b"\x00" * rng.choice([0, 1])]
    # ECS
    family = rng.choice([1, 2])
    bits = 32 if family == 1 else 128
    src = rng.choice([0, 1, 7, 8, 9, 24, 31, 32, 56, 64, 127, 128, rng.randrange(129)])
    src = min(src, bits)
    scope = rng.choice([0, 0, src, rng.randrange(bits + 1)])
    n = (src + 7) // 8
    prefix = bytearray(rb(n))
    if src % 8 and valid:
        prefix[-1] &= (0xFF << (8 - src % 8)) & 0xFF
    if valid:
        return [8, struct.pack("!HBB", family, src, scope) + bytes(prefix)]
    r = rng.random()
    if r < 0.2:
        if n:
            prefix[-1] |= 1      # accepted, but stored masked
        return [8, struct.pack("!HBB", family, src, scope) + bytes(prefix)]
    if r < 0.35:
        return [8, struct.pack("!HBB", rng.choice([0, 3, 256, 65535]), src, scope) + bytes(prefix)]
    if r < 0.5:
        return [8, struct.pack("!HBB", family, src, scope) + bytes(prefix) + rb(rng.choice([1, 3]))]
    if r < 0.65:
        return [8, (struct.pack("!HBB", family, src, scope) + bytes(prefix))[:-1]]
    if r < 0.8:
        s2 = rng.choice([bits + 1, 255, 129, 33])
        return [8, struct.pack("!HBB", family, s2, scope) + rb((s2 + 7) // 8)]
    return [8, struct.pack("!HBB", family, src, rng.choice([bits + 1, 255])) + bytes(prefix)]

# further types whose reader is a plain field list in the model (MessageM.schema_of):
# kind: "txt" | list of fields: int n = n fixed octets, "U" = uncompressed name, "R" = the rest, "C8" = counted string
SPF, NINFO, AVC, RESINFO, WALLET = 99, 56, 258, 261, 262
AFSDB, RT, RP, KX, PX = 18, 21, 17, 36, 26
SSHFP, TLSA, SMIMEA, CERT, DNSKEY, CDNSKEY, OPENPGPKEY = 44, 52, 53, 37, 48, 60, 61
EUI48, EUI64, L32, L64, NID, HINFO, X25, DHCID, NSAP = 108, 109, 105, 106, 104, 13, 19, 49, 22
NSEC3PARAM, URI, WKS, NAPTR = 51, 256, 11, 35
KEY, DS, DLV, CDS, ZONEMD, CAA, CSYNC, NSEC3 = 25, 43, 32769, 59, 63, 257, 62, 50
DNAME, NSEC, NSAP_PTR, BRID, HHIT = 39, 47, 23, 68, 67
LP, TKEY = 107, 249
DSYNC = 66
AMTRELAY, IPSECKEY = 260, 45
FIELD_TYPES_ANY = {
    SPF: "txt", NINFO: "txt", AVC: "txt", RESINFO: "txt", WALLET: "txt",
    AFSDB: [2, "U"], RT: [2, "U"], RP: ["U", "U"],
    SSHFP: [2, "R"], TLSA: [3, "R"], SMIMEA: [3, "R"], CERT: [5, "R"], DNSKEY: [4, "R"], CDNSKEY: [4, "R"],
    OPENPGPKEY: ["R"], EUI48: [6], EUI64: [8], L32: [2, 4], L64: [2, 8], NID: [2, 8],
    HINFO: ["C8", "C8"], X25: ["C8"], NSEC3PARAM: [4, "C8"], URI: [4, "R1"],
    KEY: [4, "R"], DS: ["ds"], DLV: ["ds"], CDS: ["cds"], ZONEMD: ["zonemd"], CAA: ["caa"],
    CSYNC: [6, "bitmap"], NSEC3: [4, "C8", "C8", "bitmap"],
    DNAME: ["X"], NSEC: ["X", "bitmap"], BRID: ["R"], HHIT: ["R"],      # "X": uncompressed name, case kept in the digest
    LP: [2, "X"], TKEY: ["X", 12, "C16", "C16"], DSYNC: [5, "X"],
    AMTRELAY: [("gw", 2, 1, 127)],     # ("gw", n, i, mask): n header octets, then nothing / IPv4 / IPv6 / a name ("X")
}


def bitmap_windows(b):
    out = []
    i = 0
    while i < len(b):
        out.append((b[i], bytes(b[i + 2 : i + 2 + b[i + 1]])))
        i += 2 + b[i + 1]
    return out


def bitmap_bytes(windows):
    return b"".join(bytes([w, len(bm)]) + bytes(bm) for w, bm in windows)
FIELD_TYPES_IN = {KX: [2, "U"], PX: [2, "U", "U"], DHCID: ["R"], NSAP: ["R"], WKS: [5, "R"],
                  NAPTR: [4, "C8", "C8", "C8", "N"], NSAP_PTR: ["X"], IPSECKEY: [("gw", 3, 1, 255), "R"]}


def field_spec(rdclass, rdtype):
    if rdclass == CH and rdtype == A:
        return ["X", 2]
    if rdtype in FIELD_TYPES_ANY:
        return FIELD_TYPES_ANY[rdtype]
    if rdclass == IN and rdtype in FIELD_TYPES_IN:
        return FIELD_TYPES_IN[rdtype]
    return None

# ------------------------------------------------------------------ exception codes


class Unmodelled(dns.exception.FormError):
    pass


_EXC = [
    (Unmodelled, 90),
    (dns.message.Truncated, 26),
    (dns.message.UnknownTSIGKey, 25),
    (dns.message.BadTSIG, 24),
    (dns.message.BadEDNS, 23),
    (dns.message.TrailingJunk, 22),
    (dns.message.ShortHeader, 21),
    (dns.exception.TooBig, 20),
    (dns.name.BadPointer, 5),
    (dns.name.BadLabelType, 6),
    (dns.name.NameTooLong, 2),
    (dns.name.LabelTooLong, 1),
    (dns.name.EmptyLabel, 3),
    (dns.name.NeedAbsoluteNameOrOrigin, 8),
    (dns.exception.FormError, 7),
    (struct.error, 101),
    (IndexError, 102),
    (ValueError, 103),
]


def exc_code(e):
    for cls, code in _EXC:
        if isinstance(e, cls):
            return Err(code, type(e).__name__)
    if isinstance(e, dns.exception.DNSException):
        return Err(98, type(e).__name__ + ":" + str(e)[:80])
    return Err(197, type(e).__name__ + ":" + str(e)[:80])


# ------------------------------------------------------------------ schema known to the model


def modelled(rdclass, rdtype):
    """does the Coq model have a reader for this (class, type)?  (generic types are modelled)"""
    if rdtype in (NS, CNAME, PTR, MX, SOA, TXT, RRSIG, SIG, TSIG, OPT):
        return True
    if rdclass == IN and rdtype in (A, AAAA, SRV):
        return True
    if field_spec(rdclass, rdtype) is not None:
        return True
    return dns.rdata.get_rdata_class(rdclass, rdtype) is dns.rdata.GenericRdata


# ------------------------------------------------------------------ abstract -> implementation


def N(labels):
    return dns.name.Name(labels)


def labels_of(n):
    return [bytes(l) for l in n.labels]


def piece_bytes(rd, i):
    p = rd[i]
    assert isinstance(p, (bytes, bytearray)), rd
    return bytes(p)


def piece_name(rd, i):
    p = rd[i]
    assert isinstance(p, list), rd
    return N(p[1])


def mk_rdata(rdclass, rdtype, rd):
    """abstract rdata -> dns.rdata.Rdata, through the class constructors (not through from_wire)"""
    cls = dns.rdata.get_rdata_class(rdclass, rdtype)
    if rdtype in (NS, CNAME, PTR):
        return cls(rdclass, rdtype, piece_name(rd, 0))
    if rdtype == MX:
        return cls(rdclass, rdtype, struct.unpack("!H", piece_bytes(rd, 0))[0], piece_name(rd, 1))
    if rdtype == SOA:
        return cls(rdclass, rdtype, piece_name(rd, 0), piece_name(rd, 1), *struct.unpack("!IIIII", piece_bytes(rd, 2)))
    if rdtype == TXT:
        b = piece_bytes(rd, 0)
        strings = []
        i = 0
        while i < len(b):
            strings.append(b[i + 1 : i + 1 + b[i]])
            i += 1 + b[i]
        return cls(rdclass, rdtype, strings)
    if rdtype in (RRSIG, SIG):
        hdr = struct.unpack("!HBBIIIH", piece_bytes(rd, 0))
        sig = piece_bytes(rd, 2) if len(rd) > 2 else b""
        return cls(rdclass, rdtype, *hdr, piece_name(rd, 1), sig)
    if rdclass == IN and rdtype == A:
        return cls(rdclass, rdtype, dns.ipv4.inet_ntoa(piece_bytes(rd, 0)))
    if rdclass == IN and rdtype == AAAA:
        return cls(rdclass, rdtype, dns.ipv6.inet_ntoa(piece_bytes(rd, 0)))
    if rdclass == IN and rdtype == SRV:
        return cls(rdclass, rdtype, *struct.unpack("!HHH", piece_bytes(rd, 0)), piece_name(rd, 1))
    spec = field_spec(rdclass, rdtype)
    if spec == "txt":
        b = piece_bytes(rd, 0)
        strings = []
        i = 0
        while i < len(b):
            strings.append(b[i + 1 : i + 1 + b[i]])
            i += 1 + b[i]
        return cls(rdclass, rdtype, strings)
    if spec is not None:
        pb = lambda i: piece_bytes(rd, i)  # noqa
        if rdtype in (AFSDB, RT, KX):
            return cls(rdclass, rdtype, struct.unpack("!H", pb(0))[0], piece_name(rd, 1))
        if rdtype == RP:
            return cls(rdclass, rdtype, piece_name(rd, 0), piece_name(rd, 1))
        if rdtype == PX:
            return cls(rdclass, rdtype, struct.unpack("!H", pb(0))[0], piece_name(rd, 1), piece_name(rd, 2))
        if rdtype == SSHFP:
            return cls(rdclass, rdtype, pb(0)[0], pb(0)[1], pb(1))
        if rdtype in (TLSA, SMIMEA):
            return cls(rdclass, rdtype, pb(0)[0], pb(0)[1], pb(0)[2], pb(1))
        if rdtype == CERT:
            return cls(rdclass, rdtype, *struct.unpack("!HHB", pb(0)), pb(1))
        if rdtype in (DNSKEY, CDNSKEY, KEY):
            return cls(rdclass, rdtype, *struct.unpack("!HBB", pb(0)), pb(1))
        if rdtype in (DS, DLV, CDS):
            return cls(rdclass, rdtype, *struct.unpack("!HBB", pb(0)[:4]), pb(0)[4:])
        if rdtype == ZONEMD:
            return cls(rdclass, rdtype, *struct.unpack("!IBB", pb(0)[:6]), pb(0)[6:])
        if rdtype == CAA:
            b = pb(0)
            return cls(rdclass, rdtype, b[0], b[2 : 2 + b[1]], b[2 + b[1] :])
        if rdtype == CSYNC:
            return cls(rdclass, rdtype, *struct.unpack("!IH", pb(0)), bitmap_windows(pb(1)))
        if rdtype == NSEC3:
            return cls(rdclass, rdtype, *struct.unpack("!BBH", pb(0)), pb(1)[1:], pb(2)[1:], bitmap_windows(pb(3)))
        if rdclass == CH and rdtype == A:
            return cls(rdclass, rdtype, piece_name(rd, 0), struct.unpack("!H", pb(1))[0])
        if rdtype in (DNAME, NSAP_PTR):
            return cls(rdclass, rdtype, piece_name(rd, 0))
        if rdtype == NSEC:
            return cls(rdclass, rdtype, piece_name(rd, 0), bitmap_windows(pb(1)))
        if rdtype == LP:
            return cls(rdclass, rdtype, struct.unpack("!H", pb(0))[0], piece_name(rd, 1))
        if rdtype == DSYNC:
            return cls(rdclass, rdtype, *struct.unpack("!HBH", pb(0)), piece_name(rd, 1))
        if rdtype in (AMTRELAY, IPSECKEY):
            hdr = pb(0)
            gt = hdr[1] & (127 if rdtype == AMTRELAY else 255)
            k = 1
            gw = None
            if gt in (1, 2):
                gw = (dns.ipv4 if gt == 1 else dns.ipv6).inet_ntoa(pb(1))
                k = 2
            elif gt == 3:
                gw = piece_name(rd, 1)
                k = 2
            if rdtype == AMTRELAY:
                return cls(rdclass, rdtype, hdr[0], bool(hdr[1] >> 7), gt, gw)
            return cls(rdclass, rdtype, hdr[0], gt, hdr[2], gw, pb(k) if len(rd) > k else b"")
        if rdtype == TKEY:
            return cls(rdclass, rdtype, piece_name(rd, 0), *struct.unpack("!IIHH", pb(1)), pb(2)[2:], pb(3)[2:])
        if rdtype in (OPENPGPKEY, DHCID, NSAP, EUI48, EUI64, BRID, HHIT):
            return cls(rdclass, rdtype, pb(0))
        if rdtype == L32:
            return cls(rdclass, rdtype, struct.unpack("!H", pb(0))[0], dns.ipv4.inet_ntoa(pb(1)))
        if rdtype in (L64, NID):
            return cls(rdclass, rdtype, struct.unpack("!H", pb(0))[0], pb(1))
        if rdtype == HINFO:
            return cls(rdclass, rdtype, pb(0)[1:], pb(1)[1:])
        if rdtype == X25:
            return cls(rdclass, rdtype, pb(0)[1:])
        if rdtype == NSEC3PARAM:
            return cls(rdclass, rdtype, *struct.unpack("!BBH", pb(0)), pb(1)[1:])
        if rdtype == URI:
            return cls(rdclass, rdtype, *struct.unpack("!HH", pb(0)), pb(1))
        if rdtype == WKS:
            return cls(rdclass, rdtype, dns.ipv4.inet_ntoa(pb(0)[:4]), pb(0)[4], pb(1))
        if rdtype == NAPTR:
            return cls(rdclass, rdtype, *struct.unpack("!HH", pb(0)), pb(1)[1:], pb(2)[1:], pb(3)[1:], piece_name(rd, 4))
        raise AssertionError((rdclass, rdtype))
    assert cls is dns.rdata.GenericRdata, (rdclass, rdtype)
    return dns.rdata.GenericRdata(rdclass, rdtype, b"".join(bytes(p) for p in rd))


def mk_rrset(rs):
    name, rdclass, rdtype, covers, deleting, ttl, rds = rs
    r = dns.rrset.RRset(N(name), rdclass, rdtype, covers, deleting)
    # the rdata class is the rrset's class (for update deletes the zone class)
    for rd in rds:
        r.add(mk_rdata(rdclass, rdtype, rd), ttl)
    if not rds:
        r.ttl = ttl
    return r


def mk_tsig_rdata(rd):
    """[ [1, alg], rest ] -> TSIG rdata"""
    alg = piece_name(rd, 0)
    b = b"".join(bytes(p) for p in rd[1:])
    hi, lo, fudge, maclen = struct.unpack("!HIHH", b[:10])
    mac = b[10 : 10 + maclen]
    oid, err, olen = struct.unpack("!HHH", b[10 + maclen : 16 + maclen])
    other = b[16 + maclen :]
    assert len(other) == olen
    import dns.rdtypes.ANY.TSIG as T

    return T.TSIG(ANY, TSIG, alg, (hi << 32) | lo, fudge, mac, oid, err, other)


def mk_message(am, pad=0, request_payload=None):
    mid, flags, secs, opt, tsig = am
    opcode = dns.opcode.from_flags(flags)
    factory = dns.message._message_factory_from_opcode(opcode)
    m = factory(id=mid)
    m.flags = flags
    for i in range(4):
        m.sections[i] = [mk_rrset(rs) for rs in secs[i]]
    if opt is not None:
        ttl, payload, options = opt
        ol = [mk_option(c, d) for c, d in options]
        m.use_edns(edns=(ttl >> 16) & 0xFF, ednsflags=ttl, payload=payload, options=ol, pad=pad,
                   request_payload=request_payload if request_payload is not None else 0)
        assert m.opt.ttl == ttl
    elif request_payload:
        m.request_payload = request_payload
    if tsig is not None:
        kn, rd = tsig
        m.tsig = dns.rrset.from_rdata(N(kn), 0, mk_tsig_rdata(rd))
    return m


# ------------------------------------------------------------------ implementation -> abstract


def merge(pieces):
    out = []
    for p in pieces:
        if isinstance(p, (bytes, bytearray)):
            if len(p) == 0:
                continue
            if out and isinstance(out[-1], bytes):
                out[-1] = out[-1] + bytes(p)
            else:
                out.append(bytes(p))
        else:
            out.append(p)
    return out


def rdata_pieces(rd):
    """field-shaped pieces (one piece per field of the reader's schema, not merged)"""
    t = int(rd.rdtype)
    c = int(rd.rdclass)
    if isinstance(rd, dns.rdata.GenericRdata):
        return [bytes(rd.data)]
    if t in (NS, CNAME, PTR):
        return [[0, labels_of(rd.target)]]
    if t == MX:
        return [struct.pack("!H", rd.preference), [0, labels_of(rd.exchange)]]
    if t == SOA:
        return [[0, labels_of(rd.mname)], [0, labels_of(rd.rname)],
                struct.pack("!IIIII", rd.serial, rd.refresh, rd.retry, rd.expire, rd.minimum)]
    if t == TXT:
        return [b"".join(bytes([len(s)]) + s for s in rd.strings)]
    if t in (RRSIG, SIG):
        return [struct.pack("!HBBIIIH", rd.type_covered, rd.algorithm, rd.labels, rd.original_ttl,
                            rd.expiration, rd.inception, rd.key_tag),
                [1, labels_of(rd.signer)], bytes(rd.signature)]
    if t == TSIG:
        return [[1, labels_of(rd.algorithm)],
                struct.pack("!HIH", (rd.time_signed >> 32) & 0xFFFF, rd.time_signed & 0xFFFFFFFF, rd.fudge),
                struct.pack("!H", len(rd.mac)) + rd.mac,
                struct.pack("!H", rd.original_id), struct.pack("!H", rd.error),
                struct.pack("!H", len(rd.other)) + rd.other]
    if c == IN and t == A:
        return [dns.ipv4.inet_aton(rd.address)]
    if c == IN and t == AAAA:
        return [dns.ipv6.inet_aton(rd.address)]
    if c == IN and t == SRV:
        return [struct.pack("!HHH", rd.priority, rd.weight, rd.port), [0, labels_of(rd.target)]]
    spec = field_spec(c, t)
    if spec == "txt":
        return [b"".join(bytes([len(x)]) + x for x in rd.strings)]
    if spec is not None:
        if t in (AFSDB, RT, KX):
            return [struct.pack("!H", rd.preference), [1, labels_of(rd.exchange)]]
        if t == RP:
            return [[1, labels_of(rd.mbox)], [1, labels_of(rd.txt)]]
        if t == PX:
            return [struct.pack("!H", rd.preference), [1, labels_of(rd.map822)], [1, labels_of(rd.mapx400)]]
        if t == SSHFP:
            return [bytes([rd.algorithm, rd.fp_type]), bytes(rd.fingerprint)]
        if t in (TLSA, SMIMEA):
            return [bytes([rd.usage, rd.selector, rd.mtype]), bytes(rd.cert)]
        if t == CERT:
            return [struct.pack("!HHB", rd.certificate_type, rd.key_tag, rd.algorithm), bytes(rd.certificate)]
        if t in (DNSKEY, CDNSKEY, KEY):
            return [struct.pack("!HBB", int(rd.flags), rd.protocol, int(rd.algorithm)), bytes(rd.key)]
        if t in (DS, DLV, CDS):
            return [struct.pack("!HBB", rd.key_tag, int(rd.algorithm), int(rd.digest_type)) + bytes(rd.digest)]
        if t == ZONEMD:
            return [struct.pack("!IBB", rd.serial, int(rd.scheme), int(rd.hash_algorithm)) + bytes(rd.digest)]
        if t == CAA:
            return [bytes([rd.flags, len(rd.tag)]) + bytes(rd.tag) + bytes(rd.value)]
        if t == CSYNC:
            return [struct.pack("!IH", rd.serial, rd.flags), bitmap_bytes(rd.windows)]
        if t == NSEC3:
            return [struct.pack("!BBH", rd.algorithm, rd.flags, rd.iterations), bytes([len(rd.salt)]) + rd.salt,
                    bytes([len(rd.next)]) + rd.next, bitmap_bytes(rd.windows)]
        if c == CH and t == A:
            return [[2, labels_of(rd.domain)], struct.pack("!H", rd.address)]
        if t in (DNAME, NSAP_PTR):
            return [[2, labels_of(rd.target)]]
        if t == NSEC:
            return [[2, labels_of(rd.next)], bitmap_bytes(rd.windows)]
        if t == LP:
            return [struct.pack("!H", rd.preference), [2, labels_of(rd.fqdn)]]
        if t == DSYNC:
            return [struct.pack("!HBH", int(rd.rrtype), int(rd.scheme), rd.port), [2, labels_of(rd.target)]]
        if t in (AMTRELAY, IPSECKEY):
            if t == AMTRELAY:
                gt, gw = rd.relay_type, rd.relay
                out = [bytes([rd.precedence, gt | (int(rd.discovery_optional) << 7)])]
            else:
                gt, gw = rd.gateway_type, rd.gateway
                out = [bytes([rd.precedence, gt, rd.algorithm])]
            if gt == 1:
                out.append(dns.ipv4.inet_aton(gw))
            elif gt == 2:
                out.append(dns.ipv6.inet_aton(gw))
            elif gt == 3:
                out.append([2, labels_of(gw)])
            if t == IPSECKEY:
                out.append(bytes(rd.key))
            return out
        if t == TKEY:
            return [[2, labels_of(rd.algorithm)], struct.pack("!IIHH", rd.inception, rd.expiration, rd.mode, rd.error),
                    struct.pack("!H", len(rd.key)) + rd.key, struct.pack("!H", len(rd.other)) + rd.other]
        if t == OPENPGPKEY:
            return [bytes(rd.key)]
        if t in (BRID, HHIT):
            return [bytes(rd.value)]
        if t == DHCID:
            return [bytes(rd.data)]
        if t == NSAP:
            return [bytes(rd.address)]
        if t in (EUI48, EUI64):
            return [bytes(rd.eui)]
        if t == L32:
            return [struct.pack("!H", rd.preference), dns.ipv4.inet_aton(rd.locator32)]
        if t == L64:
            return [struct.pack("!H", rd.preference), bytes.fromhex(rd.locator64.replace(":", ""))]
        if t == NID:
            return [struct.pack("!H", rd.preference), bytes.fromhex(rd.nodeid.replace(":", ""))]
        if t == HINFO:
            return [bytes([len(rd.cpu)]) + rd.cpu, bytes([len(rd.os)]) + rd.os]
        if t == X25:
            return [bytes([len(rd.address)]) + rd.address]
        if t == NSEC3PARAM:
            return [struct.pack("!BBH", rd.algorithm, rd.flags, rd.iterations), bytes([len(rd.salt)]) + rd.salt]
        if t == URI:
            return [struct.pack("!HH", rd.priority, rd.weight), bytes(rd.target)]
        if t == WKS:
            return [dns.ipv4.inet_aton(rd.address) + bytes([rd.protocol]), bytes(rd.bitmap)]
        if t == NAPTR:
            return [struct.pack("!HH", rd.order, rd.preference), bytes([len(rd.flags)]) + rd.flags,
                    bytes([len(rd.service)]) + rd.service, bytes([len(rd.regexp)]) + rd.regexp,
                    [0, labels_of(rd.replacement)]]
    raise Unmodelled(f"{c}/{t}")


def rrset_abs(r):
    return [labels_of(r.name), int(r.rdclass), int(r.rdtype), int(r.covers),
            None if r.deleting is None else int(r.deleting), int(r.ttl), [rdata_pieces(rd) for rd in r]]


def message_abs(m):
    opt = None
    if m.opt is not None:
        rd = m.opt[0]
        opt = [int(m.opt.ttl), int(m.opt.rdclass), [[int(o.otype), bytes(o.to_wire())] for o in rd.options]]
    tsig = None
    if m.tsig is not None:
        tsig = [labels_of(m.tsig.name), rdata_pieces(m.tsig[0])]
    return [int(m.id), int(m.flags), [[rrset_abs(r) for r in s] for s in m.sections], opt, tsig]


# ------------------------------------------------------------------ runners

_orig_get_rdata_class = dns.rdata.get_rdata_class
_orig_get_option_class = dns.edns.get_option_class
_touched = [False]


def _patched_get_rdata_class(rdclass, rdtype, use_generic=True):
    cls = _orig_get_rdata_class(rdclass, rdtype, use_generic)
    if _touched[0] is not None and cls is not dns.rdata.GenericRdata and not modelled_fast(int(rdclass), int(rdtype)):
        _touched[0] = True
        raise Unmodelled(f"{rdclass}/{rdtype}")
    return cls


def modelled_fast(c, t):
    return (t in (NS, CNAME, PTR, MX, SOA, TXT, RRSIG, SIG, TSIG, OPT) or (c == IN and t in (A, AAAA, SRV))
            or field_spec(c, t) is not None)


def _patched_get_option_class(otype):
    if _touched[0] is not None and int(otype) in UNMODELLED_OPTIONS:
        _touched[0] = True
        raise Unmodelled(f"option {otype}")
    return _orig_get_option_class(otype)


def run_parse(wire, origin, po):
    """dns.message.from_wire with the option bits of the model; result in abstract form"""
    _touched[0] = False
    dns.rdata.get_rdata_class = _patched_get_rdata_class
    dns.edns.get_option_class = _patched_get_option_class
    try:
        try:
            m = dns.message.from_wire(
                bytes(wire),
                keyring=False if po & 16 else None,
                xfr=bool(po & 8),
                origin=None if origin is None else N(origin),
                question_only=bool(po & 4),
                one_rr_per_rrset=bool(po & 1),
                ignore_trailing=bool(po & 2),
                raise_on_truncation=bool(po & 32),
            )
        except Exception as e:  # noqa
            if _touched[0]:
                return Err(90, "unmodelled codec reached")
            return exc_code(e)
        if _touched[0]:
            return Err(90, "unmodelled codec reached")
        return message_abs(m)
    finally:
        _touched[0] = None
        dns.rdata.get_rdata_class = _orig_get_rdata_class
        dns.edns.get_option_class = _orig_get_option_class


_touched[0] = None


def run_render(am, origin, max_size, reqp, prefer, pad):
    try:
        m = mk_message(am, pad=pad, request_payload=reqp)
        return m.to_wire(origin=None if origin is None else N(origin), max_size=max_size,
                         prefer_truncation=bool(prefer), want_shuffle=False)
    except Exception as e:  # noqa
        return exc_code(e)


def run_rseq(origin, mid, flags, max_size, ops):
    """low-level dns.renderer.Renderer calls; TooBig is caught and the sequence continues"""
    try:
        r = dns.renderer.Renderer(id=mid, flags=flags, max_size=max_size, origin=None if origin is None else N(origin))
    except Exception as e:  # noqa
        return exc_code(e)
    res = []
    for op in ops:
        try:
            if op[0] == 0:
                r.add_question(N(op[1]), op[2], op[3])
            elif op[0] == 10:
                r.reserve(op[1])
            elif op[0] == 11:
                r.release_reserved()
            elif op[0] == 12:
                ttl, payload, options = op[1]
                r.add_opt(dns.renderer._make_opt(ttl, payload, [mk_option(c, d) for c, d in options]),
                          op[2], op[3], op[4])
            elif op[0] == 13:
                r.write_header()
            elif op[0] == 14:
                r._write_tsig(mk_tsig_rdata(op[2]), N(op[1]))
            else:
                r.add_rrset(op[0], mk_rrset(op[1]), want_shuffle=False)
            res.append(0)
        except dns.exception.TooBig:
            res.append(1)
        except Exception as e:  # noqa
            res.append(exc_code(e))
            break
        # what reserve() takes from the budget is exactly what release_reserved() gives back
        if r.max_size + r.reserved != max_size:
            res.append(99)
            break
    try:
        r.write_header()
        w = r.get_wire()
    except Exception as e:  # noqa
        w = exc_code(e)
    return [res, w]


# ------------------------------------------------------------------ independent wire walker


class WalkError(Exception):
    pass


def walk_name(wire, off, label_starts):
    """decode a possibly compressed name at off.  Independent of dns.name: returns
    (labels, next offset, [(pointer offset, target)...], [(label offset)...] literal label starts)"""
    labels = []
    ptrs = []
    lits = []
    nxt = None
    seen = 0
    cur = off
    while True:
        if cur >= len(wire):
            raise WalkError("name runs off the end")
        c = wire[cur]
        if c == 0:
            labels.append(b"")
            lits.append(cur)
            if nxt is None:
                nxt = cur + 1
            return labels, nxt, ptrs, lits
        if c < 64:
            if cur + 1 + c > len(wire):
                raise WalkError("label runs off the end")
            labels.append(bytes(wire[cur + 1 : cur + 1 + c]))
            lits.append(cur)
            cur += 1 + c
        elif c >= 192:
            if cur + 1 >= len(wire):
                raise WalkError("pointer runs off the end")
            tgt = ((c & 0x3F) << 8) | wire[cur + 1]
            ptrs.append((cur, tgt))
            if nxt is None:
                nxt = cur + 2
            seen += 1
            if seen > len(wire):
                raise WalkError("pointer loop")
            cur = tgt
        else:
            raise WalkError("bad label type")


NAME_FIELDS = {NS: ["n"], CNAME: ["n"], PTR: ["n"], MX: [2, "n"], SOA: ["n", "n", 20], SRV: [6, "n"],
               RRSIG: [18, "n", None], SIG: [18, "n", None], TSIG: ["n", None],
               AFSDB: [2, "n"], RT: [2, "n"], RP: ["n", "n"], KX: [2, "n"], PX: [2, "n", "n"],
               NAPTR: [4, "c8", "c8", "c8", "n"], DNAME: ["n"], NSAP_PTR: ["n"], NSEC: ["n", None],
               LP: [2, "n"], TKEY: ["n", None], DSYNC: [5, "n"],
               AMTRELAY: [("gw", 2, 1, 127)], IPSECKEY: [("gw", 3, 1, 255), None]}
IN_ONLY_NAME_TYPES = (SRV, KX, PX, NAPTR, NSAP_PTR, IPSECKEY)


def name_fields(rdclass, rdtype):
    """where the names sit inside the RDATA of (class, type); None: no names"""
    if rdclass == CH and rdtype == A:
        return ["n", 2]
    if rdtype in NAME_FIELDS and (rdclass == IN or rdtype not in IN_ONLY_NAME_TYPES):
        return NAME_FIELDS[rdtype]
    return None


def walk(wire):
    """Walk a whole message.  Returns dict(counts, rrs=[(section, owner labels, type, class, ttl, rdata names...)],
    names=[(offset, labels)], ptrs=[(ptr offset, target)], end)"""
    if len(wire) < 12:
        raise WalkError("short")
    mid, flags, qd, an, au, ad = struct.unpack("!HHHHHH", wire[:12])
    off = 12
    names = []
    ptrs = []
    rrs = []
    starts = set()

    def name_at(o):
        labels, nxt, ps, lits = walk_name(wire, o, starts)
        names.append((o, labels, ps, lits))
        for p in ps:
            ptrs.append(p)
        return labels, nxt

    zone_class = None
    for _ in range(qd):
        labels, off = name_at(off)
        if off + 4 > len(wire):
            raise WalkError("question runs off the end")
        t, c = struct.unpack("!HH", wire[off : off + 4])
        off += 4
        if zone_class is None and (flags >> 11) & 0xF == 5:
            zone_class = c
        rrs.append((0, labels, t, c, None, None, []))
    for sec, cnt in ((1, an), (2, au), (3, ad)):
        for _ in range(cnt):
            rr_off = off
            labels, off = name_at(off)
            if off + 10 > len(wire):
                raise WalkError("rr header runs off the end")
            t, c, ttl, rdlen = struct.unpack("!HHIH", wire[off : off + 10])
            off += 10
            if off + rdlen > len(wire):
                raise WalkError("rdata runs off the end")
            rnames = []
            ec = zone_class if (zone_class is not None and c in (ANY, NONE)) else c   # update deletes
            if rdlen > 0 and name_fields(ec, t) is not None:
                o = off
                for f in name_fields(ec, t):
                    if f == "n":
                        ls, o = name_at(o)
                        rnames.append(ls)
                    elif f is None:
                        break
                    elif isinstance(f, tuple):
                        if o + f[1] > off + rdlen:
                            raise WalkError("gateway header runs off the rdata")
                        gt = wire[o + f[2]] & f[3]
                        o += f[1]
                        if gt == 1:
                            o += 4
                        elif gt == 2:
                            o += 16
                        elif gt == 3:
                            ls, o = name_at(o)
                            rnames.append(ls)
                    elif f == "c8":
                        if o >= off + rdlen:
                            raise WalkError("counted string runs off the rdata")
                        o += 1 + wire[o]
                    else:
                        o += f
            rrs.append((sec, labels, t, c, ttl, (off, rdlen), rnames, rr_off))
            off += rdlen
    return {"id": mid, "flags": flags, "counts": (qd, an, au, ad), "rrs": rrs, "names": names, "ptrs": ptrs, "end": off}


def lower(b):
    return bytes(c + 32 if 65 <= c <= 90 else c for c in b)


def check_pointers(wire):
    """Every compression pointer must target the start of a label of a name that was emitted
    earlier (strictly before the pointer) -- i.e. an earlier occurrence of that suffix.
    Returns a list of problems (strings)."""
    probs = []
    try:
        w = walk(wire)
    except WalkError as e:
        return ["walker: " + str(e)]
    lit_starts = set()
    for o, labels, ps, lits in w["names"]:
        for (p, tgt) in ps:
            if tgt >= p:
                probs.append(f"pointer at {p} targets {tgt} (not earlier)")
            elif tgt not in lit_starts:
                probs.append(f"pointer at {p} targets {tgt} which is not the start of an earlier label")
        # labels physically written for this name: those at offsets >= o (before the first pointer)
        for l in lits:
            if l >= o:
                lit_starts.add(l)
    return probs


# ------------------------------------------------------------------ generators

ALGS = [[b"hmac-sha256", b""], [b"hmac-md5", b"sig-alg", b"reg", b"int", b""], [b"HMAC-SHA512", b""]]


def gen_label(rng, maxlen=12):
    r = rng.random()
    if r < 0.55:
        n = rng.randint(1, min(8, maxlen))
        return bytes(rng.choice(b"abcdexyzABCDEXYZ019-_") for _ in range(n))
    if r < 0.7:
        return rng.choice([b"www", b"mail", b"ns1", b"ns2", b"a", b"WWW", b"Mail", b"_tcp", b"*"])[:maxlen]
    if r < 0.8:
        n = rng.randint(1, min(5, maxlen))
        return bytes(rng.randrange(256) for _ in range(n))
    if r < 0.9:
        return bytes([rng.choice(b"aZ@[`{.\\\x00\xff")]) * rng.randint(1, min(3, maxlen))
    n = min(maxlen, rng.choice([63, 62, 40, 20]))
    return bytes([rng.choice(b"abAB")]) * max(1, n)


def case_variant(rng, labels):
    out = []
    for l in labels:
        r = rng.random()
        if r < 0.5:
            out.append(l)
        elif r < 0.7:
            out.append(l.upper())
        elif r < 0.9:
            out.append(l.lower())
        else:
            out.append(bytes(c ^ 0x20 if (65 <= c <= 90 or 97 <= c <= 122) and rng.random() < 0.5 else c for c in l))
    return out


def wire_len(labels):
    return sum(len(l) + 1 for l in labels)


class NamePool:
    """names sharing suffixes in many patterns; everything under `origin` when one is given"""

    def __init__(self, rng, origin=None, big=False):
        self.rng = rng
        self.origin = origin
        self.bases = []
        nb = rng.randint(1, 4)
        tlds = [[b"com"], [b"org"], [b"example"], [b"co", b"uk"], [b"COM"], [b"net"]]
        for _ in range(nb):
            tld = rng.choice(tlds)
            mid = [gen_label(rng) for _ in range(rng.choice([0, 1, 1, 1, 2, 3]))]
            self.bases.append(mid + tld + [b""])
        if origin is not None:
            self.bases.append(list(origin))
            self.bases.append(list(origin))
        self.names = []

    def absolute(self):
        """an absolute name; below the origin the origin labels are spelled exactly as in the origin
        (relativize/derelativize does not preserve the case of the origin part)"""
        n = self._absolute()
        o = self.origin
        if o is not None and len(n) >= len(o) and [lower(x) for x in n[-len(o):]] == [lower(x) for x in o]:
            n = n[: -len(o)] + list(o)
        return n

    def _absolute(self):
        rng = self.rng
        r = rng.random()
        if self.names and r < 0.25:
            n = rng.choice(self.names)
            if rng.random() < 0.4:
                n = case_variant(rng, n)
            return n
        if r < 0.3:
            return [b""]
        base = rng.choice(self.bases)
        if rng.random() < 0.35:
            base = case_variant(rng, base)
        if self.names and rng.random() < 0.3:
            # a proper suffix of an existing name
            o = rng.choice(self.names)
            base = o[rng.randrange(len(o)) :]
        pre = [gen_label(rng, 63) for _ in range(rng.choice([0, 1, 1, 2, 2, 3, 5]))]
        n = pre + base
        while wire_len(n) > 255:
            n = n[1:]
        self.names.append(n)
        return n

    def name(self):
        """absolute, or relative to the origin when there is one"""
        n = self.absolute()
        o = self.origin
        if o is not None and self.rng.random() < 0.8:
            k = len(o)
            if len(n) >= k and [lower(x) for x in n[-k:]] == [lower(x) for x in o]:
                return n[:-k]
        return n


def gen_rdata(rng, pool, rdclass, rdtype):
    def nm():
        return pool.name()

    if rdtype in (NS, CNAME, PTR):
        return [[0, nm()]]
    if rdtype == MX:
        return [struct.pack("!H", rng.choice([0, 10, 65535, rng.randrange(65536)])), [0, nm()]]
    if rdtype == SOA:
        return [[0, nm()], [0, nm()], struct.pack("!IIIII", *[rng.choice([0, 1, 2**32 - 1, rng.randrange(2**32)]) for _ in range(5)])]
    if rdtype == TXT:
        k = rng.choice([1, 1, 1, 2, 3])
        b = b""
        for _ in range(k):
            n = rng.choice([0, 1, 5, 20, 255, rng.randrange(256)])
            b += bytes([n]) + bytes(rng.randrange(256) for _ in range(n))
        return [b]
    if rdtype in (RRSIG, SIG):
        covered = rng.choice([A, NS, MX, SOA, TXT, 65280])
        hdr = struct.pack("!HBBIIIH", covered, rng.randrange(256), rng.randrange(8), rng.randrange(2**32),
                          rng.randrange(2**32), rng.randrange(2**32), rng.randrange(65536))
        sig = bytes(rng.randrange(256) for _ in range(rng.choice([0, 1, 16, 64])))
        return [hdr, [1, nm()], sig]
    if rdclass == IN and rdtype == A:
        return [bytes(rng.randrange(256) for _ in range(4))]
    if rdclass == IN and rdtype == AAAA:
        return [bytes(rng.randrange(256) for _ in range(16))]
    if rdclass == IN and rdtype == SRV:
        return [struct.pack("!HHH", rng.randrange(65536), rng.randrange(65536), rng.randrange(65536)), [0, nm()]]
    spec = field_spec(rdclass, rdtype)
    if spec == "txt":
        k = rng.choice([1, 1, 2, 3])
        b = b""
        for _ in range(k):
            n = rng.choice([0, 1, 5, 20, 255, rng.randrange(256)])
            b += bytes([n]) + bytes(rng.randrange(256) for _ in range(n))
        return [b]
    if spec is not None:
        out = []
        for f in spec:
            if isinstance(f, int):
                out.append(bytes(rng.choice([0, 255, rng.randrange(256)]) for _ in range(f)))
            elif f == "U":
                out.append([1, nm()])
            elif f == "N":
                out.append([0, nm()])
            elif f == "X":
                out.append([2, nm()])
            elif isinstance(f, tuple):
                _, n, i, mask = f
                gt = rng.choice([0, 1, 2, 3, 3])
                hdr = bytearray(rng.randrange(256) for _ in range(n))
                hdr[i] = (hdr[i] & ~mask & 0xFF) | gt
                out.append(bytes(hdr))
                if gt == 1:
                    out.append(bytes(rng.randrange(256) for _ in range(4)))
                elif gt == 2:
                    out.append(bytes(rng.randrange(256) for _ in range(16)))
                elif gt == 3:
                    out.append([2, nm()])
            elif f == "C16":
                n = rng.choice([0, 1, 16, 300])
                out.append(struct.pack("!H", n) + bytes(rng.randrange(256) for _ in range(n)))
            elif f == "R1":
                out.append(bytes(rng.randrange(256) for _ in range(rng.choice([1, 2, 20, 70]))))
            elif f in ("ds", "cds"):
                dt = rng.choice([1, 2, 3, 4, 5, 200] + ([0] if f == "cds" else []))
                n = {0: 1, 1: 20, 2: 32, 3: 32, 4: 48}.get(dt, rng.choice([0, 7, 32]))
                out.append(struct.pack("!HBB", rng.randrange(65536), rng.randrange(256), dt) + bytes(rng.randrange(256) for _ in range(n)))
            elif f == "zonemd":
                ha = rng.choice([1, 2, 3, 240])
                n = {1: 48, 2: 64}.get(ha, rng.choice([0, 12, 40]))
                out.append(struct.pack("!IBB", rng.randrange(2**32), rng.choice([1, 2, 255]), ha) + bytes(rng.randrange(256) for _ in range(n)))
            elif f == "caa":
                tag = bytes(rng.choice(b"abcXYZ019issuewild") for _ in range(rng.choice([1, 5, 12])))
                out.append(bytes([rng.choice([0, 128, 255]), len(tag)]) + tag + bytes(rng.randrange(256) for _ in range(rng.choice([0, 3, 30]))))
            elif f == "bitmap":
                ws = sorted(rng.sample(range(256), rng.choice([0, 1, 2, 4])))
                out.append(bitmap_bytes([(w, bytes(rng.randrange(256) for _ in range(rng.choice([1, 2, 32])))) for w in ws]))
            elif f == "R":
                out.append(bytes(rng.randrange(256) for _ in range(rng.choice([0, 1, 4, 20, 33, 70]))))
            elif f == "C8":
                n = rng.choice([0, 1, 6, 255, rng.randrange(256)])
                out.append(bytes([n]) + bytes(rng.randrange(256) for _ in range(n)))
        return out
    n = rng.choice([0, 1, 2, 7, 30, rng.randrange(100)])
    return [bytes(rng.randrange(256) for _ in range(n))]


FIELD_TYPES_ALL = sorted(FIELD_TYPES_ANY) + sorted(FIELD_TYPES_IN)
GENERIC_TYPES = [65280, 65534, 3, 4, 10, 31, 30, 100, 254, 255, 40, 65535, 0]
TYPES_IN = [A, A, NS, CNAME, SOA, PTR, MX, MX, TXT, AAAA, SRV, RRSIG, RRSIG, NS, SIG]
TTL_CHOICES = [0, 1, 300, 3600, 86400, 2**31 - 1]


def rd_key(rd, origin=None):
    """equality of rdata of one type once on the wire: canonical digest with the origin appended"""
    out = []
    rel = False
    for p in rd:
        if isinstance(p, list):
            low = (lambda x: bytes(x)) if p[0] == 2 else lower     # noqa: E731  (code 2: case kept in the digest)
            ls = [low(x) for x in p[1]]
            if not ls or ls[-1] != b"":
                if origin is not None:
                    ls = ls + [low(x) for x in origin]
                else:
                    rel = True
                    ls = ls + [b""]
            out.append(b"".join(bytes([len(l)]) + l for l in ls))
        else:
            out.append(bytes(p))
    return (rel, b"".join(out))


def gen_rrset(rng, pool, rdclass=IN, types=None, used=None, section=1, fixed_class=False):
    """a non-empty rrset with distinct rdatas; `used` holds the keys already taken in the section"""
    rdclass0 = rdclass
    for _ in range(20):
        rdclass = rdclass0
        r_ = rng.random()
        if r_ < 0.15:
            rdtype = rng.choice(GENERIC_TYPES)
            if not modelled(rdclass, rdtype):
                continue
        elif r_ < 0.33 and types is None:
            rdtype = rng.choice(FIELD_TYPES_ALL)
            if rdclass == IN and not fixed_class and rng.random() < 0.06:
                rdclass, rdtype = CH, A          # Chaosnet A: a name and an address
        else:
            rdtype = rng.choice(types or TYPES_IN)
        if not modelled(rdclass, rdtype) or rdtype in (OPT, TSIG):
            continue
        name = pool.name()
        k = 1 if dns.rdatatype.is_singleton(rdtype) else rng.choice([1, 1, 1, 2, 2, 3, 5])
        rds = []
        keys = set()
        covers = 0
        for _ in range(k):
            rd = gen_rdata(rng, pool, rdclass, rdtype)
            if rdtype in (RRSIG, SIG):
                c = struct.unpack("!H", rd[0][:2])[0]
                if rds and c != covers:
                    continue
                covers = c
            kk = rd_key(rd, pool.origin)
            if kk in keys:
                continue
            keys.add(kk)
            rds.append(rd)
        full = name if (name and name[-1] == b"") or pool.origin is None else name + pool.origin
        key = (tuple(lower(l) for l in full), rdclass, rdtype, covers, None)
        if used is not None:
            if key in used:
                continue
            used.add(key)
        return [name, rdclass, rdtype, covers, None, rng.choice(TTL_CHOICES + [rng.randrange(2**31)]), rds]
    return None


def gen_opt(rng):
    if rng.random() < 0.45:
        return None
    ver = rng.choice([0, 0, 0, 1, 255, rng.randrange(256)])
    fl = rng.choice([0, 0x8000, 0x8000, rng.randrange(65536)])
    ext = rng.choice([0, 0, 1, 255, rng.randrange(256)])
    ttl = (ext << 24) | (ver << 16) | fl
    payload = rng.choice([512, 1232, 4096, 65535, 0, rng.randrange(65536)])
    options = []
    for _ in range(rng.choice([0, 0, 1, 2, 4])):
        code = rng.choice([5, 6, 7, 9, 11, 12, 13, 14, 65001, 65534, 0, rng.randrange(65536)])
        if code in SPECIAL_OPTIONS:
            continue
        n = rng.choice([0, 1, 8, 30, rng.randrange(64)])
        options.append([code, bytes(rng.randrange(256) for _ in range(n))])
    # options whose code has a class of its own (NSID, ECS, COOKIE, EDE, ...), in the octets that class renders;
    # drawn from a derived generator so that the main stream is the same with and without them
    r2 = random.Random(ttl * 65536 + payload + 7919 * len(options))
    if r2.random() < 0.4:
        for _ in range(r2.choice([1, 1, 2, 3])):
            options.insert(r2.randrange(len(options) + 1), gen_special_option(r2, valid=True))
    return [ttl, payload, options]


def gen_tsig(rng, pool, mid):
    if rng.random() < 0.6:
        return None
    kn = pool.absolute()
    if kn == [b""]:
        kn = [b"key", b""]
    alg = rng.choice(ALGS)
    maclen = rng.choice([0, 16, 20, 32, 64])
    mac = bytes(rng.randrange(256) for _ in range(maclen))
    other = bytes(rng.randrange(256) for _ in range(rng.choice([0, 0, 6])))
    t = rng.randrange(2**48)
    return [kn, [[1, alg], struct.pack("!HIH", (t >> 32) & 0xFFFF, t & 0xFFFFFFFF, rng.randrange(65536)),
                 struct.pack("!H", maclen) + mac, struct.pack("!H", rng.choice([mid, rng.randrange(65536)])),
                 struct.pack("!H", rng.choice([0, 16, 17, 18, rng.randrange(4096)])),
                 struct.pack("!H", len(other)) + other]]


def gen_query_like(rng, origin=None, size="small", opcode=None, with_opt=True, with_tsig=True):
    """QUERY / IQUERY / STATUS / NOTIFY / unassigned opcodes: ordinary section rules"""
    pool = NamePool(rng, origin)
    mid = rng.choice([0, 65535, rng.randrange(65536)])
    if opcode is None:
        opcode = rng.choice([0, 0, 0, 1, 2, 4, 3, 6, 15, rng.choice([o for o in range(16) if o != 5])])
    flags = (rng.randrange(65536) & 0x87FF & ~0x0200) | (opcode << 11)
    if rng.random() < 0.5:
        flags &= 0x87F0 | (opcode << 11)
    flags |= rng.choice([0, 0, 1, 2, 3, 5, 9, 15])
    secs = [[], [], [], []]
    nq = rng.choice([0, 1, 1, 1, 1, 2, 3])
    for _ in range(nq):
        secs[0].append([pool.name(), rng.choice([IN, IN, IN, CH, ANY, NONE, rng.randrange(65536)]),
                        rng.choice([A, NS, MX, SOA, 255, 252, OPT, TSIG, rng.randrange(65536)]), 0, None, 0, []])
    scale = {"small": [0, 0, 1, 1, 2, 3], "medium": [1, 2, 3, 5, 8], "large": [6, 10, 14]}[size]
    for s in (1, 2, 3):
        used = set()
        for _ in range(rng.choice(scale)):
            rdclass = rng.choice([IN] * 8 + [CH, HS, 7])
            rs = gen_rrset(rng, pool, rdclass, used=used, section=s)
            if rs is not None:
                secs[s].append(rs)
                if rs[2] in (RRSIG, SIG) and rng.random() < 0.6:
                    # a second RRSIG set with the same owner covering another type (the index key has `covers`)
                    sib = gen_rrset(rng, pool, rdclass, types=[rs[2]], used=None, section=s)
                    if sib is not None and sib[3] != rs[3]:
                        sib[0] = rs[0]
                        full = sib[0] if (sib[0] and sib[0][-1] == b"") or pool.origin is None else sib[0] + pool.origin
                        key = (tuple(lower(l) for l in full), sib[1], sib[2], sib[3], None)
                        if key not in used:
                            used.add(key)
                            secs[s].append(sib)
    opt = gen_opt(rng) if with_opt else None
    tsig = gen_tsig(rng, pool, mid) if with_tsig else None
    return [mid, flags, secs, opt, tsig]


def gen_update(rng, origin=None, normal=True):
    """dynamic update in the normal form the reader produces: zone section one SOA-typed entry,
    prerequisites (class ANY/NONE empty forms, value-dependent form), updates (add, delete rrset,
    delete name, delete rr)"""
    pool = NamePool(rng, origin)
    mid = rng.randrange(65536)
    flags = (rng.randrange(65536) & 0x87FF & ~0x0200) | (5 << 11)
    zclass = rng.choice([IN, IN, IN, CH, 7])
    zone = pool.name()
    secs = [[[zone, zclass, SOA, 0, None, 0, []]], [], [], []]
    # prerequisites
    for _ in range(rng.choice([0, 1, 2, 4])):
        r = rng.random()
        name = pool.name()
        ettl = rng.choice([0, 0, 300])   # the TTL attribute of an empty rrset is not rendered
        if r < 0.2:    # name is in use
            secs[1].append([name, zclass, 255, 0, ANY, ettl, []])
        elif r < 0.4:  # rrset exists (value independent)
            secs[1].append([name, zclass, rng.choice([A, MX, TXT, 65280]), 0, ANY, 0, []])
        elif r < 0.55:  # name is not in use
            secs[1].append([name, zclass, 255, 0, NONE, 0, []])
        elif r < 0.7:  # rrset does not exist
            secs[1].append([name, zclass, rng.choice([A, MX, TXT, 65280]), 0, NONE, 0, []])
        else:          # rrset exists (value dependent): one RR per rrset after parsing
            rs = gen_rrset(rng, pool, zclass, fixed_class=True)
            if rs is not None:
                rs[5] = 0
                for rd in rs[6]:
                    secs[1].append(rs[:6] + [[rd]])
    for _ in range(rng.choice([0, 1, 2, 3, 6])):
        r = rng.random()
        name = pool.name()
        if r < 0.35:   # add
            rs = gen_rrset(rng, pool, zclass, fixed_class=True)
            if rs is not None:
                for rd in rs[6]:
                    secs[2].append(rs[:6] + [[rd]])
        elif r < 0.5:  # delete an rrset
            secs[2].append([name, zclass, rng.choice([A, MX, TXT, NS, 65280]), 0, ANY, rng.choice([0, 0, 3600]), []])
        elif r < 0.65:  # delete all rrsets from a name
            secs[2].append([name, zclass, 255, 0, ANY, 0, []])
        else:          # delete an rr from an rrset
            rs = gen_rrset(rng, pool, zclass, fixed_class=True)
            if rs is not None:
                rs[4] = NONE
                rs[5] = 0
                for rd in rs[6]:
                    secs[2].append(rs[:6] + [[rd]])
    used = set()
    for _ in range(rng.choice([0, 0, 1, 2])):
        rs = gen_rrset(rng, pool, rng.choice([IN, zclass]), used=used, fixed_class=True)
        if rs is not None:
            for rd in rs[6]:
                secs[3].append(rs[:6] + [[rd]])
    opt = gen_opt(rng)
    tsig = gen_tsig(rng, pool, mid)
    return [mid, flags, secs, opt, tsig]


def gen_big(rng, origin=None):
    """offsets pushed beyond 0x3FFF by large TXT rrsets placed early, then many shared names"""
    am = gen_query_like(rng, origin, "medium", opcode=0)
    pool = NamePool(rng, origin)
    pool.bases = [am[2][1][0][0]] if am[2][1] and am[2][1][0][0] else pool.bases
    target = rng.choice([16200, 16300, 16383, 16500, 17000])
    rds = []
    keys = set()
    total = 0
    while total < target - 300:
        n = 255
        s = bytes([n]) + bytes(rng.randrange(256) for _ in range(n))
        b = s * rng.choice([1, 2, 4])
        if b in keys:
            continue
        keys.add(b)
        rds.append([b])
        total += len(b) + 12
    pos = rng.choice([0, 0, len(am[2][1])]) if am[2][1] else 0
    def absk(n):
        return tuple(lower(l) for l in (n if (n and n[-1] == b"") or origin is None else n + origin))
    owner = pool.name() or [b"big", b""]
    present = set(absk(r[0]) for r in am[2][1] if r[1] == IN and r[2] == TXT)
    while absk(owner) in present or sum(len(l) + 1 for l in owner) > 200:
        owner = [b"big%d" % rng.randrange(1000)] + ([b""] if origin is None else [])
    am[2][1].insert(pos, [owner, IN, TXT, 0, None, 60, rds])
    used = set((tuple(lower(l) for l in (r[0] if (r[0] and r[0][-1] == b"") or origin is None else r[0] + origin)),
                r[1], r[2], r[3], None) for r in am[2][2])
    for _ in range(rng.choice([3, 6, 10])):
        rs = gen_rrset(rng, pool, IN, used=used, types=[NS, MX, CNAME, SOA, PTR, A])
        if rs is not None:
            am[2][2].append(rs)
    return am


def mutate_wire(rng, wire, n=1):
    """structure-blind mutations"""
    w = bytearray(wire)
    for _ in range(n):
        r = rng.random()
        if not w:
            break
        if r < 0.45:
            i = rng.randrange(len(w))
            w[i] ^= 1 << rng.randrange(8)
        elif r < 0.6:
            i = rng.randrange(len(w))
            w[i] = rng.choice([0, 0xC0, 0xFF, 0x3F, 0x40, 1, rng.randrange(256)])
        elif r < 0.72:
            w = w[: rng.randrange(len(w) + 1)]
        elif r < 0.8:
            w += bytes(rng.randrange(256) for _ in range(rng.choice([1, 2, 5])))
        elif r < 0.9 and len(w) >= 12:
            i = rng.choice([4, 6, 8, 10])
            v = struct.unpack("!H", w[i : i + 2])[0] + rng.choice([-1, 1, 1, 2])
            w[i : i + 2] = struct.pack("!H", max(0, min(65535, v)))
        else:
            i = rng.randrange(len(w))
            j = min(len(w), i + rng.choice([1, 2, 4]))
            del w[i:j]
    return bytes(w)


def mutate_fields(rng, wire):
    """structure-aware mutation: pick an RR (via the walker) and change one header field"""
    try:
        wk = walk(wire)
    except WalkError:
        return mutate_wire(rng, wire)
    rrs = [r for r in wk["rrs"] if r[0] > 0]
    if not rrs:
        return mutate_wire(rng, wire)
    r = rng.choice(rrs)
    rdoff, rdlen = r[5]
    hdr = rdoff - 10
    w = bytearray(wire)
    which = rng.choice(["type", "class", "ttl", "rdlen", "rdata"])
    if which == "type":
        w[hdr : hdr + 2] = struct.pack("!H", rng.choice([A, NS, CNAME, SOA, PTR, MX, TXT, AAAA, SRV, RRSIG, OPT, TSIG, 65280, 30, 24, 47, 0] + FIELD_TYPES_ALL))
    elif which == "class":
        w[hdr + 2 : hdr + 4] = struct.pack("!H", rng.choice([IN, CH, HS, NONE, ANY, 0, 7, 1232]))
    elif which == "ttl":
        w[hdr + 4 : hdr + 8] = struct.pack("!I", rng.choice([0, 2**31 - 1, 2**31, 2**32 - 1, rng.randrange(2**32)]))
    elif which == "rdlen":
        w[hdr + 8 : hdr + 10] = struct.pack("!H", max(0, min(65535, rdlen + rng.choice([-2, -1, 1, 2, 10, -rdlen]))))
    elif rdlen > 0:
        i = rdoff + rng.randrange(rdlen)
        w[i] = rng.choice([0, 0xC0, 0xC1, 63, 64, 255, rng.randrange(256)])
    return bytes(w)


def gen_rseq(rng, origin=None):
    """add_question / add_rrset sequences with a small max_size: large record sets that overflow are
    followed by small ones with the same (new) owner, and by names at or below that owner"""
    pool = NamePool(rng, origin)
    mid = rng.randrange(65536)
    flags = rng.randrange(65536) & 0x87FF
    max_size = rng.choice([64, 100, 150, 200, 300, 512, rng.randrange(40, 700)])
    ops = []
    for _ in range(rng.choice([0, 1, 1, 2])):
        ops.append([0, pool.name(), rng.choice([A, NS, MX, 255]), IN])
    k = 0
    for sec in (1, 2, 3):
        for _ in range(rng.choice([0, 1, 2, 3])):
            k += 1
            owner = [bytes([97 + k % 26]) * rng.choice([1, 3, 10]), gen_label(rng)] + rng.choice(pool.bases)
            if origin is not None and rng.random() < 0.5:
                owner = [gen_label(rng), bytes([97 + k % 26]) * 3]     # relative
            while wire_len(owner) > 200:
                owner = owner[1:]
            big = bytes(rng.randrange(256) for _ in range(rng.choice([60, 150, 250])))
            style = rng.random()
            if style < 0.6:
                ops.append([sec, [owner, IN, TXT, 0, None, 300, [[bytes([len(big) % 256 if len(big) < 256 else 255]) + big[:255]]]]])
            else:
                rs = gen_rrset(rng, pool, IN)
                if rs is not None:
                    rs[0] = owner
                    ops.append([sec, rs])
            # the same owner again, small; a name below it; a record whose rdata names it
            follow = rng.random()
            if follow < 0.5:
                ops.append([sec, [owner, IN, A, 0, None, 60, [[bytes(rng.randrange(256) for _ in range(4))]]]])
            elif follow < 0.7:
                ops.append([sec, [[b"sub"] + owner, IN, A, 0, None, 60, [[bytes(rng.randrange(256) for _ in range(4))]]]])
            elif follow < 0.85:
                ops.append([sec, [pool.name(), IN, NS, 0, None, 60, [[[0, owner]]]]])
    return [mid, flags, max_size, ops]


def gen_rapi(rng, origin=None):
    """gen_rseq plus reserve / release_reserved / add_opt (with and without padding) / write_header /
    _write_tsig, in the order an application would use them (and sometimes not)"""
    mid, flags, max_size, ops = gen_rseq(rng, origin)
    max_size = rng.choice([max_size, max_size + 150, 512, 700, 1200, 1200])
    pool = NamePool(rng, None)
    pre, post = [], []
    resv = rng.choice([0, 0, 0, 20, 60, 60, 200, 200] + ([max_size + 1, -1] if rng.random() < 0.25 else []))
    if resv:
        pre.append([10, resv])
    if rng.random() < 0.3:
        pre.append([10, rng.choice([0, 11, 40])])
    if resv and rng.random() < 0.7:
        post.append([11])
    if rng.random() < 0.6:
        options = rng.choice([[], [[65001, b"\x01\x02"]], [[10, bytes(8)], [65002, b""]]])
        pad = rng.choice([0, 0, 1, 16, 128])
        osz = 11 + sum(len(d) + 4 for _, d in options) + (4 if pad else 0)
        post.append([12, [rng.choice([0, 0x8000, 0x01008000]), rng.choice([512, 1232, 4096]), options],
                     pad, rng.choice([osz, osz, 11, osz + 7]), rng.choice([0, 0, 61, 100])])
    if rng.random() < 0.5:
        post.append([13])
    if rng.random() < 0.5:
        owners = [op[1][0] for op in ops if op[0] in (1, 2, 3) and op[1][0] and op[1][0][-1] == b""]
        kn = [b"key", b"example", b""]
        if owners and rng.random() < 0.7:
            ow = rng.choice(owners)
            kn = list(ow) if rng.random() < 0.5 else [b"k"] + list(ow)
            while wire_len(kn) > 255:
                kn = kn[1:]
        t = gen_tsig(rng, pool, mid)
        while t is None:
            t = gen_tsig(rng, pool, mid)
        post.append([14, kn, t[1]])
    if rng.random() < 0.15 and ops:
        # something after the trailer: records after OPT are fine, after TSIG the reader must refuse
        post.append(ops[-1])
    if rng.random() < 0.1:
        rng.shuffle(post)
    return [mid, flags, max_size, pre + ops + post]


def gen_rapi_near(rng, ms, delta):
    """Renderer API with reserve() calls whose sum comes within a few octets of max_size - 12, records added
    while the reserve is held and after it was released"""
    total = ms - 12 + delta
    a = rng.choice([total, total // 2, total - 11, 11])
    pre = [[10, a]]
    if total - a > 0:
        pre.append([10, total - a])
    q = [0, [b"q", b"example", b""], IN, A]
    rs = [1, [[b"a", b"example", b""], IN, A, 0, None, 60, [[bytes([10, 0, 0, rng.randrange(256)])]]]]
    big = [rng.choice([1, 2, 3]), [[b"t", b"example", b""], IN, TXT, 0, None, 60,
                                   [[bytes([rng.choice([1, 9, 14])]) + bytes(14)]]]]
    ops = pre + rng.choice([[], [q], [q, rs]]) + [[11]]
    if rng.random() < 0.5:
        ops += [[10, rng.choice([0, 5, 12])], rs, [11]]
    n = max(0, ms - 12 - 15 + rng.choice([-30, -3, 0, 1, 12, 13]))
    ops += rng.choice([[], [big], [[12, [0, 1232, [[65001, bytes(n)]]], 0, 15 + n, 0]], [big, [13]]])
    return [4660, 0, ms, ops]


def rr_list(am, origin):
    """the record sets of a message in section order, as comparable keys (names lowered, origin appended)"""

    def nm(n):
        ls = [lower(x) for x in n]
        if (not ls or ls[-1] != b"") and origin is not None:
            ls += [lower(x) for x in origin]
        return tuple(ls)

    def rd(r):
        return tuple(("n", nm(x[1])) if isinstance(x, list) else ("b", bytes(x)) for x in merge(r))

    out = []
    for s in range(4):
        sec = []
        for rs in am[2][s]:
            if s == 0:
                sec.append((nm(rs[0]), rs[1], rs[2]))
            else:
                # (the TTL attribute of an empty record set is not on the wire: the empty form carries TTL 0)
                sec.append((nm(rs[0]), rs[1], rs[2], rs[3], rs[4], rs[5] if rs[6] else 0, tuple(rd(x) for x in rs[6])))
        out.append(sec)
    return out




def check_rseq(case, out, fail):
    """oracle for a low-level Renderer sequence (shared by C03 and C08)"""
    _, origin, mid, flags, ms, ops = case
    if isinstance(out, Err):
        return
    res, w = out
    if isinstance(w, Err) or any(isinstance(x, Err) for x in res):
        return
    w = bytes(w)
    if len(w) > max(ms, 12):
        fail("renderer output exceeds max_size", length=len(w), limit=ms, sig="size")
    # the records that were accepted, in order, must be what the message holds
    kept = [op for op, fl in zip(ops, res) if fl == 0 and op[0] in (0, 1, 2, 3)]
    tsig_at = [i for i, (op, fl) in enumerate(zip(ops, res)) if fl == 0 and op[0] == 14]
    if tsig_at and any(fl == 0 and op[0] in (1, 2, 3, 12, 14) for op, fl in list(zip(ops, res))[tsig_at[0] + 1:]):
        return      # records written after the TSIG record: not a message the reader accepts
    am = [mid, flags, [[[op[1], op[3], op[2], 0, None, 0, []] for op in kept if op[0] == 0]] +
          [[op[1] for op in kept if op[0] == s] for s in (1, 2, 3)], None, None]
    try:
        wk = walk(w)
        if wk["end"] != len(w):
            fail("header counts are not consistent with the octets present", sig="counts")
    except WalkError as e:
        fail("result cannot be walked: " + str(e), sig="walk")
        return
    for p in check_pointers(w):
        fail("compression pointer into removed or unknown bytes: " + p, sig="pointer")
        break
    try:
        p = dns.message.from_wire(w, keyring=False, origin=None if origin is None else N(origin), one_rr_per_rrset=True)
    except Exception as e:  # noqa
        fail("result of the renderer sequence does not parse: " + type(e).__name__, sig="parse")
        return
    try:
        pa = message_abs(p)
    except Unmodelled:
        return
    want = rr_list([mid, flags, [am[2][0]] + [[rs[:6] + [[rd]] for rs in am[2][s] for rd in (rs[6] or [None]) if rd is not None] for s in (1, 2, 3)], None, None], origin)
    got = rr_list(pa, origin)
    if got != want:
        fail("records kept by the renderer differ from the accepted add_rrset calls", sig="records")
    return
