"""C06 - name comparison is the canonical order, coherent with equality and hash."""
import namelib as nl
from lib import Err

ID = "C06"
COQ_IMPORTS = "From DV Require Import Model.NameM."
COQ_RUN = "NameM.run"
TRUSTED = ["model: coq/Model/NameM.v (fullcompare, __hash__, relativize/derelativize/split/parent, RFC 4471 successor/predecessor)"]


def cases(ctx):
    rng = ctx.rng
    ctx.notes["exhaustive"] = True
    ctx.notes["exhaustive_scope"] = (
        "successor/predecessor: every octet value 0..255 as the rightmost non-0xff octet of the least-significant "
        "label x trailing 0xff runs {0,1,2,5} x shapes {63-octet label, name at 255 octets, all-0xff label chopped, "
        "chop inside a maximal name, extendable label} x prefix_ok; predecessor: every last octet x {1,2,63-octet "
        "labels, 0x00 runs, \\000 label below, maximal name} (oracle on all; model comparison on all in the thorough "
        "tier, on a fixed subset in the quick tier)"
    )
    n = ctx.n(500, 40000)
    n_model = ctx.n(500, 4000)  # random triples beyond this many are oracle-only (kind suffix -o)
    for it in range(n):
        a = nl.gen_labels(rng)
        b = nl.related(rng, a) if rng.random() < 0.8 else nl.gen_labels(rng)
        c = nl.related(rng, b) if rng.random() < 0.7 else nl.related(rng, a)
        if not (nl.fits(a) and nl.fits(b) and nl.fits(c)):
            continue
        sfx = "" if it < n_model else "-o"
        yield "cmp" + sfx, [2, a, b]
        yield "cmp" + sfx, [2, b, c]
        yield "cmp" + sfx, [2, a, c]
        yield "triple", [20, a, b, c]
        yield "richcmp" + sfx, [19, a, b]
        yield "hash" + sfx, [3, a]
        yield "hash" + sfx, [3, nl.case_variant(rng, a)]
    # pairs that differ only in WHERE a label boundary lies relative to a '.' (or another) octet:
    # (a.b, c) vs (a, b.c), (a.b) vs (a, b), ...: equal as dotted strings, different as names
    for it in range(ctx.n(250, 6000)):
        a, b = boundary_shift_pair(rng)
        if not (nl.fits(a) and nl.fits(b)):
            continue
        c = nl.case_variant(rng, a) if rng.random() < 0.5 else nl.related(rng, b)
        if not nl.fits(c):
            c = a
        ctx.count("cmp:boundary-shift")
        sfx = "" if it < ctx.n(250, 1500) else "-o"
        yield "cmp" + sfx, [2, a, b]
        yield "richcmp" + sfx, [19, a, b]
        yield "richcmp" + sfx, [19, b, a]
        yield "triple", [20, a, b, c]
        yield "hash" + sfx, [3, b]
        yield "namedict", [22, [a, b, nl.case_variant(rng, b)], [b"x"] + a]
    for _ in range(ctx.n(300, 2500)):
        a = nl.gen_labels(rng)
        ro = rng.random()
        if ro < 0.75:
            o = nl.gen_labels(rng, absolute=True, budget=rng.choice([10, 30, 100]))
        elif ro < 0.9:
            o = nl.gen_labels(rng, absolute=False, budget=rng.choice([10, 30]))  # relative origin
        else:
            o = []  # the empty origin
        r = rng.random()
        if r < 0.6:
            a = [l for l in a if l] + nl.case_variant(rng, o)
        if not (nl.fits(a) and nl.fits(o)):
            continue
        yield "rel", [10, a, o]
        yield "derel", [11, a, o]
        yield "relderel", [21, a, o]
        yield "split", [12, a, rng.randint(-1, len(a) + 1)]
        yield "parent", [13, a]
        yield "parent_ways", [26, a]
        yield "choose", [16, a, o if rng.random() < 0.8 else None, rng.randrange(2)]
    # dns.namedict.NameDict: lookups go through Name.__hash__/__eq__ (oracle-only, op 22)
    for _ in range(ctx.n(150, 3000)):
        q = nl.gen_labels(rng, budget=rng.choice([20, 60]))
        keys = []
        for _k in range(rng.randint(0, 5)):
            r = rng.random()
            if r < 0.6 and q:
                k = q[rng.randrange(len(q)):]
                k = nl.case_variant(rng, k) if rng.random() < 0.6 else k
            elif r < 0.8:
                k = nl.related(rng, q)
            else:
                k = nl.gen_labels(rng, budget=20)
            if nl.fits(k):
                keys.append(k)
        if rng.random() < 0.7:
            keys.append([])
        if nl.fits(q):
            yield "namedict", [22, keys, q]
    # parent() on every way of constructing a name, in particular root and empty (deterministic)
    for fixed in ([], [b""], [b"a"], [b"a", b""], [b"A", b"b"], [b"www", b"Example", b""], [b"\x00"], [b"@", b""], [b".", b""]):
        ctx.count("parent:ways-fixed")
        yield "parent_ways", [26, fixed]
    # NameDict built from an initial mapping / list of pairs / update(), then assignments and deletions
    for _ in range(ctx.n(250, 4000)):
        q = nl.gen_labels(rng, budget=rng.choice([20, 60]))
        if not nl.fits(q) or not q:
            continue
        pool = []
        for _k in range(rng.randint(1, 6)):
            r = rng.random()
            if r < 0.65:
                k = q[rng.randrange(len(q)):]
                k = nl.case_variant(rng, k) if rng.random() < 0.4 else k
            elif r < 0.85:
                k = nl.related(rng, q)
            else:
                k = nl.gen_labels(rng, budget=20)
            if nl.fits(k):
                pool.append(k)
        if rng.random() < 0.6:
            pool.append([])
        rng.shuffle(pool)
        cut = rng.randint(0, len(pool))
        init, later = pool[:cut], pool[cut:]
        ops = [[0, k] for k in later]
        for _d in range(rng.choice([0, 0, 1, 2, 3])):
            if pool:
                ops.insert(rng.randint(0, len(ops)), [1, rng.choice(pool)])
        if rng.random() < 0.2 and pool:
            ops.append([0, nl.case_variant(rng, rng.choice(pool))])
        queries = [q, [b"x"] + q, q[1:], nl.case_variant(rng, q)]
        queries = [x for x in queries if nl.fits(x)]
        ctx.count("namedict:init-mode")
        yield "namedict_init", [23, init, rng.randrange(4), ops, queries]
    # successor / predecessor: last octet sweeps, boundary lengths
    for _ in range(ctx.n(200, 1500)):
        o = nl.gen_labels(rng, absolute=True, budget=rng.choice([5, 12, 60]))
        shape = rng.choice(["short", "l63", "max", "rand", "rel"])
        yield from succ_cases(rng, o, shape, rng.choice(nl.INTERESTING + [rng.randrange(256)]))
    if True:
        o = [b"example", b""]
        for oct_ in range(256):
            for shape in ("short", "l63", "max") if ctx.tier == "thorough" else ("l63",):
                yield from succ_cases(rng, o, shape, oct_)
    yield from succ_sweep(ctx)


SPECIAL = [0x00, 0x01, 0x20, 0x2E, 0x40, 0x41, 0x5A, 0x5B, 0x5C, 0x60, 0x61, 0x7A, 0x7B, 0x7F, 0xFE, 0xFF]


def pad255(ls, o):
    """prepend maximal 0xff labels so that the name is as long as it can get (255 if possible)"""
    room = 255 - sum(len(l) + 1 for l in ls + o)
    pads = []
    while room > 64:
        pads.append(b"\xff" * 63)
        room -= 64
    if room >= 2:
        pads.append(b"\xff" * (room - 1))
    return pads + ls + o


def boundary_shift_pair(rng):
    """two label lists whose octets, joined with the separator octet, are identical, but whose label
    boundaries differ (a separator octet inside a label on one side is a boundary on the other)"""
    sep = rng.choice([b".", b".", b".", b"\\.", b" ", b"\x00", b"@", b"-"])
    k = rng.randint(2, 5)
    parts = [bytes(rng.choice(b"abAB01z") for _ in range(rng.randint(1, 4))) for _ in range(k)]
    if rng.random() < 0.2:
        parts[rng.randrange(k)] = nl.gen_label(rng, 12)

    def group(cuts):
        out, cur = [], parts[0]
        for i in range(1, k):
            if i in cuts:
                out.append(cur)
                cur = parts[i]
            else:
                cur = cur + sep + parts[i]
        out.append(cur)
        return out

    positions = list(range(1, k))
    r = rng.random()
    if r < 0.65 and k >= 3:
        # same number of labels, boundaries at different separators
        m = rng.randint(1, k - 2)
        ca = set(rng.sample(positions, m))
        cb = set(rng.sample(positions, m))
        if ca == cb:
            cb = set(positions[:m]) if ca != set(positions[:m]) else set(positions[-m:])
    else:
        ca = set(rng.sample(positions, rng.randint(0, k - 1)))
        cb = set(rng.sample(positions, rng.randint(0, k - 1)))
    a, b = group(ca), group(cb)
    if rng.random() < 0.5:
        b = nl.case_variant(rng, b)
    tail = rng.choice([[], [b""], [b"example", b""], [b"Ex.ample", b""]])
    return a + tail, b + tail


def succ_sweep(ctx):
    """Deterministic sweep of the branches of _absolute_successor/_absolute_predecessor: every octet
    value as the rightmost non-0xff octet of a least-significant label that cannot be extended
    (63 octets, or name already 255 long), followed by 0xff runs of length 0,1,2,5; labels that must
    be chopped (all 0xff) so that the search continues in the parent; 0x00 runs for predecessor."""
    rng = ctx.rng
    origins = [[b"example", b""], [b""], [b"eX", b"Z", b""]]
    runs = (0, 1, 2, 5)
    thorough = not ctx.quick

    def emit(kind, case, model):
        # in the quick tier part of the sweep is oracle-only (kind suffix "-o"): the oracle still
        # evaluates the property on the implementation, only the model comparison is skipped
        ctx.count("sweep:" + kind + (":model" if (model or thorough) else ":oracle-only"))
        return (kind if (model or thorough) else kind + "-o"), case

    for x in range(256):
        for r in runs:
            o = origins[(x + r) % len(origins)] if thorough else origins[0]
            filler = bytes([rng.choice([0x61, 0xFF, x, 0x5A, 0x40])])
            lab63 = filler * (62 - r) + bytes([x]) + b"\xff" * r
            short = bytes([rng.choice(b"amZ@")]) * rng.randint(0, 3) + bytes([x]) + b"\xff" * r
            shapes = {
                "l63": [lab63] + o,                          # cannot extend: label full
                "max": pad255([short], o),                    # cannot extend: name full, label short
                "chop": [b"\xff" * 63, lab63] + o,           # first label all 0xff: chop, continue in parent
                "chopmax": pad255([b"\xff" * rng.choice([1, 5, 63]), short], o),
                "short": [short] + o,                         # extendable (the common path)
            }
            for shape, n in shapes.items():
                if not (nl.fits(n) and nl.fits(o)):
                    continue
                special = x in SPECIAL
                if sum(len(l) + 1 for l in n) == 255 or shape in ("l63", "chop", "short"):
                    for p in (0, 1):
                        model = (shape in ("l63", "max") and p == 0) or (shape == "chop" and p == 0 and r in (0, 2)) or (special and (p == 0 or r == 0))
                        yield emit("succ", [14, n, o, p], model)
                if r in (0, 1) or special:
                    for p in (0, 1):
                        model = (shape == "l63" and r == 0 and p == 0) or (special and r == 0 and shape in ("l63", "max"))
                        yield emit("pred", [15, n, o, p], model)
    # predecessor: labels ending in runs of 0x00, the single label \000, every last octet
    for x in range(256):
        o = origins[x % len(origins)] if thorough else origins[0]
        firsts = (bytes([x]), b"a" + bytes([x]), b"a" * 62 + bytes([x]), bytes([x]) + b"\x00", bytes([x]) + b"\x00\x00")
        for fi, first in enumerate(firsts):
            for ni, n in enumerate(([first] + o, [first, b"\x00"] + o, pad255([first], o))):
                if nl.fits(n):
                    for p in (0, 1):
                        model = (fi in (0, 3) and ni == 0) or (x in SPECIAL and ni != 1 and p == 1)
                        yield emit("pred", [15, n, o, p], model)
                        if x in SPECIAL:
                            yield emit("succ", [14, n, o, p], ni == 0 and p == 0)
    for o in origins:
        for p in (0, 1):
            yield "succ", [14, o, o, p]
            yield "pred", [15, o, o, p]
            yield "succ", [14, [b"\x00"] + o, o, p]
            yield "pred", [15, [b"\x00"] + o, o, p]


def succ_cases(rng, o, shape, oct_):
    if shape == "short":
        first = bytes([rng.choice(b"az"), oct_])
        n = [first] + o
    elif shape == "l63":
        first = bytes([rng.choice([0xFF, 0x61, oct_])]) * 62 + bytes([oct_])
        n = [first] + o
    elif shape == "max":
        # name-maximal: total length 255
        room = 255 - sum(len(l) + 1 for l in o)
        ls = []
        while room > 64:
            ls.append(b"\xff" * 63)
            room -= 64
        if room >= 2:
            ls.insert(0, b"\xff" * (room - 2) + bytes([oct_]))
        n = ls + o
    elif shape == "rel":
        n = [nl.gen_label(rng, 63)]
    else:
        n = [l for l in nl.gen_labels(rng, absolute=False, budget=100)] + (o if rng.random() < 0.7 else [b""])
    if not (nl.fits(n) and nl.fits(o)):
        return
    for p in (0, 1):
        yield "succ", [14, n, o, p]
        yield "pred", [15, n, o, p]


def in_model(kind, case):
    return case[0] not in (20, 21, 22, 23, 26) and not kind.endswith("-o")


def impl(case):
    op = case[0]
    if op == 20:
        a, b, c = (nl.N(x) for x in case[1:4])
        return [a.fullcompare(b)[1], b.fullcompare(c)[1], a.fullcompare(c)[1], b.fullcompare(a)[1],
                int(a == b), int(hash(a) == hash(b)), int(a < b), int(a <= b), int(a > b), int(a >= b), int(a != b)]
    if op == 26:
        import copy
        import pickle

        import dns.name

        ls = [bytes(l) for l in case[1]]
        try:
            base = nl.N(ls)
        except Exception as e:  # noqa
            return nl.exc_code(e)
        ways = [("Name(labels)", lambda: nl.N(ls)),
                ("copy", lambda: copy.copy(base)),
                ("deepcopy", lambda: copy.deepcopy(base)),
                ("pickle", lambda: pickle.loads(pickle.dumps(base))),
                ("from_text(to_text)", lambda: dns.name.from_text(base.to_text(), None)),
                ("from_text(bytes)", lambda: dns.name.from_text(base.to_text().encode("latin-1"), None)),
                ("concatenate(empty)", lambda: base.concatenate(dns.name.empty) if not base.is_absolute() else base + dns.name.empty),
                ("derelativize/relativize", lambda: base.relativize(dns.name.empty) if not base.is_absolute() else base.derelativize(dns.name.root))]
        if base.is_absolute():
            ways.append(("from_wire", lambda: dns.name.from_wire(base.to_wire(), 0)[0]))
            ways.append(("split suffix", lambda: base.split(len(base))[1]))
        if ls == [b""]:
            ways.append(("dns.name.root", lambda: dns.name.root))
            ways.append(("from_text('.')", lambda: dns.name.from_text(".")))
            ways.append(("from_wire(b'\\0')", lambda: dns.name.from_wire(b"\0", 0)[0]))
            ways.append(("x.parent()", lambda: dns.name.Name([b"x", b""]).parent()))
        if ls == []:
            ways.append(("dns.name.empty", lambda: dns.name.empty))
            ways.append(("from_text('@', None)", lambda: dns.name.from_text("@", None)))
            ways.append(("x.relativize(x)", lambda: dns.name.Name([b"x", b""]).relativize(dns.name.Name([b"X", b""]))))
            ways.append(("x.parent()", lambda: dns.name.Name([b"x"]).parent()))
            ways.append(("split prefix", lambda: dns.name.Name([b"x"]).split(1)[0]))
        out = []
        for nm, mk in ways:
            try:
                n = mk()
                if nl.labels_of(n) != ls:
                    out.append([nm.encode(), [b"construction-differs"], 0, 0, 0, 0])
                    continue
                try:
                    p_ = n.parent()
                    r, o, k = p_.fullcompare(n)
                    out.append([nm.encode(), nl.labels_of(p_), int(r), (o > 0) - (o < 0), k, int(p_.is_absolute() == n.is_absolute())])
                except Exception as e:  # noqa
                    out.append([nm.encode(), nl.exc_code(e), 0, 0, 0, 0])
            except Exception as e:  # noqa
                out.append([nm.encode(), [b"construction-failed: " + type(e).__name__.encode()], 0, 0, 0, 0])
        return out
    if op == 23:
        import dns.namedict

        try:
            init, mode, ops, queries = case[1], case[2], case[3], case[4]
            pairs = [(nl.N(k), i) for i, k in enumerate(init)]
            if mode == 0:
                d = dns.namedict.NameDict()
                for k, v in pairs:
                    d[k] = v
            elif mode == 1:
                d = dns.namedict.NameDict(dict(pairs))
            elif mode == 2:
                d = dns.namedict.NameDict(pairs)
            else:
                d = dns.namedict.NameDict()
                d.update(dict(pairs))
            for j, (kind_, k) in enumerate(ops):
                if kind_ == 0:
                    d[nl.N(k)] = 100 + j
                else:
                    try:
                        del d[nl.N(k)]
                    except KeyError:
                        pass
            res = []
            for q in queries:
                try:
                    k, v = d.get_deepest_match(nl.N(q))
                    res.append([nl.labels_of(k), v])
                except KeyError:
                    res.append([[b"KeyError"], -1])
            keys = sorted(nl.lower_labels(nl.labels_of(k)) for k in d)
            probes = [int(nl.N(k) in d) for k in init + [k for _, k in ops]]
            has = [int(d.has_key(nl.N(k))) for k in init + [k for _, k in ops]]
            return [res, d.max_depth, len(d), keys, probes, has]
        except Exception as e:  # noqa
            return nl.exc_code(e)
    if op == 22:
        import dns.namedict

        try:
            d = dns.namedict.NameDict()
            for i, k in enumerate(case[1]):
                d[nl.N(k)] = i
            q = nl.N(case[2])
            try:
                k, v = d.get_deepest_match(q)
                res = [nl.labels_of(k), v]
            except KeyError:
                res = [[b"KeyError"], -1]
            probes = [int(nl.N(nl.lower_labels(k)) in d) for k in case[1]]
            return [res, probes, len(d)]
        except Exception as e:  # noqa
            return nl.exc_code(e)
    if op == 21:
        try:
            a, o = nl.N(case[1]), nl.N(case[2])
            r = a.relativize(o)
            d = r.derelativize(o)
            return [nl.labels_of(r), nl.labels_of(d), int(d == a), int(a.is_subdomain(o))]
        except Exception as e:  # noqa
            return nl.exc_code(e)
    return nl.run_impl(case)


# ---- independent reference (RFC 4034 6.1), written without looking at fullcompare


def lower(b):
    return bytes(c + 32 if 65 <= c <= 90 else c for c in b)


def is_abs(ls):
    return len(ls) > 0 and ls[-1] == b""


def canon_cmp(a, b):
    if is_abs(a) != is_abs(b):
        return 1 if is_abs(a) else -1
    ka = [lower(l) for l in reversed(a)]
    kb = [lower(l) for l in reversed(b)]
    return (ka > kb) - (ka < kb)


def sgn(x):
    return (x > 0) - (x < 0)


def common_suffix(a, b):
    k = 0
    while k < len(a) and k < len(b) and lower(a[-1 - k]) == lower(b[-1 - k]):
        k += 1
    return k


def _oracle(ctx, kind, case, out):
    F = []

    kind = kind[:-2] if kind.endswith("-o") else kind

    def fail(what, **kw):
        F.append({"kind": kind + ":" + what, "what": what, "impl": out, **kw})

    op = case[0]
    if isinstance(out, Err):
        if out.code >= 100 or out.code < 0 or (out.code == 12 and op != 12):
            # Python-level exception (ValueError is only documented for split with a bad depth)
            fail("unexpected exception " + out.text)
        elif op in (14, 15):
            # successor/predecessor must return for every name of the zone (the docstrings promise a
            # name; only a relative/foreign origin or an over-long relative name may raise)
            n, o = case[1], case[2]
            if not is_abs(o):
                legit = out.code == 8
            elif is_abs(n):
                legit = out.code == 11 and common_suffix(n, o) != len(o)
            else:
                legit = out.code == 2 and not nl.fits(n + o)
            if not legit:
                fail("successor/predecessor raised " + out.text + " for a name of the zone")
        return F
    if op == 2:
        a, b = case[1], case[2]
        r, o, nlab, sub, sup = out
        if sgn(o) != canon_cmp(a, b):
            fail("order differs from RFC 4034 canonical order")
        if is_abs(a) == is_abs(b):
            k = common_suffix(a, b)
            if nlab != k:
                fail("nlabels is not the common suffix length")
            exp = 3 if (k == len(a) == len(b)) else 2 if k == len(b) else 1 if k == len(a) else 4 if k > 0 else 0
            if r != exp:
                fail("relation wrong")
            if bool(sub) != (k == len(b)) or bool(sup) != (k == len(a)):
                fail("is_subdomain/is_superdomain disagree with labels")
        else:
            if r != 0 or nlab != 0 or sub or sup:
                fail("relation across relativity must be NONE/0")
    elif op == 19:
        eq, ne, lt, le, ge, gt, heq = out
        a, b = case[1], case[2]
        c = canon_cmp(a, b)
        if (bool(eq), bool(ne), bool(lt), bool(le), bool(ge), bool(gt)) != (c == 0, c != 0, c < 0, c <= 0, c >= 0, c > 0):
            fail("rich comparison operators disagree with the RFC 4034 canonical order")
        if eq and not heq:
            fail("equal names hash differently")
    elif op == 20:
        ab, bc, ac, ba, eq, heq, lt, le, gt, ge, ne = out
        a, b, c = case[1:4]
        if sgn(ab) != -sgn(ba):
            fail("not antisymmetric")
        if sgn(ab) <= 0 and sgn(bc) <= 0 and sgn(ac) > 0:
            fail("not transitive")
        if sgn(ab) >= 0 and sgn(bc) >= 0 and sgn(ac) < 0:
            fail("not transitive")
        ci = [lower(x) for x in a] == [lower(x) for x in b]
        if bool(eq) != ci or (ab == 0) != ci:
            fail("equality is not ASCII-case-insensitive label equality")
        if eq and not heq:
            fail("equal names hash differently")
        if (bool(lt), bool(le), bool(gt), bool(ge), bool(ne)) != (ab < 0, ab <= 0, ab > 0, ab >= 0, ab != 0):
            fail("rich comparisons disagree with fullcompare")
    elif op == 26:
        ls = case[1]
        for nm, par, r, o, k, samerel in out:
            how = bytes(nm).decode()
            if not isinstance(par, Err) and par and bytes(par[0]).startswith(b"construction-"):
                fail("could not build the name via " + how + ": " + bytes(par[0]).decode())
                break
            if ls == [] or ls == [b""]:
                if not (isinstance(par, Err) and par.code == 10):
                    fail("parent() of the %s name built via %s does not raise NoParent" % ("root" if ls else "empty", how))
                    break
            else:
                if isinstance(par, Err):
                    fail("parent() raised " + par.text + " for a name that has a parent (built via " + how + ")")
                    break
                if par != ls[1:]:
                    fail("parent() is not the name minus its first label (built via " + how + ")")
                    break
                if (r, o, k, samerel) != (1, -1, len(ls) - 1, 1):
                    fail("fullcompare(parent, name) is not (SUPERDOMAIN, <0, len-1) with the same relativity (built via " + how + ")")
                    break
    elif op == 23:
        init, mode, ops, queries = case[1], case[2], case[3], case[4]
        res, max_depth, size, keys, probes, has = out
        lk = lambda k: tuple(lower(x) for x in k)
        # reference content, from the operations alone (ci keys, last value wins)
        content = {}
        reassigned = False
        for i, k in enumerate(init):
            if lk(k) in content:
                reassigned = True
            content[lk(k)] = i
        for j, (kind_, k) in enumerate(ops):
            if kind_ == 0:
                if lk(k) in content:
                    reassigned = True
                content[lk(k)] = 100 + j
            else:
                content.pop(lk(k), None)
        if size != len(content) or sorted(list(map(list, content))) != keys:
            fail("NameDict content (len / iteration) differs from the operations applied")
        allk = init + [k for _, k in ops]
        if probes != [int(lk(k) in content) for k in allk] or has != probes:
            fail("`in` / has_key disagree with the content")
        deepest = max((len(k) for k in content), default=0)
        if max_depth < deepest:
            fail("max_depth is smaller than the deepest key held (construction path changes the result)")
        elif not reassigned and max_depth != deepest:
            fail("max_depth is not the depth of the deepest key held")
        for q, (mk, mv) in zip(queries, res):
            best = None
            for i in range(len(q)):
                suf = lk(q[i:])
                if suf in content:
                    best = (list(suf), content[suf])
                    break
            if best is None:
                best = ([], content[()]) if () in content else ([b"KeyError"], -1)
            if [lower(x) for x in mk] != [lower(x) for x in best[0]] or mv != best[1]:
                fail("get_deepest_match is not the deepest superdomain key of the final content")
                break
    elif op == 22:
        (mk, mv), probes, size = out
        keys, q = case[1], case[2]
        if not all(probes):
            fail("a key is not found under its lower-cased spelling (hash/eq incoherent in a dict)")
        distinct = {tuple(lower(x) for x in k) for k in keys}
        if size != len(distinct):
            fail("NameDict holds ci-equal keys separately")
        # reference: the longest key that is ci-equal to a non-empty suffix of q; else the empty name
        best = None
        for i in range(len(q)):
            suf = [lower(x) for x in q[i:]]
            idx = [j for j, k in enumerate(keys) if [lower(x) for x in k] == suf]
            if idx:
                best = (q[i:], idx[-1])
                break
        if best is None:
            idx = [j for j, k in enumerate(keys) if k == []]
            best = ([], idx[-1]) if idx else ([b"KeyError"], -1)
        if [lower(x) for x in mk] != [lower(x) for x in best[0]] or mv != best[1]:
            fail("get_deepest_match is not the longest ci-matching superdomain key")
    elif op == 21:
        r, d, same, sub = out
        a, o = case[1], case[2]
        if sub and not same:
            fail("derelativize(relativize(n, o), o) != n")
        if sub and (d[: len(r)] != a[: len(r)] or len(r) != len(a) - len(o)):
            fail("relativize changed the prefix labels")
        if not sub and r != a:
            fail("relativize changed a name that is not a subdomain of the origin")
    elif op == 12:
        p, s = out
        if p + s != case[1] or len(s) != case[2]:
            fail("split does not partition the labels")
    elif op == 13:
        if out != case[1][1:]:
            fail("parent is not the name minus its first label")
    elif op in (14, 15):
        n, o = case[1], case[2]
        res = out
        nabs = n if is_abs(n) else n + o
        rabs = res if is_abs(res) else res + o
        if is_abs(n) != is_abs(res) and res != []:
            fail("relativity not preserved")
        if not nl.fits(rabs):
            fail("result exceeds DNS length limits")
        if common_suffix(rabs, o) != len(o):
            fail("result outside the origin")
        if op == 14:
            c = canon_cmp(rabs, nabs)
            if not (c > 0 or canon_cmp(rabs, o) == 0):
                fail("successor does not sort strictly after the name", sig="succ-order")
        else:
            if canon_cmp(nabs, o) != 0 and canon_cmp(rabs, nabs) >= 0:
                fail("predecessor does not sort strictly before the name", sig="pred-order")
    return F


def widen(ctx, disagreements):
    """Model and implementation differ (or a proof broke) and the oracle found nothing among the
    cases of this run: look harder for a concrete violation of the property text -
    (1) the neighbourhood of every disagreeing case (every value of every octet of the first label,
    both prefix_ok values, successor and predecessor; for comparisons: case variants and swaps),
    (2) a thorough-size oracle-only pass with a different seed."""
    import lib

    found = []

    def run(kind, case):
        case = lib.normalize(case)
        out = lib.normalize(lib.safe_impl(__import__("pC06"), case))
        for f in oracle(ctx, kind, case, out) or []:
            f.setdefault("case_kind", kind)
            f.setdefault("case", case)
            found.append(f)
        return len(found) >= 5

    for d in disagreements[:40]:
        case = d.get("case")
        if not isinstance(case, list) or not case:
            continue
        op = case[0]
        if op in (14, 15) and case[1] and case[1][0]:
            n, o = [bytes(x) for x in case[1]], [bytes(x) for x in case[2]]
            first = n[0]
            for pos in sorted({0, len(first) // 2, len(first) - 1, max(0, len(first) - 2)}):
                for v in range(256):
                    lab = first[:pos] + bytes([v]) + first[pos + 1:]
                    for p in (0, 1):
                        for opx in (14, 15):
                            if run("succ" if opx == 14 else "pred", [opx, [lab] + n[1:], o, p]):
                                return found
        elif op == 2:
            a, b = [bytes(x) for x in case[1]], [bytes(x) for x in case[2]]
            for _ in range(20):
                x, y = nl.case_variant(ctx.rng, a), nl.case_variant(ctx.rng, b)
                if run("cmp", [2, x, y]) or run("cmp", [2, y, x]) or run("triple", [20, x, y, a]):
                    return found
        elif op in (10, 11, 12, 13, 16, 3):
            if run("widen", case):
                return found
    # (2) thorough-size pass, oracle only
    wctx = lib.Ctx(ID, "thorough", ctx.seed + 1000)
    try:
        k = 0
        for kind, case in cases(wctx):
            k += 1
            if k > 400000:
                break
            if run(kind, case):
                break
    finally:
        wctx.cleanup()
    return found


# failing cases are shrunk before they are reported (see namelib.with_shrinking)
oracle = nl.with_shrinking("pC06", _oracle)
