"""C03 - messages survive render-then-parse; compression is sound."""
import struct

import dns.flags
import dns.message
import dns.rrset
import dns.name
import dns.opcode
import dns.rcode
import dns.rdata
import dns.edns
import dns.update
import dns.rdatatype

import msggen as g
from lib import Err, normalize

ID = "C03"
COQ_IMPORTS = "From DV Require Import Model.MessageM."
COQ_RUN = "MessageM.run"
CASE_TIMEOUT = 30.0
TRUSTED = [
    "model: coq/Model/MessageM.v (Renderer, Message.to_wire, Rdataset.to_wire, _WireReader, find_rrset index, "
    "UpdateMessage._parse_rr_header, rcode/opcode packing) on top of coq/Model/NameM.v (tw_loop, ctable, relativize)",
    "RDATA is modelled as pieces (opaque octets / compressible name / non-compressible name); readers for "
    "A NS CNAME SOA PTR MX TXT AAAA SRV RRSIG SIG OPT TSIG, SPF NINFO AVC RESINFO WALLET AFSDB RT RP SSHFP TLSA SMIMEA CERT DNSKEY CDNSKEY OPENPGPKEY EUI48 EUI64 L32 L64 NID HINFO X25 NSEC3PARAM URI KEY DS DLV CDS ZONEMD CAA CSYNC NSEC3 DNAME NSEC BRID HHIT LP TKEY (with the constructors' content checks: digest lengths, reserved values, alphanumeric tag, window order) (any class), KX PX DHCID NSAP NSAP-PTR WKS NAPTR (class IN) and generic types; other per-type codecs are C02's",
    "harness/msggen.py: builds implementation objects through the class constructors and converts parsed "
    "messages back through attribute access (never through to_wire/from_wire of the code under test)",
]
RULE = ("messages come from structured generators (query-like with every opcode, dynamic updates in all "
        "delete/prerequisite forms, large-TXT messages crossing offset 0x3FFF, with and without origin, EDNS, TSIG); "
        "each is rendered by the implementation and by the model (byte-exact), the octets and mutated octets are "
        "parsed by both; distinct = distinct canonical case")


def lower_name(n, origin):
    ls = [g.lower(x) for x in n]
    if (not ls or ls[-1] != b"") and origin is not None:
        ls = ls + [g.lower(x) for x in origin]
    return tuple(ls)


def cases(ctx):
    rng = ctx.rng
    # dns/rdtypes directory vs. the model's table of types with a specific codec
    msgs = []
    n_small = ctx.n(95, 700)
    for i in range(n_small):
        origin = None
        if rng.random() < 0.3:
            origin = [g.gen_label(rng) for _ in range(rng.choice([1, 2, 3]))] + [b""]
        r = rng.random()
        if r < 0.25:
            am = g.gen_update(rng, origin)
            kind = "update"
        else:
            am = g.gen_query_like(rng, origin, rng.choice(["small", "small", "medium", "medium", "large"]))
            kind = "query"
        msgs.append((kind, am, origin))
    for i in range(ctx.n(3, 15)):
        origin = None if rng.random() < 0.7 else [b"big", b"example", b""]
        msgs.append(("big", g.gen_big(rng, origin), origin))
    msgs += builder_messages(rng)
    # an OPT record whose advertised payload is SMALLER than the message itself (the payload is what the
    # sender can receive, not a limit for rendering the message that carries it)
    for i in range(ctx.n(6, 30)):
        payload = rng.choice([512, 512, 1232, 4096])
        origin = None if rng.random() < 0.8 else [b"sp", b"example", b""]
        am = g.gen_query_like(rng, origin, "small", opcode=rng.choice([0, 0, 4]))
        am[3] = [rng.choice([0, 0x8000]), payload, rng.choice([[], [[65001, b"\x01"]]])]
        target = payload + rng.choice([1, 50, 400, 900])
        rds, tot = [], 0
        while tot < target:
            sdata = bytes([255]) + bytes(rng.randrange(256) for _ in range(255))
            if [sdata] not in rds:
                rds.append([sdata])
                tot += 266
        own = [b"bigtxt%d" % i] + ([b""] if origin is None else [])
        am[2][rng.choice([1, 2, 3])].append([own, g.IN, g.TXT, 0, None, 120, rds])
        msgs.append(("small-payload", am, origin))
    # nested chains, shortest suffix first: l1.example., l2.l1.example., ... - every name is one label plus a
    # pointer to the previous name, so decoding the k-th name follows k pointers (depth 20..120)
    for i in range(ctx.n(4, 16)):
        depth = rng.choice([20, 33, 60, 120, rng.randrange(17, 121)])
        origin = None if rng.random() < 0.8 else [b"example", b""]
        base = [b"example", b""] if origin is None else []
        chain = []
        cur = base
        for k in range(depth):
            cur = [bytes([97 + (k * 7 + i) % 26])] + cur
            chain.append(cur)
        style = i % 4
        secs = [[[chain[0] if origin is None else [b"q"], g.IN, g.A, 0, None, 0, []]], [], [], []]
        if style == 0:       # as owners
            for k, nmk in enumerate(chain):
                secs[1 + k % 3 if k > depth // 2 else 1].append([nmk, g.IN, g.A, 0, None, 60, [[bytes([10, 0, k % 256, 1])]]])
            secs[1].sort(key=lambda rs: len(rs[0])); secs[2].sort(key=lambda rs: len(rs[0])); secs[3].sort(key=lambda rs: len(rs[0]))
        elif style == 1:     # inside NS rdata of one record set
            secs[2].append([[b"zone"] + base, g.IN, g.NS, 0, None, 300, [[[0, nmk]] for nmk in chain]])
        elif style == 2:     # MX / CNAME / SOA rdata, one record set per name
            for k, nmk in enumerate(chain):
                own = [b"o%d" % k] + base
                t = (g.MX, g.CNAME, g.SOA)[k % 3]
                rd = {g.MX: [struct.pack("!H", k), [0, nmk]], g.CNAME: [[0, nmk]],
                      g.SOA: [[0, nmk], [0, nmk], struct.pack("!IIIII", k, 1, 2, 3, 4)]}[t]
                secs[1].append([own, g.IN, t, 0, None, 60, [rd]])
        else:                # owners and rdata interleaved, with case variants
            for k, nmk in enumerate(chain):
                tgt = chain[k - 1] if k else nmk
                secs[3].append([[x.upper() if (k % 5 == 0) else x for x in nmk], g.IN, g.NS, 0, None, 60, [[[0, tgt]]]])
        opt = rng.choice([None, [0, 1232, []]])
        msgs.append(("chain", [rng.randrange(65536), 0x8400, secs, opt, None], origin))
    # a fresh name that straddles offset 0x3FFF: it starts at or below the last offset a pointer can reach, some
    # of its suffixes start beyond it (and must not enter the compression table), and a later name shares them
    for d in ([0, 1, 8, 9, 14, 15, 20] if ctx.quick else list(range(0, 24))):
        def straddle(n):
            ex = [b"example", b""]
            secs = [[[[b"q"] + ex, g.IN, g.A, 0, None, 0, []]],
                    [[[b"f"] + ex, g.IN, 65280, 0, None, 60, [[bytes((7 * j + d) & 0xFF for j in range(n))]]],
                     [[b"aaaaaaaa", b"fresh", b"zoneb", b""], g.IN, g.A, 0, None, 60, [[bytes([10, 0, 0, d])]]],
                     [[b"other", b"fresh", b"zoneb", b""], g.IN, g.NS, 0, None, 60, [[[0, [b"ns", b"zoneb", b""]]]]],
                     [[b"AAAAAAAA", b"Fresh", b"zoneb", b""], g.IN, g.MX, 0, None, 60,
                      [[struct.pack("!H", 5), [0, [b"mx", b"other", b"fresh", b"zoneb", b""]]]]]],
                    [], []]
            return [4000 + d, 0x8400, secs, None, None]
        n0 = 16000
        w0 = g.run_render(straddle(n0), None, 65535, 0, 0, 0)
        if isinstance(w0, Err):
            continue
        off = g.walk(bytes(w0))["rrs"][2][7]           # where the owner aaaaaaaa.fresh.zoneb. starts
        msgs.append(("straddle", straddle(n0 + (0x3FFF - d) - off), None))
    # a question section that REPEATS a question (identical, and differing in case only): every copy is a question
    for i in range(ctx.n(8, 30)):
        origin = None if rng.random() < 0.8 else [b"rq", b"example", b""]
        am = g.gen_query_like(rng, origin, "small", opcode=rng.choice([0, 0, 4, 2]))
        if not am[2][0]:
            am[2][0] = [[[b"Example", b"ORG", b""], g.IN, g.A, 0, None, 0, []]]
        q = am[2][0][0]
        copies = [list(q)]
        for k in range(rng.choice([1, 1, 2])):
            c = list(q)
            if rng.random() < 0.6:
                c[0] = [(l.swapcase() if rng.random() < 0.7 else l) for l in q[0]]
            copies.append(c)
        if rng.random() < 0.4:
            copies.insert(1, [[b"other"] + list(q[0][-2:]) if len(q[0]) >= 2 else [b"other", b""], q[1], q[2], 0, None, 0, []])
        am[2][0] = copies
        msgs.append(("repeat-question", am, origin))
    for kind, am, origin in msgs:
        ctx.count("msg:" + kind)
        pad = 0
        reqp = 0
        if am[3] is not None and rng.random() < 0.25:
            pad = rng.choice([1, 16, 128, 468])
        case = [1, am, origin, 0, reqp, 0, pad]
        yield "render:" + kind, case
        w = g.run_render(am, origin, 0, reqp, 0, pad)
        if isinstance(w, Err):
            continue
        pos = [16, 16, 16 | 1, 16 | 8, 16 | 4, 0, 16 | 32, 16 | 2]
        yield "parse:" + kind, [2, w, origin, pos[0]]
        if kind != "big":
            yield "parse:" + kind, [2, w, origin if rng.random() < 0.5 else None, rng.choice(pos)]
            for _ in range(ctx.n(3, 5)):
                mw = g.mutate_fields(rng, w) if rng.random() < 0.5 else g.mutate_wire(rng, w, rng.choice([1, 1, 2]))
                yield "parse:mutated", [2, mw, origin if rng.random() < 0.7 else None, rng.choice(pos + [16 | 2])]
        else:
            # a pointer flipped / a name poked in the far part of the message
            mw = bytearray(w)
            i = rng.randrange(len(w) - 200, len(w))
            mw[i] ^= 1 << rng.randrange(8)
            yield "parse:mutated", [2, bytes(mw), origin, 16]
    # low-level Renderer sequences (TooBig caught by the caller, more records with the same owner
    # afterwards): the compression table must not keep entries of rolled-back octets
    for i in range(ctx.n(70, 600)):
        origin = None if rng.random() < 0.8 else [b"o", b"example", b""]
        mid, flags, ms, ops = g.gen_rseq(rng, origin)
        yield "rseq", [7, origin, mid, flags, ms, ops]
    # hostile hand-made wires
    for w in hostile_wires():
        yield "parse:hostile", [2, w, None, 16]
    # RDATA that the type's constructor must refuse (or just accept): digest lengths, reserved values, tags,
    # type-bitmap windows, counted strings, empty targets
    def one_rr(t, rdata, c=g.IN):
        return (struct.pack("!HHHHHH", 77, 0x8400, 0, 1, 0, 0) + b"\x01a\x00" +
                struct.pack("!HHIH", t, c, 60, len(rdata)) + rdata)
    bad = []
    for t in (g.DS, g.DLV, g.CDS):
        for dt, n in ((0, 0), (0, 1), (0, 2), (1, 19), (1, 20), (1, 21), (2, 32), (2, 31), (3, 32), (3, 0), (4, 48), (4, 47), (5, 0), (5, 9), (255, 3)):
            bad.append((t, struct.pack("!HBB", 1, 8, dt) + bytes(n)))
        bad += [(t, b""), (t, b"\x00\x01\x08"), (t, b"\x00\x01\x08\x01")]
    for sc, ha, n in ((0, 1, 48), (1, 0, 48), (1, 1, 48), (1, 1, 47), (1, 2, 64), (1, 2, 48), (1, 3, 0), (2, 240, 5), (255, 255, 100)):
        bad.append((g.ZONEMD, struct.pack("!IBB", 5, sc, ha) + bytes(n)))
    bad += [(g.ZONEMD, b"\x00\x00\x00\x05\x01"), (g.ZONEMD, b"")]
    for tag, val in ((b"issue", b"x"), (b"", b"x"), (b"is sue", b""), (b"A1", b""), (b"\xe9", b"v"), (b"a-b", b"v"), (b"Z" * 255, b"")):
        bad.append((g.CAA, bytes([0, len(tag)]) + tag + val))
    bad += [(g.CAA, b""), (g.CAA, b"\x00"), (g.CAA, b"\x00\x05abc")]
    for bm in (b"", b"\x00\x01\x40", b"\x00\x00", b"\x00\x21" + bytes(33), b"\x00\x20" + bytes(32), b"\x01\x01\x01\x00\x01\x01",
               b"\x01\x01\x01\x01\x01\x01", b"\x00\x01\x01\x02\x01\x01\xff\x20" + bytes(32), b"\x05", b"\x05\x02\x01", b"\x05\x01\x01\x06"):
        bad.append((g.CSYNC, struct.pack("!IH", 9, 3) + bm))
        bad.append((g.NSEC3, struct.pack("!BBH", 1, 0, 10) + b"\x02ab" + b"\x03xyz" + bm))
    bad += [(g.NSEC3, b"\x01\x00\x00\x0a\x05ab"), (g.NSEC3, b"\x01\x00\x00\x0a\x00\x00"), (g.CSYNC, b"\x00\x00\x00")]
    bad += [(g.URI, b"\x00\x01\x00\x02"), (g.URI, b"\x00\x01\x00\x02x"), (g.URI, b"\x00\x01\x00"),
            (g.HINFO, b"\x01a"), (g.HINFO, b"\x01a\x00"), (g.HINFO, b"\x01a\x01b\x00"), (g.X25, b"\x02a"), (g.X25, b""),
            (g.NSEC3PARAM, b"\x01\x00\x00\x0a\x02ab"), (g.NSEC3PARAM, b"\x01\x00\x00\x0a\x02abc"), (g.NSEC3PARAM, b"\x01\x00\x00\x0a"),
            (g.EUI48, bytes(5)), (g.EUI48, bytes(6)), (g.EUI48, bytes(7)), (g.EUI64, bytes(8)), (g.EUI64, bytes(9)),
            (g.L32, bytes(5)), (g.L32, bytes(6)), (g.L32, bytes(7)), (g.L64, bytes(10)), (g.L64, bytes(9)), (g.NID, bytes(11)),
            (g.SSHFP, b"\x01"), (g.SSHFP, b"\x01\x02"), (g.TLSA, b"\x01\x02"), (g.TLSA, b"\x01\x02\x03"), (g.CERT, bytes(4)), (g.CERT, bytes(5)),
            (g.DNSKEY, bytes(3)), (g.DNSKEY, bytes(4)), (g.KEY, bytes(4)), (g.RP, b"\x00"), (g.RP, b"\x00\x00"), (g.RP, b"\x00\x00\x00"),
            (g.AFSDB, b"\x00\x01"), (g.AFSDB, b"\x00\x01\x00"), (g.SPF, b""), (g.SPF, b"\x00"), (g.SPF, b"\x02a"), (g.WKS, bytes(4)), (g.WKS, bytes(5)),
            (g.NAPTR, bytes(4) + b"\x00\x00\x00\x00"), (g.NAPTR, bytes(4) + b"\x00\x00\x00"), (g.NAPTR, bytes(4) + b"\x01a\x01b\x01c\xc0\x0c"),
            (g.KX, b"\x00\x01\xc0\x0c"), (g.PX, b"\x00\x01\x00\x00"), (g.PX, b"\x00\x01\x00"), (g.OPENPGPKEY, b""), (g.DHCID, b""), (g.NSAP, b"")]
    for bm in (b"", b"\x00\x01\x40", b"\x00\x00", b"\x01\x01\x01\x00\x01\x01", b"\x05", b"\x00\x21" + bytes(33)):
        bad.append((g.NSEC, b"\x01b\x00" + bm))
        bad.append((g.NSEC, b"\xc0\x0c" + bm))
    bad += [(g.NSEC, b""), (g.NSEC, b"\x01b"), (g.DNAME, b"\x01b\x00"), (g.DNAME, b"\x01b\x00\x00"), (g.DNAME, b"\xc0\x0c"), (g.DNAME, b""),
            (g.NSAP_PTR, b"\x01B\x00"), (g.BRID, b""), (g.BRID, b"abc"), (g.HHIT, b"\x00")]
    # IPSECKEY / AMTRELAY: every gateway type, an unknown one, short and over-long addresses, a compressed name,
    # octets after the relay, the D bit
    for gt, gw in ((0, b""), (1, bytes(4)), (1, bytes(3)), (2, bytes(16)), (2, bytes(15)), (3, b"\x02gw\x00"), (3, b"\xc0\x0c"),
                   (3, b"\x02GW\xc0\x0c"), (3, b""), (4, b""), (4, bytes(4)), (255, b""), (0, b"\x00")):
        bad.append((g.IPSECKEY, bytes([10, gt, 2]) + gw + b"key"))
        bad.append((g.IPSECKEY, bytes([10, gt, 2]) + gw))
        bad.append((g.AMTRELAY, bytes([10, gt]) + gw))
        bad.append((g.AMTRELAY, bytes([10, 128 | (gt & 127)]) + gw))
        bad.append((g.AMTRELAY, bytes([10, gt]) + gw + b"x"))
    bad += [(g.IPSECKEY, b""), (g.IPSECKEY, b"\x01\x00"), (g.AMTRELAY, b""), (g.AMTRELAY, b"\x01")]
    # two records of one set whose RDATA names differ in case only: one record for the types whose canonical form
    # downcases the name (RP), two for those that keep the case (NSAP-PTR; DNAME is a singleton: the second replaces)
    def two_rr(t, r1, r2):
        rr = lambda rd: b"\xc0\x0c" + struct.pack("!HHIH", t, g.IN, 60, len(rd)) + rd     # noqa: E731
        return (struct.pack("!HHHHHH", 78, 0x8400, 1, 2, 0, 0) + b"\x01a\x00" + struct.pack("!HH", t, g.IN) + rr(r1) + rr(r2))
    for t in (g.RP, g.NSAP_PTR, g.DNAME, g.AFSDB, g.NSEC, g.KX):
        pre = b"\x00\x01" if t in (g.AFSDB, g.KX) else b""
        post = b"\x00" if t == g.RP else (b"\x00\x01\x40" if t == g.NSEC else b"")
        yield "parse:case-pair", [2, two_rr(t, pre + b"\x03abc\x00" + post, pre + b"\x03aBc\x00" + post), None, 16]
        yield "parse:case-pair", [2, two_rr(t, pre + b"\x03abc\x00" + post, pre + b"\x03abc\x00" + post), None, 16]
    for t, rdata in bad:
        yield "parse:rdata-checks", [2, one_rr(t, rdata), None, 16]
        if t in (g.KX, g.PX, g.WKS, g.NAPTR, g.DHCID, g.NSAP, g.DS, g.IPSECKEY, g.AMTRELAY):
            yield "parse:rdata-checks", [2, one_rr(t, rdata, c=3), None, 16]
    # rcode / opcode / EDNS packing
    for _ in range(ctx.n(100, 1000)):
        flags = rng.choice([0, 0xFFFF, rng.randrange(65536)])
        ef = rng.choice([0, 0xFFFFFFFF, rng.randrange(2**32)])
        v = rng.choice([0, 15, 16, 4095, 4096, -1, rng.randrange(4096), rng.randrange(16), rng.randrange(256)])
        yield "flags", [3, flags, ef, v]
    for _ in range(ctx.n(40, 600)):
        am = g.gen_query_like(rng, None, "small")
        am[2] = [[], [], [], []]
        am[4] = None
        yield "setrcode", [4, am, rng.choice([0, 1, 15, 16, 23, 4095, rng.randrange(4096)]), rng.randrange(16)]
    # EDNS options whose code has a class of its own: octets the class accepts, rejects, or stores normalised
    def opt_wire(options, extra=b""):
        rd = b"".join(struct.pack("!HH", c, len(d)) + d for c, d in options) + extra
        return (struct.pack("!HHHHHH", 79, 0x8000, 0, 0, 0, 1) + b"\x00" + struct.pack("!HHIH", g.OPT, 1232, 0, len(rd)) + rd)
    for t in g.UTF8_GOOD + g.UTF8_BAD:
        yield "parse:option-checks", [2, opt_wire([[rng.choice([22, 23, 24, 25]), t]]), None, 16]
        yield "parse:option-checks", [2, opt_wire([[15, b"\x00\x12" + t]]), None, 16]
    for n in (0, 7, 8, 9, 15, 16, 40, 41):
        yield "parse:option-checks", [2, opt_wire([[10, bytes(range(n))]]), None, 16]
    for family, src in ((1, 0), (1, 1), (1, 7), (1, 9), (1, 20), (1, 31), (1, 32), (1, 33), (2, 1), (2, 57), (2, 127), (2, 128), (2, 129),
                        (0, 8), (3, 8)):
        for scope in (0, src, 32, 128):
            ecs = struct.pack("!HBB", family, src, scope) + b"\xff" * ((src + 7) // 8)
            yield "parse:option-checks", [2, opt_wire([[8, ecs]]), None, 16]
    # REPORTCHANNEL: the agent domain is read with the message parser (pointers into the message are followed,
    # the option must end where the name ends) and rendered uncompressed, case kept
    qhead = struct.pack("!HHHHHH", 80, 0x8000, 1, 0, 0, 1) + b"\x03Www\x07example\x00" + struct.pack("!HH", 1, 1)
    def rc_wire(data, more=b""):
        rd = struct.pack("!HH", 18, len(data)) + data + more
        return qhead + b"\x00" + struct.pack("!HHIH", g.OPT, 1232, 0, len(rd)) + rd
    for data in (b"\x05agent\x07Example\x00", b"\x00", b"\x05agent\xc0\x10", b"\xc0\x0c", b"\x05agent\xc0\x0c\x00", b"\x05agent",
                 b"", b"\x05agent\x00\x00", b"\x45agent\x00", b"\xc0\x30", b"\x05agent\xc0\x31", b"\x3f" + b"a" * 63 + b"\x00",
                 (b"\x3f" + b"a" * 63) * 4 + b"\x00", (b"\x3f" + b"a" * 63) * 3 + b"\x3d" + b"b" * 61 + b"\x00", b"\x01a\x80\x00"):
        yield "parse:option-checks", [2, rc_wire(data), None, 16]
        yield "parse:option-checks", [2, rc_wire(data, struct.pack("!HH", 3, 2) + b"id"), None, 16]
    for i in range(ctx.n(60, 300)):
        ol = [g.gen_special_option(rng, valid=rng.random() < 0.5) for _ in range(rng.choice([1, 1, 2, 3]))]
        if rng.random() < 0.2:
            ol.insert(rng.randrange(len(ol) + 1), [rng.choice([12, 65001, 18]), b"\x01\x61\x00"])
        yield "parse:option-checks", [2, opt_wire(ol, rng.choice([b"", b"", b"", b"\x00", b"\x00\x03\x00"])), None, 16]
    # a limit that is EXACTLY the size of the message (as max_size, as request payload): it still renders whole
    k = 0
    for kind, am, origin in msgs:
        w = g.run_render(am, origin, 0, 0, 0, 0)
        if isinstance(w, Err) or len(w) < 512 or kind == "big":
            continue
        k += 1
        if k > ctx.n(8, 40):
            break
        yield "render:exact-limit", [1, am, origin, len(w), 0, 0, 0]
        yield "render:exact-limit", [1, am, origin, 0, len(w), 0, 0]


def builder_messages(rng):
    """messages built with the public builders (make_query/make_response/UpdateMessage API)"""
    out = []
    q = dns.message.make_query("www.Example.com.", "MX", use_edns=0, want_dnssec=True)
    q.id = 4660
    out.append(("builder", g.message_abs(q), None))
    r = dns.message.make_response(q)
    r.set_rcode(dns.rcode.BADVERS)
    out.append(("builder", g.message_abs(r), None))
    u = dns.update.UpdateMessage("example.com.", id=7)
    u.add("c.example.com.", 300, "A", "1.2.3.4")
    u.add("c.example.com.", 300, "MX", "10 mail.example.com.")
    u.delete("d.example.com.", "A")
    u.delete("d.example.com.", "A", "1.2.3.4")
    u.replace("e.example.com.", 300, "A", "1.2.3.4")
    u.present("a.example.com.", "A", "1.2.3.4")
    out.append(("builder", g.message_abs(u), None))
    # the class-ANY/NONE spellings produced by present()/absent()/delete(name)
    u2 = dns.update.UpdateMessage("example.com.", id=8)
    u2.present("a.example.com.")
    u2.present("a.example.com.", "A")
    u2.absent("b.example.com.")
    u2.absent("b.example.com.", "MX")
    u2.delete("d.example.com.")
    out.append(("builder-meta", g.message_abs(u2), None))
    for how in ("ednsflags", "want_dnssec"):
        b = dns.message.make_query("big.example.", "TXT")
        b.id = 4661
        b.flags |= dns.flags.QR
        if how == "ednsflags":
            b.ednsflags = dns.flags.DO
        else:
            b.want_dnssec(True)
        txt = dns.rrset.from_text_list("big.example.", 60, "IN", "TXT",
                                       ['"%s"' % (chr(97 + k) * 250) for k in range(8)])
        b.answer.append(txt)
        out.append(("builder", g.message_abs(b), None))
    return out


def hostile_wires():
    hdr = struct.pack("!HHHHHH", 1, 0, 1, 0, 0, 0)
    yield hdr + b"\xc0\x0c\x00\x01\x00\x01"                      # self pointer
    yield hdr + b"\xc0\x0e\x00\x01\x00\x01"                      # forward pointer
    yield hdr + b"\x01a\xc0\x0c\x00\x01\x00\x01"                 # pointer back into own name
    yield hdr + b"\x40a\x00\x00\x01\x00\x01"                     # label type 01
    yield hdr + b"\x80a\x00\x00\x01\x00\x01"                     # label type 10
    yield hdr + b"\x3f" + b"a" * 63 + b"\x00\x00\x01\x00\x01"
    yield hdr[:11]
    yield hdr + (b"\x3f" + b"a" * 63) * 4 + b"\x00\x00\x01\x00\x01"   # name too long
    h2 = struct.pack("!HHHHHH", 1, 0, 1, 1, 0, 0)
    q = b"\x01a\x00\x00\x01\x00\x01"
    # answer owner: pointer to 12, then labels run forward over the pointer (furthest beyond pointer)
    yield h2 + q + b"\xc0\x0c\x00\x01\x00\x01\x00\x00\x00\x00\x00\x04\x01\x02\x03\x04"
    yield h2 + b"\x01a\x01b\xc0\x14\x00\x01\x00\x01" + b"\xc0\x0e\x00\x01\x00\x01\x00\x00\x00\x00\x00\x04\x01\x02\x03\x04"
    # OPT twice, OPT not root, TSIG not last, TSIG wrong class
    opt = b"\x00\x00\x29\x04\xd0\x00\x00\x00\x00\x00\x00"
    h3 = struct.pack("!HHHHHH", 1, 0, 0, 0, 0, 2)
    yield h3 + opt + opt
    yield h3 + b"\x01a\x00\x00\x29\x04\xd0\x00\x00\x00\x00\x00\x00" + opt
    tsig_rd = b"\x03alg\x00" + b"\x00" * 6 + b"\x01\x2c\x00\x00" + b"\x00\x01\x00\x00\x00\x00"
    tsig = b"\x03key\x00\x00\xfa\x00\xff\x00\x00\x00\x00" + struct.pack("!H", len(tsig_rd)) + tsig_rd
    yield h3 + tsig + opt
    yield h3 + opt + tsig
    yield h3 + opt + tsig.replace(b"\x00\xfa\x00\xff", b"\x00\xfa\x00\x01")
    # OPT with an option running over, and with a known option code
    yield struct.pack("!HHHHHH", 1, 0, 0, 0, 0, 1) + b"\x00\x00\x29\x04\xd0\x00\x00\x00\x00\x00\x06\x00\x0c\x00\x05ab"
    yield struct.pack("!HHHHHH", 1, 0, 0, 0, 0, 1) + b"\x00\x00\x29\x04\xd0\x00\x00\x00\x00\x00\x06\x00\x03\x00\x02ab"
    # TTL above 2^31-1, two RRs with different TTLs in one rrset, duplicate rdata, singleton type
    a = lambda ttl, ip: b"\xc0\x0c\x00\x01\x00\x01" + struct.pack("!I", ttl) + b"\x00\x04" + ip
    h4 = struct.pack("!HHHHHH", 1, 0x8000, 1, 3, 0, 0)
    yield h4 + q + a(2**31, b"\x01\x02\x03\x04") + a(5, b"\x01\x02\x03\x05") + a(7, b"\x01\x02\x03\x04")
    c = lambda t: b"\xc0\x0c\x00\x05\x00\x01\x00\x00\x00\x09" + struct.pack("!H", len(t)) + t
    yield h4 + q + c(b"\x01x\x00") + c(b"\x01y\x00") + c(b"\x01X\x00")
    # update: zone section with two entries, meta class, non-SOA
    hu = struct.pack("!HHHHHH", 1, 5 << 11, 2, 0, 0, 0)
    yield hu + b"\x01a\x00\x00\x06\x00\x01" * 2
    yield struct.pack("!HHHHHH", 1, 5 << 11, 1, 0, 0, 0) + b"\x01a\x00\x00\x06\x00\xff"
    yield struct.pack("!HHHHHH", 1, 5 << 11, 1, 0, 0, 0) + b"\x01a\x00\x00\x01\x00\x01"
    yield struct.pack("!HHHHHH", 1, 5 << 11, 0, 1, 0, 0) + b"\x01a\x00\x00\x01\x00\xff\x00\x00\x00\x00\x00\x00"
    yield struct.pack("!HHHHHH", 1, 5 << 11, 1, 1, 0, 0) + b"\x01a\x00\x00\x06\x00\x01" + b"\xc0\x0c\x00\x01\x00\xff\x00\x00\x00\x00\x00\x01\x00"
    yield struct.pack("!HHHHHH", 1, 5 << 11, 1, 0, 1, 0) + b"\x01a\x00\x00\x06\x00\x01" + b"\xc0\x0c\x00\x01\x00\xfe\x00\x00\x00\x00\x00\x04\x01\x02\x03\x04"


def impl(case):
    op = case[0]
    if op == 1:
        _, am, origin, max_size, reqp, prefer, pad = case
        return g.run_render(am, origin, max_size, reqp, prefer, pad)
    if op == 2:
        _, w, origin, po = case
        return g.run_parse(w, origin, po)
    if op == 7:
        _, origin, mid, flags, ms, ops = case
        return g.run_rseq(origin, mid, flags, ms, ops)
    if op == 3:
        _, flags, ef, v = case
        try:
            tf = list(dns.rcode.to_flags(v))
        except ValueError:
            tf = Err(103)
        try:
            of = int(dns.opcode.to_flags(v))
        except Exception as e:  # noqa
            of = g.exc_code(e)
        # the flag packing of use_edns (only defined for a version that fits the field)
        m = dns.message.Message(id=1)
        ue = 0
        if 0 <= v <= 255:
            m.use_edns(edns=v, ednsflags=ef)
            ue = int(m.ednsflags)
        else:
            ue = (ef & 0xFF00FFFF) | (v << 16)
        return [int(dns.rcode.from_flags(flags, ef)), tf, int(dns.opcode.from_flags(flags)), of, ue]
    if op == 4:
        _, am, r, o = case
        try:
            m = g.mk_message(am)
            m.set_rcode(r)
            m.set_opcode(o)
            return [g.message_abs(m), int(m.rcode()), int(m.opcode()), int(m.edns)]
        except Exception as e:  # noqa
            return g.exc_code(e)
    return Err(998)


def expected_names(am, origin, padded):
    """names in emission order for a message rendered without truncation"""
    out = []
    mid, flags, secs, opt, tsig = am
    for rs in secs[0]:
        out.append(rs[0])
    for s in (1, 2, 3):
        for rs in secs[s]:
            if not rs[6]:
                out.append(rs[0])
            for rd in rs[6]:
                out.append(rs[0])
                rdclass = rs[1]
                if g.name_fields(rdclass, rs[2]) is not None:
                    for p in rd:
                        if isinstance(p, list):
                            out.append(p[1])
    if opt is not None:
        out.append([b""])
    if tsig is not None:
        out.append(tsig[0])
        out.append(tsig[1][0][1])
    return out


def oracle(ctx, kind, case, out):
    F = []

    def fail(what, **kw):
        F.append({"kind": kind.split(":")[0] + ":" + what, "what": what, "case_kind": kind, **kw})

    op = case[0]
    if op == 7:
        g.check_rseq(case, out, fail)
        return F
    if op == 1:
        # the effective limit: max_size, else the request payload, else 65535 (clamped to 512..65535); the
        # advertised payload of the message's own OPT record is NOT a limit for rendering it
        _, am_, origin_, max_size_, reqp_, prefer_, pad_ = case
        eff = min(max(max_size_ if max_size_ else (reqp_ if reqp_ else 65535), 512), 65535)
        ref = g.run_render(am_, origin_, eff, 0, prefer_, pad_)
        if normalize(out) != normalize(ref):
            fail("max_size=%d request_payload=%d is not rendered like the effective limit %d" % (max_size_, reqp_, eff),
                 sig="limit", got=(out.text if isinstance(out, Err) else len(out)),
                 expected=(ref.text if isinstance(ref, Err) else len(ref)))
            if isinstance(out, Err) and not isinstance(ref, Err):
                out = ref       # go on with the clauses on the rendering at the effective limit
    if isinstance(out, Err):
        if out.code >= 100 and op in (1, 4):
            fail("unexpected exception " + out.text)
        return F
    if op == 3:
        flags, ef, v = case[1:]
        if 0 <= v < 4096:
            f, e = out[1]
            if int(dns.rcode.from_flags(f, e)) != v:
                fail("rcode does not survive to_flags/from_flags")
            if f & ~0xF or e & ~0xFF000000:
                fail("rcode bits outside their fields")
        if 0 <= v < 16 and int(dns.opcode.from_flags(out[3])) != v:
            fail("opcode does not survive to_flags/from_flags")
        return F
    if op == 4:
        am, r, o = case[1:]
        mo, rc, oc, ed = out
        if rc != r or oc != o:
            fail("set_rcode/set_opcode then rcode()/opcode() differ")
        if (mo[1] ^ am[1]) & ~0x780F:
            fail("set_rcode/set_opcode disturbed other header flags")
        return F
    if op != 1:
        return F
    _, am, origin, max_size, reqp, prefer, pad = case
    w = bytes(out)
    # --- independent walker: counts, pointers, names
    try:
        wk = g.walk(w)
    except g.WalkError as e:
        fail("rendered message cannot be walked: " + str(e))
        return F
    if wk["end"] != len(w):
        fail("header counts do not account for all octets", end=wk["end"], length=len(w))
    mid, flags, secs, opt, tsig = am
    exp_counts = [len(secs[0])] + [sum(max(1, len(rs[6])) for rs in secs[s]) for s in (1, 2, 3)]
    exp_counts[3] += (opt is not None) + (tsig is not None)
    if list(wk["counts"]) != exp_counts:
        fail("header counts differ from the records present", counts=list(wk["counts"]), expected=exp_counts)
    for p in g.check_pointers(w):
        fail("compression pointer unsound: " + p, sig="pointer")
        break
    exp = expected_names(am, origin, pad)
    got = [n[1] for n in wk["names"]]
    if len(exp) != len(got):
        fail("number of names on the wire differs", got=len(got), expected=len(exp))
    else:
        nocase = True
        seen = {}
        for e in exp:
            k = lower_name(e, origin)
            for i in range(len(k)):
                suf = k[i:]
                full = tuple((e + (origin or []) if (not e or e[-1] != b"") else e)[i:])
                if suf in seen and seen[suf] != full:
                    nocase = False
                seen.setdefault(suf, full)
        for e, gname in zip(exp, got):
            if lower_name(e, origin) != tuple(g.lower(x) for x in gname):
                fail("independent decoder recovers a different name", expected=e, got=gname, sig="name")
                break
            full = e if (e and e[-1] == b"") else e + (origin or [])
            if nocase and list(full) != list(gname):
                fail("independent decoder recovers different octets (no case variants present)", expected=e, got=gname, sig="name-bytes")
                break
    # --- parse back
    try:
        p = dns.message.from_wire(w, keyring=False, origin=None if origin is None else g.N(origin))
    except Exception as e:  # noqa
        fail("rendered message does not parse: " + type(e).__name__, sig="parse")
        return F
    m = g.mk_message(am, pad=0)
    if p.id != m.id or int(p.flags) != int(m.flags):
        fail("id/flags differ after round trip")
    if int(p.opcode()) != int(m.opcode()) or int(p.rcode()) != int(m.rcode()):
        fail("opcode/rcode differ after round trip")
    if pad == 0:
        if (p.edns, int(p.ednsflags), p.payload, tuple((int(o.otype), o.to_wire()) for o in p.options)) != \
           (m.edns, int(m.ednsflags), m.payload, tuple((int(o.otype), o.to_wire()) for o in m.options)):
            fail("EDNS state differs after round trip")
    else:
        po_ = [(int(o.otype), o.to_wire()) for o in p.options]
        mo_ = [(int(o.otype), o.to_wire()) for o in m.options]
        if (p.edns, int(p.ednsflags), p.payload, po_[:-1]) != (m.edns, int(m.ednsflags), m.payload, mo_) or po_[-1][0] != 12:
            fail("EDNS state differs after round trip (padding)")
    if (p.tsig is None) != (m.tsig is None) or (p.tsig is not None and (p.tsig.name != m.tsig.name or p.tsig[0] != m.tsig[0])):
        fail("TSIG record differs after round trip")

    def canon_sections(x, orig):
        res = []
        for s in x[2]:
            res.append(sorted((lower_name(rs[0], orig), rs[1], rs[2], rs[3], -1 if rs[4] is None else rs[4], rs[5] if rs[6] else 0,
                               tuple(sorted(canon_rd(rd, orig) for rd in rs[6]))) for rs in s))
        return res

    def canon_rd(rd, orig):
        return tuple(("n", lower_name(x[1], orig)) if isinstance(x, list) else ("b", bytes(x)) for x in g.merge(rd))

    try:
        pa = g.message_abs(p)
    except g.Unmodelled:
        pa = None
    # the only known deviation: UpdateMessage.present()/absent()/delete(name) spell the class of an
    # empty prerequisite/delete rrset as ANY/NONE with deleting=None; the reader returns the normal
    # form (zone class, deleting=ANY/NONE).  Tag it so that only this spelling matches the finding.
    form = None
    if (flags >> 11) & 0xF == 5 and secs[0]:
        zc = secs[0][0][1]
        def wc(rs):
            return rs[4] if rs[4] is not None else rs[1]

        norm = [mid, flags, [secs[0]] + [[(rs[:1] + [zc, rs[2], rs[3], wc(rs), rs[5], rs[6]])
                                          if (wc(rs) in (g.ANY, g.NONE) and rs[1] in (g.ANY, g.NONE) and not rs[6]) else rs
                                          for rs in secs[s]] for s in (1, 2, 3)], opt, tsig]
        if norm != am and pa is not None and canon_sections(pa, origin) == canon_sections(norm, origin):
            form = "update-meta-class-spelling"
    if pa is not None and canon_sections(pa, origin) != canon_sections(am, origin):
        fail("records differ after round trip", sig="records", form=form)
    if origin is None:
        try:
            eq = p == m
        except Exception as e:  # noqa
            eq = False
        if not eq:
            fail("parsed message is not equal (Message.__eq__) to the original", sig="eq", form=form)
    # --- render again
    try:
        w2 = p.to_wire(origin=None if origin is None else g.N(origin), want_shuffle=False)
    except Exception as e:  # noqa
        w2 = None
    # (a padded and signed rendering leaves the TSIG owner uncompressed; the parsed message does not
    #  carry the padding configuration, so that combination is outside the re-render clause)
    if w2 != w and not (pad != 0 and tsig is not None):
        fail("re-rendering the parsed message does not reproduce the octets", sig="rerender",
             got=("exception" if w2 is None else len(w2)), length=len(w))
    else:
        try:
            w3 = p.to_wire(origin=None if origin is None else g.N(origin), want_shuffle=False, prefer_truncation=True)
        except Exception as e:  # noqa
            w3 = None
        if w3 != w2:
            fail("re-rendering the parsed message with prefer_truncation (no size limit given) loses octets", sig="rerender")
    # --- rendering does not change the message object: the same object rendered twice gives the
    #     same octets, and its flags and records are what they were
    try:
        mm = g.mk_message(am, pad=pad, request_payload=reqp)
        before = g.message_abs(mm)
        org = None if origin is None else g.N(origin)
        wa = mm.to_wire(origin=org, max_size=max_size, prefer_truncation=bool(prefer), want_shuffle=False)
        fl_after = int(mm.flags)
        after = g.message_abs(mm)
        wb = mm.to_wire(origin=org, max_size=max_size, prefer_truncation=bool(prefer), want_shuffle=False)
    except g.Unmodelled:
        return F
    except Exception as e:  # noqa
        fail("rendering the same message object twice raised " + type(e).__name__, sig="reuse")
        return F
    if fl_after != flags or normalize(after) != normalize(before):
        fail("Message.to_wire changed the message object", sig="objstate")
    if wa != w or wb != w:
        fail("the same message object rendered twice gives different octets", sig="reuse")
    # the origin given through the message's own attribute; the two-octet length prefix
    try:
        mo = g.mk_message(am, pad=pad, request_payload=reqp)
        mo.origin = org
        wo = mo.to_wire(max_size=max_size, prefer_truncation=bool(prefer), want_shuffle=False)
        wp = mo.to_wire(origin=org, max_size=max_size, prefer_truncation=bool(prefer), want_shuffle=False, prepend_length=True)
    except Exception as e:  # noqa
        fail("rendering with Message.origin / prepend_length raised " + type(e).__name__, sig="variants")
        return F
    if wo != w:
        fail("the origin taken from Message.origin renders differently from the origin argument", sig="variants")
    if wp != len(w).to_bytes(2, "big") + w:
        fail("prepend_length does not prefix the rendering with its length", sig="variants")
    return F


def extra(ctx):
    """the model's tables of types/options with a specific codec must match the source tree"""
    import os
    import re

    F = []
    src = open(os.path.join(os.path.dirname(__file__), "..", "coq", "Model", "MessageM.v")).read()

    def table(name):
        m = re.search(name + r" : list Z :=\s*\[([^\]]*)\]", src)
        return sorted(int(x) for x in m.group(1).replace("\n", " ").split(";") if x.strip())

    import lib

    for sub, name in (("ANY", "any_types"), ("IN", "in_types")):
        codes = []
        for f in os.listdir(os.path.join(lib.REPO, "dns", "rdtypes", sub)):
            if f.endswith(".py") and f != "__init__.py":
                codes.append(int(dns.rdatatype.from_text(f[:-3].replace("_", "-"))))
        if sorted(codes) != table(name):
            F.append({"kind": "table", "what": f"model table {name} differs from dns/rdtypes/{sub}", "got": sorted(codes)})
    if g.SPECIAL_OPTIONS != table("special_options"):
        F.append({"kind": "table", "what": "model table special_options differs from dns.edns._type_to_class"})
    if g.UNMODELLED_OPTIONS != table("unmodelled_options"):
        F.append({"kind": "table", "what": "model table unmodelled_options differs from msggen.UNMODELLED_OPTIONS"})
    ctx.notes["extra_evaluations"] = 3
    return F
