"""C04 - untrusted wire or text input only ever raises the library's own errors.

Correspondence: Parser programs, dns.name.from_wire, dns.rdata.from_wire (modelled types),
dns.message.from_wire under every option combination (with the rdata parses traced), ttl /
grange text, name text, tokenizer + unescape -- the same cases through the implementation and
through Model/UntrustedM.run inside Coq.
Oracle: c04probe (all entry points of `observe_at`, every rdata type, every option combination):
an exception outside the library hierarchy, a hang, a value that cannot be rendered again, or a
continue_on_error failure that is raised instead of recorded is a failing input.
"""
from __future__ import annotations

import multiprocessing as mp
import os
import struct
import sys
import time

import dns.edns
import dns.exception
import dns.flags
import dns.grange
import dns.message
import dns.name
import dns.opcode
import dns.rcode
import dns.rdata
import dns.rdataclass
import dns.rdatatype
import dns.tokenizer
import dns.tsig
import dns.ttl
import dns.update  # noqa: F401
import dns.wire

import c04probe as P
import namelib as nl
from lib import Err, VERIF, case_key, normalize

ID = "C04"
COQ_IMPORTS = "From DV Require Import Model.UntrustedM."
COQ_RUN = "UntrustedM.run"
CASE_TIMEOUT = 60.0
IMPL_SECONDS = float(os.environ.get("VERIF_C04_CASE_SECONDS", "5"))
TRUSTED = [
    "models: coq/Model/ParserM.v (dns/wirebase.py Parser, name.from_wire_parser), coq/Model/UntrustedM.v (ExceptionWrapper, "
    "rdata.from_wire_parser around an arbitrary per-type parser, message._WireReader incl. continue_on_error/Truncated/OPT/TSIG/"
    "UPDATE header rules, ttl.from_text, grange.from_text), shared coq/Model/NameM.v and coq/Model/TokM.v",
    "tools/astguards_c04.py: fail-closed AST reading of dns/exception.py, dns/rdata.py, dns/message.py, dns/zonefile.py, dns/edns.py "
    "(the per-type parsers are only reached through ExceptionWrapper; handler shapes) - discharges the hypothesis-free reduction "
    "of the ~90 per-type parsers to theorem wrap_closes",
    "harness/c04probe.py: oracle engine (entry points, seeds from tests/, mutators, watchdog)",
]
ASSUMPTIONS = [
    "per-type parsers (cls.from_wire_parser / cls.from_text) are arbitrary functions in the theorems; that they are only reached "
    "through the wrapper is an AST guard re-checked on every run; their behaviour on concrete inputs is exercised by the oracle only",
    "TSIG validation (dns.tsig.validate), rrset bookkeeping (find_rrset / Rdataset.add), IDNA codecs, the message text reader and the "
    "zone transaction layer are outside the model and covered by the oracle only",
]

# ------------------------------------------------------------------------------ exception codes


def exc_code(e):
    m = [
        (dns.message.ShortHeader, 31),
        (dns.message.TrailingJunk, 32),
        (dns.message.BadEDNS, 33),
        (dns.message.BadTSIG, 34),
        (dns.message.UnknownTSIGKey, 35),
        (dns.message.Truncated, 36),
        (dns.exception.UnexpectedEnd, 21),
        (dns.ttl.BadTTL, 23),
        (dns.tokenizer.UngetBufferFull, 22),
    ]
    for cls, code in m:
        if isinstance(e, cls):
            return Err(code, type(e).__name__)
    if type(e) is dns.exception.SyntaxError:
        return Err(20, "SyntaxError")
    if isinstance(e, AssertionError):
        return Err(103, "AssertionError")
    if isinstance(e, UnicodeEncodeError):
        return Err(103, "UnicodeEncodeError")
    if type(e) is ValueError:
        return Err(104, "ValueError:" + str(e)[:60])
    r = nl.exc_code(e)
    if r.code == 800 and isinstance(e, dns.exception.FormError):
        return Err(7, type(e).__name__)
    if r.code == 800 and isinstance(e, dns.exception.SyntaxError):
        return Err(20, type(e).__name__)
    if r.code == 900:
        return Err(900, type(e).__name__ + ":" + str(e)[:80])
    return r


def tok_exc_code(e):
    if isinstance(e, dns.exception.UnexpectedEnd):
        return Err(21, "UnexpectedEnd")
    if isinstance(e, dns.ttl.BadTTL):
        return Err(23, "BadTTL")
    if isinstance(e, dns.tokenizer.UngetBufferFull):
        return Err(22, "UngetBufferFull")
    if isinstance(e, dns.exception.SyntaxError):
        return Err(20, "SyntaxError")
    if isinstance(e, UnicodeEncodeError):
        return Err(103, "UnicodeEncodeError")
    if isinstance(e, dns.exception.DNSException):
        return Err(800, type(e).__name__)
    return Err(900, type(e).__name__ + ":" + str(e)[:80])


def enc(s):
    if isinstance(s, (bytes, bytearray)):
        return bytes(s)
    if all(ord(c) < 256 for c in s):
        return s.encode("latin-1")
    return [ord(c) for c in s]


def dec(t):
    if isinstance(t, (bytes, bytearray)):
        return t.decode("latin-1")
    return "".join(chr(c) for c in t)


# ------------------------------------------------------------------------------ implementation runners

FMT = {1: "B", 2: "H", 4: "I"}


def run_ops(p, ops, out):
    for op in ops:
        t = op[0]
        if t == 0:
            out.append(p.get_bytes(op[1]))
        elif t == 1:
            out.append(p.get_uint8())
        elif t == 2:
            out.append(p.get_uint16())
        elif t == 3:
            out.append(p.get_uint32())
        elif t == 4:
            out.append(p.get_uint48())
        elif t == 5:
            out.append(list(p.get_struct("!" + "".join(FMT[w] for w in op[1]))))
        elif t == 6:
            out.append(p.get_counted_bytes(op[1]))
        elif t == 7:
            out.append(p.get_remaining())
        elif t == 8:
            p.seek(op[1])
            out.append(None)
        elif t == 9:
            out.append(p.remaining())
        elif t == 10:
            out.append(nl.labels_of(p.get_name(nl.oname(op[1]))))
        elif t == 11:
            with p.restrict_to(op[1]):
                run_ops(p, op[2], out)
        elif t == 12:
            with p.restore_furthest():
                run_ops(p, op[1], out)
        else:
            raise KeyError(t)


def impl_parser(case):
    _, wire, current, ops = case
    try:
        p = dns.wire.Parser(bytes(wire), current)
    except Exception as e:  # noqa
        return [exc_code(e), None]
    out = []
    try:
        run_ops(p, ops, out)
    except Exception as e:  # noqa
        return [exc_code(e), [p.current, p.end, p.furthest]]
    return [out, [p.current, p.end, p.furthest]]


def modelled_type(rdclass, rdtype):
    if rdtype in (2, 5, 12, 39, 15, 6, 16, 41, 250):
        return True
    if rdtype in (1, 28) and rdclass == 1:
        return True
    try:
        return dns.rdata.get_rdata_class(dns.rdataclass.RdataClass.make(rdclass), dns.rdatatype.RdataType.make(rdtype)) is dns.rdata.GenericRdata
    except Exception:  # noqa
        return False


def generic_options_only(data):
    i = 0
    while i + 4 <= len(data):
        ot, ol = struct.unpack("!HH", data[i:i + 4])
        try:
            if ot not in (3, 8, 10, 15, 18, 22, 23, 24, 25) and dns.edns.get_option_class(dns.edns.OptionType.make(ot)) is not dns.edns.GenericOption:
                return False
        except Exception:  # noqa
            return False
        i += 4 + ol
    return True


_unmodelled = set()
_MSG_KW = ("one_rr_per_rrset", "ignore_trailing", "raise_on_truncation", "continue_on_error", "question_only", "xfr")


def msg_kwargs(bits):
    kw = {n: bool(bits >> i & 1) for i, n in enumerate(_MSG_KW)}
    kw["keyring"] = False if bits >> 6 & 1 else None
    return kw


def impl_msg(case):
    _, wire, bits = case
    wire = bytes(wire)
    kw = msg_kwargs(bits)
    trace = []
    real = dns.rdata.from_wire_parser
    modelled = [True]

    def traced(rdclass, rdtype, parser, origin=None):
        ent = [int(rdclass), int(rdtype), parser.current, parser.end - parser.current, 0]
        trace.append(ent)
        if not modelled_type(int(rdclass), int(rdtype)):
            modelled[0] = False
        if int(rdtype) == 41 and not generic_options_only(parser.wire[parser.current:parser.end]):
            modelled[0] = False
        rd = real(rdclass, rdtype, parser, origin)
        ent[4] = 1
        return rd

    dns.rdata.from_wire_parser = traced
    try:
        try:
            m = dns.message.from_wire(wire, **kw)
        finally:
            dns.rdata.from_wire_parser = real
    except Exception as e:  # noqa
        if not modelled[0]:
            _unmodelled.add(case_key(normalize(case)))
        return [exc_code(e), trace]
    if not modelled[0]:
        _unmodelled.add(case_key(normalize(case)))
    orps = kw["one_rr_per_rrset"] or isinstance(m, dns.update.UpdateMessage)
    q = [[nl.labels_of(r.name), int(r.rdtype), int(r.rdclass)] for r in m.sections[0]]
    secs = None
    if orps:
        secs = []
        for si in (1, 2, 3):
            for r in m.sections[si]:
                secs.append([si, nl.labels_of(r.name), int(r.rdclass), int(r.rdtype), int(r.ttl),
                             0 if r.deleting is None else int(r.deleting), len(r)])
    errs = None
    if kw["continue_on_error"]:
        errs = [[exc_code(er.exception), er.offset] for er in m.errors]
    return [[int(m.flags), q, secs, int(m.opt is not None), int(m.tsig is not None), errs], trace]


def _probe_of(case):
    if isinstance(case, list) and case and isinstance(case[0], (str, bytes)):
        entry = case[0].decode() if isinstance(case[0], bytes) else case[0]
        if entry in P.ENTRIES:
            return entry, case[1]
    return None


_hangs = [0]


def impl(case):
    """every case runs under the flag-based watchdog of c04probe (an exception thrown by a signal
    handler would be swallowed by ExceptionWrapper / continue_on_error)"""
    if _hangs[0] >= 8:
        # the implementation loops on this family of inputs; each further hang costs a watchdog period
        return Err(-2, "hang (not re-run: 8 earlier cases already hung)")
    val, exc, hung = P.guarded(lambda: impl1(case), IMPL_SECONDS)
    if hung:
        val, exc, hung = P.guarded(lambda: impl1(case), IMPL_SECONDS * 4)
    if hung:
        _hangs[0] += 1
        return Err(-2, "hang")
    if exc is not None:
        raise exc
    return val


def impl1(case):
    pr = _probe_of(case)
    if pr is not None:
        out, f = P.run_probe(pr[0], pr[1])
        return None if f is None else Err(900, f["what"])
    op = case[0]
    if op == 30:
        return impl_parser(case)
    if op == 31:
        try:
            n, c = dns.name.from_wire(bytes(case[1]), case[2])
            return [nl.labels_of(n), c]
        except Exception as e:  # noqa
            return exc_code(e)
    if op == 32:
        _, wire, rdclass, rdtype, current, rdlen = case
        try:
            dns.rdata.from_wire(rdclass, rdtype, bytes(wire), current, rdlen)
            return None
        except Exception as e:  # noqa
            return exc_code(e)
    if op == 33:
        _, wire, otype, current, olen = case
        try:
            dns.edns.option_from_wire(otype, bytes(wire), current, olen)
            return None
        except Exception as e:  # noqa
            return exc_code(e)
    if op == 34:
        _, cps, which = case
        try:
            t = dns.tokenizer.Token(dns.tokenizer.IDENTIFIER, "".join(chr(c) for c in cps), True)
            if which == 0:
                return [ord(c) for c in t.unescape().value]
            return list(t.unescape_to_bytes().value)
        except Exception as e:  # noqa
            return tok_exc_code(e)
    if op == 40:
        return impl_msg(case)
    if op == 50:
        try:
            return dns.ttl.from_text("".join(chr(c) for c in case[1]))
        except Exception as e:  # noqa
            return exc_code(e)
    if op == 51:
        try:
            return list(dns.grange.from_text("".join(chr(c) for c in case[1])))
        except AssertionError:
            return Err(105, "AssertionError")
        except Exception as e:  # noqa
            return exc_code(e)
    if op == 63:
        return impl_msgtext(case)
    if op == 62:
        import pC09

        return pC09.impl(case[1:])
    if op == 60:
        return nl.run_impl(case[1:])
    if op == 61:
        sub = case[1]
        try:
            if sub == 2:
                tok = dns.tokenizer.Tokenizer(dec(case[2]))
                out = []
                while True:
                    try:
                        t = tok.get(bool(case[3]), bool(case[4]))
                    except Exception as e:  # noqa
                        out.append(tok_exc_code(e))
                        return out
                    out.append([t.ttype, enc(t.value), int(bool(t.has_escape)), None if t.comment is None else enc(t.comment)])
                    if t.is_eof():
                        return out
            if sub == 3:
                return enc(dns.tokenizer.Token(dns.tokenizer.IDENTIFIER, dec(case[2]), bool(case[3])).unescape().value)
            if sub == 4:
                return dns.tokenizer.Token(dns.tokenizer.IDENTIFIER, dec(case[2]), True).unescape_to_bytes().value
        except Exception as e:  # noqa
            return tok_exc_code(e)
    return Err(999, "bad case")


MT_EXC = [
    (dns.message.UnknownHeaderField, 40), (dns.message.NoPreviousName, 41), (dns.opcode.UnknownOpcode, 42),
    (dns.rcode.UnknownRcode, 43), (dns.rdatatype.UnknownRdatatype, 44), (dns.rdataclass.UnknownRdataclass, 45),
    (dns.exception.UnexpectedEnd, 21), (dns.ttl.BadTTL, 23), (dns.tokenizer.UngetBufferFull, 22),
]


def impl_msgtext(case):
    _, _, text, orps, origin, rel = case
    try:
        m = dns.message.from_text(dec(text), one_rr_per_rrset=bool(orps), origin=nl.oname(origin), relativize=bool(rel))
    except Exception as e:  # noqa
        for cls, code in MT_EXC:
            if isinstance(e, cls):
                return Err(code, type(e).__name__)
        if type(e) is dns.exception.SyntaxError:
            return Err(20, "SyntaxError")
        r = nl.exc_code(e)
        if r.code == 800 and isinstance(e, dns.exception.SyntaxError):
            return Err(20, type(e).__name__)
        if r.code == 900:
            return Err(900, type(e).__name__ + ":" + str(e)[:80])
        return r
    upd = isinstance(m, dns.update.UpdateMessage)
    q = [[nl.labels_of(r.name), int(r.rdtype), int(r.rdclass)] for r in m.sections[0]]
    secs = None
    if orps or upd:
        secs = []
        for si in (1, 2, 3):
            for r in m.sections[si]:
                secs.append([si, nl.labels_of(r.name), int(r.rdclass), int(r.rdtype), int(r.ttl), 0 if r.deleting is None else int(r.deleting), len(r)])
    return [int(m.flags), None if m.opt is None else int(m.ednsflags), q, secs]


_MT_META = {"ANY", "AXFR", "IXFR"}
_SCHEMA_TYPES = None


def schema_types():
    """type codes for which C05's Model/RdTextM.v has a text schema (read from the Coq source:
    the `rdtype =? N` tests of schema_of)"""
    global _SCHEMA_TYPES
    if _SCHEMA_TYPES is None:
        import re as _re

        src = open(os.path.join(os.path.dirname(os.path.abspath(__file__)), "..", "coq", "Model", "RdTextM.v")).read()
        i = src.index("Definition schema_of")
        j = src.index("\nDefinition ", i + 10)
        _SCHEMA_TYPES = {int(x) for x in _re.findall(r"rdtype =\? (\d+)", src[i:j]) if int(x) < 65536}
    return _SCHEMA_TYPES


def _mt_type_ok(u):
    """a type mnemonic the message-text instance treats like the library: it has a text schema in
    RdTextM, or the library has no class for it either (GenericRdata)"""
    if u in _MT_META:
        return True
    try:
        t = dns.rdatatype.from_text(u)
    except Exception:  # noqa
        return True           # not a mnemonic at all
    if int(t) in schema_types():
        return True
    return dns.rdata.get_rdata_class(dns.rdataclass.IN, t).__name__ == "GenericRdata"


def msgtext_in_model(text):
    """the fragment the executable instance covers: ASCII, any int(x, 0) spelling of the TTL,
    class IN (or the UPDATE meta classes), types of the instance's table or TYPEnnn, no generic
    syntax for known types"""
    if isinstance(text, list):
        return False
    t = bytes(text).decode("latin-1")
    if any(ord(c) > 126 for c in t):
        return False
    import re as _re

    for tok in _re.findall(r"[^\s()\";]+", t):
        u = tok.upper()
        if _re.fullmatch(r"[A-Z][A-Z0-9_-]*", u) and not _re.fullmatch(r"TYPE\d+", u) and not _mt_type_ok(u):
            return False              # a type the library implements and RdTextM has no schema for
    if "\\" in t and _re.search(r"\sLOC\s", t, _re.I):
        # LOC passes unescaped token text to float(), which accepts what no other field does (escaped
        # white space around the number, '1_0', 'nan' spellings ...): C05's loc_meters models the
        # plain spellings only
        return False
    if "\\#" in t:
        # generic syntax: only for types that are generic for the library too (for a known type
        # dns.rdata.from_text goes through the wire codec, which this instance does not have)
        for ln in t.split("\n"):
            if "\\#" in ln:
                mm = _re.search(r"TYPE(\d+)\s+\\#", ln, _re.I)
                if not mm:
                    return False
                n = int(mm.group(1))
                if n <= 65535 and (dns.rdata.get_rdata_class(dns.rdataclass.IN, n).__name__ != "GenericRdata"
                                   or dns.rdata.get_rdata_class(dns.rdataclass.CH, n).__name__ != "GenericRdata"):
                    return False
    return True


def in_model(kind, case):
    if _probe_of(case) is not None:
        return False
    if case[0] == 63:
        return msgtext_in_model(case[2])
    if case[0] == 40:
        return case_key(normalize(case)) not in _unmodelled
    return True


# ------------------------------------------------------------------------------ generators


def nm(labels):
    return b"".join(bytes([len(l)]) + l for l in labels) + b"\0"


def gen_wire_name(rng, base_len):
    r = rng.random()
    if r < 0.3:
        return b"\xc0\x0c"
    if r < 0.4:
        return bytes([0xC0 | rng.randrange(2), rng.randrange(256)])
    if r < 0.5:
        return b"\0"
    ls = [bytes(rng.choice(b"abcwxyz019-") for _ in range(rng.choice([1, 2, 3, 7, 63]))) for _ in range(rng.choice([1, 1, 2, 3]))]
    w = b"".join(bytes([len(l)]) + l for l in ls)
    return w + (b"\0" if rng.random() < 0.7 else b"\xc0\x0c")


def gen_option_value(rng, ot, base_len):
    """option data for option type ot (well formed and boundary forms)"""
    if ot == 8:
        fam = rng.choice([1, 1, 2, 2, 0, 3])
        src = rng.choice([0, 1, 8, 24, 25, 32, 33, 40, 56, 128, 129, 255])
        nb = (src + 7) // 8
        v = struct.pack("!HBB", fam, src, rng.choice([0, 0, src, 32, 33, 128, 129])) + \
            bytes(rng.randrange(256) for _ in range(rng.choice([nb, nb, nb, nb + 1, max(0, nb - 1)])))
    elif ot == 10:
        v = bytes(rng.randrange(256) for _ in range(rng.choice([8, 8, 16, 24, 40, 41, 15, 7, 0, 12])))
    elif ot == 15:
        txt = rng.choice([b"", b"stale", b"x\x00", b"\x00\x00", "caf\u00e9".encode(), b"\xc3", b"\xe2\x82\xac", b"\xed\xa0\x80", b"\xf0\x9f\x98\x80",
                          b"\xc0\xaf", b"\xf4\x90\x80\x80", b"\xe0\x80\x80", b"ok\xff", b"\xf0\x90\x80", b"a\x00b\x00"])
        v = struct.pack("!H", rng.choice([0, 3, 24, 65535])) + txt if rng.random() < 0.9 else bytes(rng.choice([0, 1]))
    elif ot == 18:
        v = gen_wire_name(rng, base_len) if rng.random() < 0.8 else b"\x03abc"
    elif ot in (22, 23, 24, 25):
        v = rng.choice([b"", b"en", b"mailto:abuse@example.com", "caf\u00e9".encode(), b"\xc3", b"\xed\xa0\x80", b"ok\xff", b"x\x00",
                        b"\xf0\x9f\x98\x80", b"\xf4\x90\x80\x80"])
    else:
        v = bytes(rng.randrange(256) for _ in range(rng.choice([0, 1, 4, 9])))
    return v


def gen_modelled_rdata(rng, rdtype, base_len):
    if rdtype == 1:
        return bytes(rng.randrange(256) for _ in range(4))
    if rdtype == 28:
        return bytes(rng.randrange(256) for _ in range(16))
    if rdtype in (2, 5, 12, 39):
        return gen_wire_name(rng, base_len)
    if rdtype == 15:
        return struct.pack("!H", rng.randrange(65536)) + gen_wire_name(rng, base_len)
    if rdtype == 6:
        return gen_wire_name(rng, base_len) + gen_wire_name(rng, base_len) + bytes(rng.randrange(256) for _ in range(20))
    if rdtype == 16:
        out = b""
        for _ in range(rng.choice([1, 1, 2, 3])):
            s = bytes(rng.randrange(256) for _ in range(rng.choice([0, 1, 5, 20])))
            out += bytes([len(s)]) + s
        return out
    if rdtype == 41:
        out = b""
        for _ in range(rng.choice([0, 1, 2, 3])):
            ot = rng.choice([65001, 4, 100, 3, 8, 8, 8, 10, 10, 15, 15, 18, 22, 23, 24, 25])
            v = gen_option_value(rng, ot, base_len)
            out += struct.pack("!HH", ot, len(v) if rng.random() < 0.93 else rng.choice([0, len(v) + 1, max(0, len(v) - 1)])) + v
        return out
    if rdtype == 250:
        mac = bytes(rng.randrange(256) for _ in range(rng.choice([0, 16, 32])))
        other = bytes(rng.randrange(256) for _ in range(rng.choice([0, 0, 6])))
        return nm([b"hmac-sha256"]) + struct.pack("!HIH", 0, 1700000000, 300) + struct.pack("!H", len(mac)) + mac + \
            struct.pack("!HHH", rng.randrange(65536), rng.choice([0, 0, 0, 16, 17, 18, 4095, 4096, 65535]), len(other)) + other
    return bytes(rng.randrange(256) for _ in range(rng.choice([0, 1, 3, 10])))


MODELLED_TYPES = [1, 28, 2, 5, 12, 39, 15, 6, 16, 65280, 65281, 1, 2, 15, 16]


def gen_model_message(rng):
    opcode = rng.choice([0, 0, 0, 0, 5, 5, 4, 2])
    flags = (opcode << 11) | (0x0200 if rng.random() < 0.25 else 0) | rng.choice([0, 0x8000, 0x8180, 0x0100])
    qn = rng.choice([1, 1, 1, 0, 2])
    body = b""
    for _ in range(qn):
        body += nm([b"www", b"example"]) if len(body) == 0 else gen_wire_name(rng, 12)
        if opcode == 5:
            body += struct.pack("!HH", rng.choice([6, 6, 6, 1]), rng.choice([1, 1, 1, 255, 3]))
        else:
            body += struct.pack("!HH", rng.choice([1, 28, 255, 6]), rng.choice([1, 1, 255]))
    counts = [0, 0, 0]
    recs = []
    for _ in range(rng.choice([0, 1, 2, 3, 5])):
        sec = rng.choice([0, 0, 1, 2])
        t = rng.choice(MODELLED_TYPES)
        c = 1
        if opcode == 5:
            c = rng.choice([1, 1, 255, 254, 254])
        elif rng.random() < 0.1:
            c = rng.choice([3, 4, 255, 254])
        recs.append((sec, t, c))
    if rng.random() < 0.3:
        recs.append((2, 41, rng.choice([512, 1232, 4096])))
    if rng.random() < 0.06:
        recs.append((rng.choice([0, 1, 2]), 41, 1232))
    if rng.random() < 0.2:
        recs.append((2, 250, 255))
    recs.sort(key=lambda r: r[0])
    if rng.random() < 0.05:
        rng.shuffle(recs)
        recs.sort(key=lambda r: r[0])
    spans = []
    hdrlen = 12
    for sec, t, c in recs:
        counts[sec] += 1
        owner = b"\0" if t == 41 and rng.random() < 0.9 else (nm([b"keyname"]) if t == 250 else gen_wire_name(rng, 12))
        rd = gen_modelled_rdata(rng, t, hdrlen + len(body))
        if opcode == 5 and c in (255, 254) and t not in (41, 250) and rng.random() < 0.6:
            rd = b"" if (c == 255 or sec == 0) else rd
        ttl = rng.choice([0, 300, 0x7FFFFFFF, 0x80000000, 0xFFFFFFFF])
        rec = owner + struct.pack("!HHIH", t, c, ttl, len(rd)) + rd
        spans.append((hdrlen + len(body) + len(owner) + 10, len(rd)))
        body += rec
    if rng.random() < 0.1:
        body += bytes(rng.randrange(256) for _ in range(rng.choice([1, 2, 5])))
    if rng.random() < 0.1:
        counts[rng.randrange(3)] += rng.choice([1, 2, 100, 100, 700])
    hdr = struct.pack("!HHHHHH", rng.randrange(65536), flags, qn, min(counts[0], 65535), min(counts[1], 65535), min(counts[2], 65535))
    return hdr + body, spans


def fixed_messages():
    q = nm([b"www", b"example"]) + struct.pack("!HH", 1, 1)
    a_ok = b"\xc0\x0c" + struct.pack("!HHIH", 1, 1, 300, 4) + b"\x0a\0\0\x01"
    a_short = b"\xc0\x0c" + struct.pack("!HHIH", 1, 1, 300, 3) + b"\x0a\0\0"
    mx_ok = b"\xc0\x0c" + struct.pack("!HHIH", 15, 1, 0x80000000, 4) + b"\0\x0a\xc0\x0c"
    tsig_rd = nm([b"hmac-sha256"]) + struct.pack("!HIH", 0, 1700000000, 300) + struct.pack("!H", 0) + struct.pack("!HHH", 7, 0, 0)
    tsig = nm([b"keyname"]) + struct.pack("!HHIH", 250, 255, 0, len(tsig_rd)) + tsig_rd
    opt = b"\0" + struct.pack("!HHIH", 41, 1232, 0, 0)
    out = []
    # failing record in the middle, good ones around it, a TSIG last, trailing junk
    out.append(struct.pack("!HHHHHH", 1, 0x8180, 1, 3, 0, 1) + q + a_ok + a_short + mx_ok + tsig + b"\xff\xff")
    # OPT in the answer section (BadEDNS), records after it
    out.append(struct.pack("!HHHHHH", 2, 0x8180, 1, 2, 0, 1) + q + opt + a_ok + opt)
    # two OPTs in additional; TSIG not last
    out.append(struct.pack("!HHHHHH", 3, 0x0100, 1, 0, 0, 3) + q + opt + tsig + opt)
    # TC set, short record, then a good one
    out.append(struct.pack("!HHHHHH", 4, 0x8380, 1, 2, 0, 0) + q + a_short + a_ok)
    # UPDATE: zone SOA, prerequisite (class ANY, empty), update (class NONE with rdata, class ANY with rdata = FormError)
    zq = nm([b"example"]) + struct.pack("!HH", 6, 1)
    pre = nm([b"a", b"example"]) + struct.pack("!HHIH", 1, 255, 0, 0)
    upd1 = nm([b"b", b"example"]) + struct.pack("!HHIH", 1, 254, 0, 4) + b"\x0a\0\0\x02"
    upd2 = nm([b"c", b"example"]) + struct.pack("!HHIH", 1, 255, 0, 4) + b"\x0a\0\0\x03"
    upd3 = nm([b"d", b"example"]) + struct.pack("!HHIH", 16, 1, 300, 2) + b"\x01x"
    out.append(struct.pack("!HHHHHH", 5, 0x2800, 1, 1, 3, 0) + zq + pre + upd1 + upd2 + upd3)
    # UPDATE whose zone section is not a SOA
    out.append(struct.pack("!HHHHHH", 6, 0x2800, 1, 0, 1, 0) + q + upd1)
    return out


def gen_ops(rng, depth=0):
    ops = []
    for _ in range(rng.choice([1, 2, 3, 5, 8])):
        r = rng.random()
        if r < 0.2:
            ops.append([0, rng.choice([0, 1, 2, 3, 5, 10, 63, 64, 300, -1])])
        elif r < 0.4:
            ops.append([rng.choice([1, 2, 3, 4])])
        elif r < 0.48:
            ops.append([5, [rng.choice([1, 2, 4]) for _ in range(rng.choice([1, 2, 4, 6]))]])
        elif r < 0.56:
            ops.append([6, rng.choice([1, 1, 2, 0, 3])])
        elif r < 0.62:
            ops.append([7])
        elif r < 0.70:
            ops.append([8, rng.choice([0, 1, 5, 12, 20, 40, 1000, -1])])
        elif r < 0.76:
            ops.append([9])
        elif r < 0.86:
            ops.append([10, None if rng.random() < 0.7 else rng.choice([[b"example", b""], [b""], []])])
        elif r < 0.95 and depth < 3:
            ops.append([11, rng.choice([0, 1, 2, 4, 6, 10, 20, 300, -1]), gen_ops(rng, depth + 1)])
        elif depth < 3:
            ops.append([12, gen_ops(rng, depth + 1)])
    return ops


TTL_ATOMS = ["0", "1", "9", "30", "300", "4294967295", "4294967296", "w", "d", "h", "m", "s", "W", "D", "H", "M", "S", "x", " ", "-", "+",
             "1w", "2d", "3h", "4m", "5s", "٣", "１", "²", "é", "K", "99999999999", "00"]
GR_ATOMS = ["0", "1", "2", "9", "10", "255", "-", "/", "-", "/", "a", " ", "٣", "１", "²", "+", "00"]


class _SubCtx:
    """a private context for a borrowed case generator (own PRNG stream, same tier)"""

    def __init__(self, ctx, salt):
        import random as _r

        self.tier = ctx.tier
        self.seed = ctx.seed
        self.rng = _r.Random(ctx.seed * 7919 + salt)
        self.notes = {}
        self.dist = {}

    @property
    def quick(self):
        return self.tier == "quick"

    def n(self, q, t):
        return q if self.tier == "quick" else t

    def count(self, key, k=1):
        pass


def zone_model_cases(ctx):
    """whole zone files / read_rrsets texts through dns.zone.from_text and through C09's model
    (Model/ZoneTextM.v), on which no_internal_zonefile / no_internal_read_rrsets are stated; the
    generator, the implementation runner and the modelled-fragment filter are C09's"""
    import pC09

    limit = ctx.n(250, 1500)
    n = 0
    for kind, case in pC09.cases(_SubCtx(ctx, 909)):
        if case[0] in (1, 6):
            case = normalize(case)
            if pC09.in_model(kind, case):
                yield "zone_model", [62] + case
                n += 1
                if n >= limit:
                    return


MT_HDR = ["id 1234", "id 0", "id 65535", "id 65536", "id x", "opcode QUERY", "opcode UPDATE", "opcode NOTIFY", "opcode 2", "opcode 15", "opcode 16",
          "opcode BOGUS", "rcode NOERROR", "rcode NXDOMAIN", "rcode BADVERS", "rcode 3", "rcode 4095", "rcode 4096", "rcode nope", "flags QR AA RD",
          "flags qr tc", "flags", "flags QR XX", "edns 0", "edns 1", "edns 255", "edns 256", "eflags DO", "eflags do DO", "eflags XX", "payload 1232",
          "payload 65535", "payload 65536", "bogus 1", "id", "opcode", "rcode \"NOERROR\"", "id 1 2"]
MT_RR = ["www.example. 300 IN A 10.0.0.1", "www.example. IN A 10.0.0.2", "www.example. A 10.0.0.3", " 300 IN AAAA ::1", "@ 0 IN NS ns.example.",
         "mail 4294967295 IN MX 10 mx.example.", "mail 4294967296 IN MX 10 mx", "t 60 IN TXT \"a b\" c", "s IN SRV 1 2 3 target", "x 5 IN TYPE65280 \\# 2 abcd",
         "x 5 IN TYPE65280 \\# 3 abcd", "c IN CNAME d", "e 1 IN SOA a b 1 2 3 4 5", "p IN PTR q.", "w 7 IN A", "w 7 IN A 1.2.3", "w 7 IN BOGUS 1", "w 7 IN TYPE65536 \\# 0",
         "w 7 IN TYPE0 \\# 0", "a.b.c. 1 IN DNAME d.e.", "( x 1 IN A 1.2.3.4 )", "x 1 IN MX ( 10 y )", "x 1 IN A 1.2.3.4 ; c", "\\065 1 IN A 1.2.3.4", "a\\ 1 IN A 1.2.3.4",
         "l" * 64 + " 1 IN A 1.2.3.4", "x 1 IN MX 65536 y", "x 1 IN TXT \"unterminated"]
MT_Q = ["www.example. IN A", "www.example. A", "example. IN SOA", "example. ANY ANY", " IN MX", "www.example. IN", "www.example. IN BOGUS", "www.example. IN TYPE1 x",
        "www.example. NONE A", "example. IN SOA extra"]
MT_CLS = ["c 5 CH A ns.example. 12", "c 5 CH A ns.example. 8", "c 5 CHAOS A x 0777", "c 5 CH A 10.0.0.1", "c 5 HS A 10.0.0.1", "c 5 HS TXT \"x\"", "c 5 CH TXT \"x\" y",
          "c 5 CLASS3 A n 1", "c 5 CLASS1 A 10.0.0.1", "c 5 CLASS65535 TXT q", "c 5 CLASS65536 TXT q", "c 5 INTERNET A 10.0.0.1", "c 5 HESIOD MX 1 m", "c 5 RESERVED0 A 1.2.3.4",
          "c 5 CH SRV 1 2 3 t", "c 5 CH AAAA ::1", "c 5 CH NS n", "c CH A \\# 3 006161", "c 9 CH TYPE1 \\# 3 000001", "c CLASS3 TYPE1 \\# 0"]
MT_TTL = ["0x10", "0X1f", "0o17", "0b101", "0_1", "0x_1f", "1_0", "1__0", "_1", "1_", "+5", "-0", "-1", "00", "0_0", "01", "0x", "0b2", "0o8", "0xg", "4294967295", "0xffffffff",
          "0x100000000", "4_294_967_296", "0b" + "1" * 33, "+0x10", "-0x1", "1e3", "0.5", "0x1.8", "١"]
MT_UPD = ["foo ANY A", "foo ANY ANY", "foo NONE A 10.0.0.9", "foo NONE A", "foo 300 IN A 10.0.0.1", "foo ANY A 10.0.0.1", "bar 0 ANY MX", "bar 0 NONE MX 10 x", "foo 300 A 10.0.0.5"]


def gen_msgtext(rng):
    upd = rng.random() < 0.3
    lines = []
    good_hdr = ["id 1234", "opcode QUERY", "rcode NOERROR", "rcode NXDOMAIN", "rcode BADVERS", "flags QR AA RD", "flags qr", "edns 0", "eflags DO", "payload 1232", "rcode 3", "opcode 0"]
    for _ in range(rng.choice([0, 1, 2, 3, 4])):
        lines.append(rng.choice(good_hdr) if rng.random() < 0.8 else rng.choice(MT_HDR))
    if upd and rng.random() < 0.9:
        lines.insert(rng.randrange(len(lines) + 1), "opcode UPDATE")
    secs = (["ZONE", "PREREQ", "UPDATE", "ADDITIONAL"] if upd else ["QUESTION", "ANSWER", "AUTHORITY", "ADDITIONAL"])
    for sn in secs:
        if rng.random() < 0.25:
            continue
        lines.append(";" + rng.choice([sn, sn, sn, sn.lower(), sn + " ", "HEADER", "0", "2", "3", "4", "comment"]))
        for _ in range(rng.choice([0, 1, 1, 2, 3])):
            if rng.random() < 0.6:
                # mostly well-formed lines
                if sn == "QUESTION":
                    lines.append(rng.choice(MT_Q[:4]))
                elif sn == "ZONE":
                    lines.append("example. IN SOA")
                elif upd and sn != "ADDITIONAL":
                    lines.append(rng.choice(["foo ANY A", "foo ANY ANY", "foo NONE A 10.0.0.9", "foo 300 IN A 10.0.0.1", "bar 0 NONE MX 10 x"] if sn == "UPDATE" else ["foo ANY A", "foo ANY ANY", "foo NONE A", "foo 0 IN A 10.0.0.1"]))
                else:
                    lines.append(rng.choice(MT_RR[:6] + MT_RR[7:10] + MT_RR[11:14] + MT_CLS[:3]))
            elif sn in ("QUESTION", "ZONE"):
                lines.append(rng.choice(MT_Q))
            elif upd and sn != "ADDITIONAL":
                lines.append(rng.choice(MT_UPD + MT_RR[:6]))
            else:
                lines.append(rng.choice(MT_RR + MT_CLS))
    if rng.random() < 0.15:
        lines.insert(rng.randrange(len(lines) + 1), rng.choice(["", ";HEADER", "; just a comment", "id 7"]))
    t = "\n".join(lines) + rng.choice(["\n", "", "\n\n"])
    if rng.random() < 0.25:
        toks = t.split(" ")
        i = rng.randrange(len(toks))
        toks[i] = rng.choice(["", "0", "300", "IN", "A", "ANY", "NONE", "(", ")", "\"", "\\", ";", "@", "x.", "..", "\n", "QR", "TYPE1", "65536", "-1", "a" * 64] + MT_TTL[:12])
        t = " ".join(toks)
    return t


def msgtext_cases(ctx):
    rng = ctx.rng
    for _ in range(ctx.n(500, 6000)):
        t = gen_msgtext(rng)
        o = rng.choice([None, None, [b"example", b""], [b""]])
        yield "msg_text_model", [63, 1, enc(t), rng.randrange(2), o, rng.randrange(2)]
    for tt in MT_TTL:
        yield "msg_text_model", [63, 1, enc("id 1\n;ANSWER\nt.example. " + tt + " IN A 10.0.0.1\n"), 0, None, 0]
        yield "msg_text_model", [63, 1, enc("id 1\n;ANSWER\nt.example. " + tt + " A 10.0.0.1\n"), 0, None, 0]
    for ln in MT_CLS:
        for sec in ("ANSWER", "QUESTION"):
            yield "msg_text_model", [63, 1, enc("id 1\n;" + sec + "\n" + ln + "\n"), 0, None, 0]
    # one record of every type that has a text schema, from the specimen of the type: as it is, and
    # (a sample) with one token replaced by a boundary token
    specs = [(t, text) for (c, t, text, _w) in P.load_seeds().rdatas if c == 1 and text and int(t) in schema_types()]
    for t, text in specs:
        tn = dns.rdatatype.to_text(t)
        for sec, orps in (("ANSWER", 0), ("ADDITIONAL", 1)):
            yield "msg_text_types", [63, 1, enc("id 1\n;" + sec + "\nx.example. 300 IN " + tn + " " + text + "\n"), orps, None, 0]
        yield "msg_text_types", [63, 1, enc("id 1\nopcode UPDATE\n;ZONE\nexample. IN SOA\n;UPDATE\nx 300 IN " + tn + " " + text + "\n"),
                                 0, [b"example", b""], 1]
    for _ in range(ctx.n(300, 5000)):
        t, text = rng.choice(specs)
        toks = P._tok_re.findall(text)
        idx = [i for i, k in enumerate(toks) if k.strip()]
        if not idx:
            continue
        i = rng.choice(idx)
        t2 = "".join(toks[:i] + [rng.choice(P.SWEEP_TOKENS)] + toks[i + 1:])
        yield "msg_text_types", [63, 1, enc("id 1\n;ANSWER\nx.example. 300 IN " + dns.rdatatype.to_text(t) + " " + t2 + "\n"), 0, None, 0]


def cases(ctx):
    yield from zone_model_cases(ctx)
    yield from msgtext_cases(ctx)
    rng = ctx.rng
    s = P.load_seeds()
    wires = [w for w in s.msg_wires] + [r[3] for r in s.rdatas if len(r[3]) > 3]
    # -- Parser programs
    for _ in range(ctx.n(500, 6000)):
        w = rng.choice(wires) if rng.random() < 0.7 else bytes(rng.choice(P.INTERESTING_BYTES) for _ in range(rng.randrange(30)))
        if rng.random() < 0.3:
            w = P.mutate_bytes(rng, w)
        w = w[:200]
        cur = rng.choice([0, 0, 0, 12, 1, len(w), len(w) + 1, -1, rng.randrange(len(w) + 1)])
        yield "parser", [30, w, cur, gen_ops(rng)]
    # -- dns.name.from_wire
    for _ in range(ctx.n(400, 5000)):
        r = rng.random()
        if r < 0.4:
            pre = bytes(rng.randrange(256) for _ in range(rng.choice([0, 3, 12])))
            w = pre + nm([b"www", b"example"]) + gen_wire_name(rng, 0) + gen_wire_name(rng, 0)
            off = rng.choice([len(pre), len(pre) + 13, len(pre) + 4, len(w) - 2])
        elif r < 0.7:
            w = rng.choice(s.msg_wires)
            off = rng.choice([12, rng.randrange(len(w) + 2)])
        else:
            w = bytes(rng.choice(P.INTERESTING_BYTES) for _ in range(rng.randrange(1, 40)))
            off = rng.randrange(len(w) + 1)
        if rng.random() < 0.5:
            w = P.mutate_bytes(rng, w)
        if rng.random() < 0.2:
            # pointer soup: chains, cycles, self references
            n = rng.randint(2, 8)
            w = b"".join(bytes([0xC0, 2 * rng.randrange(n)]) if rng.random() < 0.6 else
                         (bytes([1, rng.randrange(256)]) if rng.random() < 0.5 else b"\0" + bytes([rng.randrange(256)])) for _ in range(n))
            off = 2 * rng.randrange(n)
        if rng.random() < 0.05:
            # long names: 255-octet limit
            w = b"".join(bytes([k]) + b"a" * k for k in [63, 63, 63, rng.choice([60, 61, 62, 63])]) + b"\0"
            off = 0
        yield "name_wire", [31, w[:400], max(-1, min(off, len(w) + 1))]
    # -- dns.rdata.from_wire, modelled types
    for _ in range(ctx.n(400, 5000)):
        t = rng.choice(MODELLED_TYPES + [41, 250])
        c = 1 if rng.random() < 0.9 else rng.choice([4, 254, 255])
        pre = nm([b"www", b"example"]) if rng.random() < 0.5 else b""
        rd = gen_modelled_rdata(rng, t, 0)
        if rng.random() < 0.5:
            rd = P.mutate_bytes(rng, rd)
        rdlen = len(rd) if rng.random() < 0.8 else rng.choice([0, len(rd) + 1, max(0, len(rd) - 1), 70000])
        suf = bytes(rng.randrange(256) for _ in range(rng.choice([0, 0, 3])))
        yield "rdata_wire", [32, pre + rd + suf, c, t, len(pre), rdlen]
    # -- Token.unescape / unescape_to_bytes: escapes over ASCII digits, decimal digits of other scripts,
    #    isdigit()-only characters (superscripts, circled, Kharosthi), letters, backslashes
    esc_atoms = [0x31, 0x32, 0x35, 0x39, 0x30, 0x663, 0x969, 0xFF13, 0xB2, 0xB9, 0x2460, 0x10A40, 0x61, 0x5C, 0x2E, 0xD800]
    import itertools as _it
    for n in (1, 2, 3):
        atoms = (esc_atoms[:12] + [0x61]) if n < 3 else [0x31, 0x39, 0x663, 0xFF13, 0xB2, 0x2460, 0x61]
        for combo in _it.product(atoms, repeat=n):
            for which in (0, 1):
                yield "unescape", [34, [0x5C] + list(combo), which]
    for _ in range(ctx.n(300, 4000)):
        v = [rng.choice(esc_atoms) for _ in range(rng.choice([1, 2, 3, 4, 5, 6, 8]))]
        yield "unescape", [34, v, rng.randrange(2)]
    # -- dns.edns.option_from_wire, the direct option API (every option class)
    for _ in range(ctx.n(300, 4000)):
        ot = rng.choice([65001, 4, 100, 3, 8, 8, 8, 8, 10, 10, 15, 15, 18, 22, 23, 24, 25])
        pre = nm([b"www", b"example"]) if rng.random() < 0.5 else b""
        v = gen_option_value(rng, ot, 0)
        if rng.random() < 0.3:
            v = P.mutate_bytes(rng, v)
        olen = len(v) if rng.random() < 0.8 else rng.choice([0, len(v) + 1, max(0, len(v) - 1), 70000])
        suf = bytes(rng.randrange(256) for _ in range(rng.choice([0, 0, 3])))
        cur = len(pre) if rng.random() < 0.9 else rng.choice([0, len(pre) + len(v) + len(suf), len(pre) + len(v) + len(suf) + 1])
        yield "edns_wire", [33, pre + v + suf, ot, cur, olen]
    # ECS prefix-length boundaries, both families: 32/33 and 128/129 source and scope bits
    for fam in (0, 1, 2, 3):
        for src in (0, 1, 7, 8, 9, 24, 31, 32, 33, 40, 64, 127, 128, 129, 255):
            for scope in (0, 32, 33, 128, 129, 255):
                nb = (src + 7) // 8
                for extra in (0, 1, -1):
                    v = struct.pack("!HBB", fam, src, scope) + bytes(max(0, nb + extra))
                    yield "edns_wire", [33, v, 8, 0, len(v)]
    # -- dns.message.from_wire
    for _ in range(ctx.n(900, 12000)):
        w, spans = gen_model_message(rng)
        if rng.random() < 0.6:
            w = P.mutate_bytes(rng, w, spans)
        yield "msg", [40, w[:600], rng.randrange(128)]
    # fixed messages under every option combination: a failing record in the middle, OPT/TSIG
    # placement, TSIG + trailing junk, UPDATE forms, TC with a short record
    for w in fixed_messages():
        for bits in range(128):
            yield "msg_fixed", [40, w, bits]
    for w in ([b"", b"\0" * 11, b"\0" * 12, b"\0\0\x02\0" + b"\0" * 8, b"\0\0\x02\0\0\x01" + b"\0" * 6]):
        for bits in (0, 4, 8, 12, 2, 16):
            yield "msg", [40, w, bits]
    # -- ttl / grange
    for _ in range(ctx.n(400, 4000)):
        t = "".join(rng.choice(TTL_ATOMS) for _ in range(rng.choice([1, 1, 2, 3, 4, 6])))
        yield "ttl", [50, [ord(c) for c in t]]
    for t in ("1" * 4300, "1" * 4301, "0" * 4300 + "1", "0" * 4299 + "1", "0" * 4290 + "4294967295", "1" * 4301 + "s"):
        yield "ttl", [50, [ord(c) for c in t]]
    for _ in range(ctx.n(300, 2500)):
        t = "".join(rng.choice(GR_ATOMS) for _ in range(rng.choice([1, 2, 3, 3, 4, 5, 6])))
        yield "grange", [51, [ord(c) for c in t], 0]
    # -- name text (NameM op 5) and tokenizer / unescape (TokM ops 2-4)
    for _ in range(ctx.n(300, 4000)):
        atoms = ["a", "www", "example", ".", ".", "\\", "\\.", "\\0", "\\06", "\\065", "\\255", "\\256", "\\999", "@", "*", "x" * 63, "y" * 64,
                 "\\\\", "\x00", "\xff", " ", "\\a", "5"]
        t = "".join(rng.choice(atoms) for _ in range(rng.choice([1, 2, 3, 4, 6])))
        if rng.random() < 0.05:
            t = ".".join(["a" * 63] * 3 + ["b" * rng.choice([59, 60, 61, 62, 63])]) + rng.choice(["", "."])
        o = rng.choice([None, [b""], [b"example", b""], [b"x" * 63, b"y" * 63, b""]])
        yield "name_text", [60, 5, t.encode("latin-1"), o]
    for _ in range(ctx.n(400, 4000)):
        atoms = ["a", "bc", " ", "\t", "\n", ";", "(", ")", '"', "\\", "\\0", "\\06", "\\065", "\\255", "\\256", "\\3a0", "\\\\", "\\\"",
                 "x y", "é", "߿", "\U0001f600", "1", "00", "\\;", "\\("]
        t = "".join(rng.choice(atoms) for _ in range(rng.choice([1, 2, 3, 5, 8])))
        r = rng.random()
        if r < 0.4:
            yield "tok_get", [61, 2, enc(t), rng.randrange(2), rng.randrange(2)]
        elif r < 0.7:
            yield "unescape", [61, 3, enc(t), rng.randrange(2)]
        else:
            if "\\" in t and t.endswith("\\") and not t.endswith("\\\\"):
                t = t[:-1]
            yield "unescape_bytes", [61, 4, enc(t)]


# ------------------------------------------------------------------------------ oracle on the cases


def oracle(ctx, kind, case, out):
    F = []

    def fail(what, **kw):
        F.append({"kind": kind + ":" + what.split(":")[0], "what": what, "impl": out, "sig": kind + ":" + what[:40], **kw})

    def foreign(o):
        return isinstance(o, Err) and (o.code >= 100 or o.code < 0)

    pr = _probe_of(case)
    if pr is not None:
        _, f = P.run_probe(pr[0], pr[1])
        if f is not None:
            f["case"] = case
            return [f]
        return []
    if isinstance(out, Err) and out.code == -2:
        return F  # the hang itself is reported by lib
    op = case[0]
    if op == 30:
        # AssertionError on a negative size is the documented contract of the Parser API itself
        r = out[0] if isinstance(out, list) else out
        if foreign(r) and not (r.code == 103 and has_negative(case[3])):
            fail("Parser primitive raised a non-library exception: " + r.text)
    elif op in (31, 32, 50, 60):
        if foreign(out):
            fail("non-library exception: " + out.text)
    elif op == 34:
        if foreign(out) and not (out.code == 103 and case[2] == 1 and has_surrogate(case[1])):
            fail("Token.unescape raised a non-library exception: " + out.text)
    elif op == 33:
        # the direct option API documents (and tests/test_edns.py pins) exactly ValueError for a
        # malformed ECS / COOKIE option; anything else foreign is a violation
        if foreign(out) and out.code != 104:
            fail("dns.edns.option_from_wire raised a non-library exception: " + out.text)
    elif op == 63:
        if foreign(out):
            fail("dns.message.from_text raised a non-library exception: " + out.text)
    elif op == 62:
        # C09's codes: 107 = the documented zone-semantic ValueError
        if isinstance(out, Err) and (out.code >= 100 or out.code < 0) and out.code not in (107, 998):
            fail("zone text raised a non-library exception: " + out.text)
    elif op == 61:
        outs = out if isinstance(out, list) and case[1] == 2 else [out]
        for o in outs:
            if foreign(o) and not (o.code == 103 and has_surrogate(case[2])):
                fail("non-library exception: " + o.text)
    elif op == 40:
        r, trace = out
        kw = msg_kwargs(case[2])
        if foreign(r):
            fail("dns.message.from_wire raised a non-library exception: " + r.text)
        elif isinstance(r, Err):
            if kw["continue_on_error"] and not (r.code == 31 or (r.code == 36 and kw["raise_on_truncation"])):
                fail(f"continue_on_error=True but {r.text} was raised instead of recorded")
            if r.code == 36 and not kw["raise_on_truncation"]:
                fail("Truncated raised although raise_on_truncation is False")
        else:
            errs = r[5]
            if kw["continue_on_error"]:
                for code, off in errs:
                    if foreign(code):
                        fail("a non-library exception was recorded in errors: " + code.text)
                    if not (12 <= off <= len(case[1])):
                        fail("recorded error offset outside the message")
    return F


def has_negative(ops):
    for op in ops:
        if op[0] in (0, 8, 11) and op[1] < 0:
            return True
        if op[0] == 6 and op[1] < 0:
            return True
        if op[0] == 11 and has_negative(op[2]):
            return True
        if op[0] == 12 and has_negative(op[1]):
            return True
    return False


def has_surrogate(t):
    return isinstance(t, list) and any(0xD800 <= c <= 0xDFFF for c in t)


# ------------------------------------------------------------------------------ AST guards = generated obligations


GEN_C04 = r"""From DV Require Import Base.Prelude Model.NameM Model.SchemaM Model.UntrustedM Proofs.SchemaTable Proofs.ParserSafe Proofs.UntrustedSchema.
From Scratch Require Import GenRdtypes.
Open Scope Z_scope.
Theorem gen_table_ok : forallb entry_ok table = true.
Proof. vm_compute. reflexivity. Qed.
(* dns.rdata.from_wire for EVERY (class, type): get_rdata_class resolves to an entry of the table
   generated from dns/rdtypes/** of this run, or to GenericRdata; for every regular (schema) codec
   the result on arbitrary octets is a record that consumed exactly rdlen and renders to wire
   again, or a FormError-family error - never a Python-level exception *)
Theorem no_internal_rdata_wire_all_types : forall c t w r ck wire cur rdlen,
  bytes_ok wire -> lookup table c t = CSchema w r ck ->
  match decode_rdata None (map fst r) ck wire cur rdlen with
  | Ok vs =>
      (cur + rdlen <= length wire)%nat /\
      exists w', encode_rdata None (map fst w) ck vs = Ok w' /\
                 decode_rdata None (map fst r) ck w' 0 (length w') = Ok vs
  | Lib x => is_form x = true
  | Internal _ => False
  end.
Proof. intros. eapply table_from_wire_family; eauto. exact gen_table_ok. Qed.
Print Assumptions no_internal_rdata_wire_all_types.
(* every module of dns/rdtypes/** is covered: a regular codec (theorem above) or one of the hand
   models of Model/SchemaHand.v (Props/C04.v no_internal_rdata_wire_hand, rdata_wire_hand_renders) *)
Definition hand_keys : list (Z * Z) := [%HANDKEYS%].
Theorem gen_all_types_covered :
  forallb (fun e => match e_codec e with
                    | CSchema _ _ _ => true
                    | CHand _ => existsb (fun k => (fst k =? e_class e) && (snd k =? e_type e)) hand_keys
                    end) table = true.
Proof. vm_compute. reflexivity. Qed.
(* how many (class, type) modules are covered by it, and which are hand-modelled *)
Eval vm_compute in (length (filter (fun e => match e_codec e with CSchema _ _ _ => true | _ => false end) table),
                    map (fun e => (e_class e, e_type e)) (filter (fun e => match e_codec e with CSchema _ _ _ => false | _ => true end) table)).
"""


def generated_schema_obligation(ctx):
    import subprocess

    sys.path.insert(0, os.path.join(VERIF, "tools"))
    import lib as _lib
    import translate_rdtypes as TR

    d = os.path.join(ctx.scratch, "gen")
    os.makedirs(d, exist_ok=True)
    out = []
    try:
        tr = TR.translate(P.REPO)
    except Exception as e:  # fail closed
        return [{"name": "rdtypes-table", "ok": False, "detail": f"translator crashed: {type(e).__name__}: {e}"}]
    out.append({"name": "rdtypes-table-translated", "ok": bool(tr["ok"]),
                "detail": ("%d modules translated" % len(tr["types"])) if tr["ok"] else "translator failed closed: " + "; ".join(tr["errors"])[:300]})
    with open(os.path.join(d, "GenRdtypes.v"), "w") as f:
        f.write(TR.emit_coq(tr))
    hk = "; ".join(f"({t['rdclass']}, {t['rdtype']})" for t in tr["types"] if t["kind"] == "hand" and t.get("hand") in TR.COQ_HAND)
    with open(os.path.join(d, "GenC04.v"), "w") as f:
        f.write(GEN_C04.replace("%HANDKEYS%", hk))
    _lib.coq_make(["Proofs/UntrustedSchema.vo"])
    rc, o1, _ = _lib.run_cmd(["coqc", "-Q", _lib.COQ, "DV", "-Q", d, "Scratch", os.path.join(d, "GenRdtypes.v")], timeout=600)
    rc2, o2 = 1, ""
    if rc == 0:
        rc2, o2, _ = _lib.run_cmd(["coqc", "-Q", _lib.COQ, "DV", "-Q", d, "Scratch", os.path.join(d, "GenC04.v")], timeout=900)
    ok = rc == 0 and rc2 == 0 and "Closed under the global context" in o2
    info = ""
    m = __import__("re").search(r"=\s*\((\d+)%nat,\s*(\[.*?\])\)", o2.replace("\n", " "))
    if m:
        info = f"{m.group(1)} schema codecs; hand-modelled (outside this theorem): {m.group(2)[:200]}"
    out.append({"name": "no_internal_rdata_wire_all_types", "ok": ok,
                "detail": info if ok else ("generated theorem does not check: " + (o1 + o2)[-600:])})
    out.append({"name": "gen_all_types_covered", "ok": ok,
                "detail": "every rdtypes module has a regular or a hand-modelled codec" if ok else "see no_internal_rdata_wire_all_types"})
    return out


def generated_obligations(ctx):
    sys.path.insert(0, os.path.join(VERIF, "tools"))
    import importlib

    g = importlib.import_module("astguards_c04")
    res = g.run(P.REPO)
    # dynamic check of the `api_disciplined` hypothesis on the real per-type parsers
    n, viol = P.check_api_discipline(limit=ctx.n(20000, None))
    res.append({"name": "rdtypes-api-dynamic", "ok": not viol,
                "detail": (f"{n} per-type parses left the Parser inside the message, end restored, furthest monotone" if not viol
                           else "a per-type parser breaks the Parser discipline: " + repr(viol[:2]))})
    # the rdtypes table of THIS tree (tools/translate_rdtypes.py, C02's fail-closed translator) and
    # the all-types theorem instantiated on it
    gen = generated_schema_obligation(ctx)
    res += gen
    bad = [r for r in res if not r["ok"]]
    ctx.notes["ast_guards"] = [{"guard": r["name"], "ok": r["ok"], "detail": r["detail"][:200]} for r in res]
    return {
        "obligations": len(res),
        "discharged": len(res) - len(bad),
        "ok": not bad,
        "theorems": ["astguard:" + r["name"] for r in res],
        "log": "\n".join(f"AST guard {r['name']} failed: {r['detail']}" for r in bad),
        "info": {"guards": len(res)},
    }


# ------------------------------------------------------------------------------ the oracle proper (all entry points)


def extra(ctx):
    """the oracle proper: rounds of fuzz batches on VERIF_C04_PROCS processes until the time box
    (quick 75 s, thorough 600 s) or the probe cap is reached; batch seeds depend only on VERIF_SEED
    and the batch index, so any failure is replayable from its probe alone"""
    t0 = time.time()
    s = P.load_seeds()
    fails = []
    counts = {}
    procs = min(8, int(os.environ.get("VERIF_C04_PROCS", "8")))
    box = float(os.environ.get("VERIF_C04_SECONDS", ctx.n(20, 180)))
    cap = int(os.environ.get("VERIF_C04_PROBES", ctx.n(1500000, 12000000)))
    floor = int(os.environ.get("VERIF_C04_MIN_PROBES", ctx.n(40000, 400000)))
    per = ctx.n(2500, 10000)
    nbatch = 0
    hung = False
    nsweep = 0
    with mp.get_context("fork").Pool(procs) as pool:
        # deterministic sweeps first: every specimen of every type - each token replaced by each
        # boundary token, every truncation and octet substitution of its wire form, and the record
        # inside a message cut at every length, strict and continue_on_error
        sw = [(what, i, procs) for what in ("text", "stretch", "wire", "msg", "esc") for i in range(procs)]
        it = pool.imap_unordered(P.sweep_batch, sw)
        for _ in sw:
            try:
                c, fs = it.next(timeout=900)
            except mp.TimeoutError:
                fails.append({"kind": "hang", "entry": "sweep", "what": "a sweep shard did not finish within 900 s", "sig": "sweep-hang"})
                pool.terminate()
                hung = True
                break
            for k, v in c.items():
                ctx.count("probe:" + k, v)
                nsweep += v
            fails += fs
        n_ex = 0
        if not hung:
            ex = [("small:" + ctx.tier, i, procs) for i in range(procs)]
            it = pool.imap_unordered(P.sweep_batch, ex)
            for _ in ex:
                try:
                    c, fs = it.next(timeout=900)
                except mp.TimeoutError:
                    fails.append({"kind": "hang", "entry": "sweep", "what": "a small-scope shard did not finish within 900 s", "sig": "sweep-hang"})
                    pool.terminate()
                    hung = True
                    break
                for k, v in c.items():
                    ctx.count("probe:" + k, v)
                    n_ex += v
                fails += fs
        t_rand = time.time()
        while not hung:
            done_probes = sum(counts.values())
            if done_probes >= cap or (time.time() - t_rand > box and done_probes >= floor):
                break
            jobs = [(ctx.seed * 7919 + 17 * (nbatch + i), per, None) for i in range(procs)]
            nbatch += procs
            it = pool.imap_unordered(P.fuzz_batch, jobs)
            for _ in jobs:
                try:
                    c, fs = it.next(timeout=900)
                except mp.TimeoutError:
                    fails.append({"kind": "hang", "entry": "batch", "what": "a fuzz batch did not finish within 900 s (the per-probe watchdog did not fire)", "sig": "batch-hang"})
                    pool.terminate()
                    hung = True
                    break
                for k, v in c.items():
                    counts[k] = counts.get(k, 0) + v
                fails += fs
            if any(f.get("kind") == "hang" for f in fails):
                # replayable hangs are in hand; every further one costs a watchdog period
                break
    for k, v in counts.items():
        ctx.count("probe:" + k, v)
    nprobe = sum(counts.values())
    ctx.notes["extra_evaluations"] = nprobe + n_ex + nsweep
    ctx.notes["extra_nontrivial"] = sum(v for k, v in counts.items() if k.endswith(":ok")) + len([k for k in counts if ":exc" in k])
    ctx.notes["exhaustive"] = False
    ctx.notes["oracle_probes"] = {"random": nprobe, "batches": nbatch, "exhaustive_small_scope": n_ex, "systematic_sweeps": nsweep, "seconds": round(time.time() - t0, 1),
                                  "seed_specimens": {"rdatas": len(s.rdatas), "zone_lines": len(s.zone_lines), "test_literals": len(s.texts),
                                                     "wire_literals": len(s.wires), "messages": len(s.msg_wires)}}
    # the shared models may have been rebuilt by someone else while the oracle ran; make sure the
    # compiled model the correspondence is about to load is consistent with its dependencies
    try:
        import lib as _lib

        _lib.coq_make(["Model/UntrustedM.vo"])
    except Exception:  # noqa
        pass
    # de-duplicate by signature, smallest probe first
    fails.sort(key=lambda f: len(repr(f.get("probe"))))
    seen = set()
    out = []
    for f in fails:
        sig = f.get("sig", f["kind"])
        f.setdefault("sig", sig)
        if sig in seen:
            continue
        seen.add(sig)
        pr = f.get("probe")
        f["case"] = P.portable_case(pr[0], pr[1]) if pr else None
        f["case_kind"] = "probe"
        out.append(f)
    return out


def widen(ctx, disagreements):
    """a proof / guard / correspondence obligation broke and the first pass found no failing input:
    search more (other seeds, targeted entries)"""
    fails = []
    procs = 8
    jobs = [(ctx.seed * 104729 + 31 * i + 5, 6000, None) for i in range(procs * 3)]
    with mp.get_context("fork").Pool(procs) as pool:
        for c, fs in pool.imap_unordered(P.fuzz_batch, jobs):
            fails += fs
    # the neighbourhood of each disagreeing message case, through the oracle entry
    for d in disagreements[:50]:
        case = d.get("case")
        if isinstance(case, list) and case and case[0] == 40:
            for bits in range(0, 128):
                out, f = P.run_probe("msg_wire", [bytes(case[1]), bits], seconds=None)
                if f:
                    fails.append(f)
    fails.sort(key=lambda f: len(repr(f.get("probe"))))
    seen = set()
    out = []
    for f in fails:
        sig = f.get("sig", f["kind"])
        if sig in seen:
            continue
        seen.add(sig)
        pr = f.get("probe")
        f["case"] = P.portable_case(pr[0], pr[1]) if pr else None
        f["case_kind"] = "probe"
        out.append(f)
    return out
