"""C20 - B-tree zone flags, delegation index and bounds are a function of zone content.

case = [relativize, origin_labels, [txn, ...]]  or  [relativize, origin_labels, [txn, ...], t]
       (t = branching parameter of the B-trees: 0/absent = the default 127, else a small t so that the
        name index and the delegation index are multi-level trees already for small zones)
txn  = [replacement, commit, [op, ...], [query_name, ...]]
op   = [1, name, rdtype, [rdata ids]]   txn.add(name, rdataset)
       [2, name, rdtype, [rdata ids]]   txn.replace(name, rdataset)
       [3, name]                        txn.delete(name)
       [4, name, rdtype]                txn.delete(name, rdtype)
       [5, name, rdtype, [rdata ids]]   txn.delete(name, rdataset)
out  = one entry per txn: [[op result...], dump, [query result...]]
dump = [[[name, flags, [[rdtype, [rdata ids]]...]]...], [delegation names...]]  of the newest
       committed version (read through a reader transaction) after the txn ended
query result = [left, right|None, closest_encloser, is_equal, is_delegation, cut|None, is_sub]

kinds "load*" go through dns.zone.from_text (oracle only, permutations of one record set).
"""
import itertools

import dns.btree
import dns.btreezone
import dns.exception
import dns.name
import dns.rdata
import dns.rdataclass
import dns.rdataset
import dns.rdatatype
import dns.zone

from lib import Err

ID = "C20"
COQ_IMPORTS = "From DV Require Import Model.BTZoneM."
COQ_RUN = "BTZoneM.run"
CASE_TIMEOUT = 60.0
TRUSTED = [
    "model: coq/Model/BTZoneM.v (dns.zone._validate_name, dns.zone.WritableVersion._maybe_cow_with_name, "
    "dns.btreezone.WritableVersion._is_origin/_maybe_cow_with_name/update_glue_flag/delete_node/put_rdataset/"
    "delete_rdataset, Delegations.get_delegation/is_glue, ImmutableVersion.bounds, the add/replace/delete "
    "dispatch of dns.transaction.Transaction, commit/rollback of dns.zone.Transaction._end_transaction)",
    "the BTreeDict/BTreeSet of dns/btree.py is modelled as a strictly sorted association list with "
    "seek(before=False)/next/prev cursor positions (its correctness as a sorted map is property C19)",
    "rdata are abstract ids; dns.rdataset set algebra (union/difference keep first-insertion order) is "
    "modelled on id lists (its correctness is property C07); dns.node.NodeKind CNAME / other-data exclusion and singleton types are modelled"
    " (types A/NS/TXT/AAAA/MX/CNAME/DNAME/NSEC/RRSIG(CNAME)/RRSIG(NS))",
]
RULE = ("one case = one zone configuration (relativize, origin) and one history of transactions; distinct = "
        "distinct canonical history; non-trivial = the history ran without a harness-level error")
ASSUMPTIONS = [
    "operation names are dns.name.Name objects (only the last label may be empty) and the origin is absolute; then dns.zone._validate_name yields names under the apex (proved: validate_name_valid / names_of_callers_ok)",
    "bounds() is specified when the apex node exists (the code asserts it)",
]

ORIGIN_F, DELEG_F, GLUE_F = 1, 2, 4
NS = 2

E_KEY = 21       # KeyError from _validate_name
E_ASSERT = 31    # AssertionError in bounds (no apex node)
E_VALUE = 32     # ValueError (first writer must be a replacement)


def exc_code(e):
    if isinstance(e, KeyError):
        return Err(E_KEY, "KeyError")
    if isinstance(e, AssertionError):
        return Err(E_ASSERT, "AssertionError")
    if isinstance(e, ValueError):
        return Err(E_VALUE, "ValueError")
    if isinstance(e, dns.exception.DNSException):
        return Err(800, type(e).__name__)
    return Err(900, type(e).__name__ + ":" + str(e)[:80])


# ------------------------------------------------------------------ rdata ids <-> rdata

SIG = 1000000                 # type id SIG + c = RRSIG covering c
RDTYPES = [1, 2, 16, 28, 15, 5, 39, 47, SIG + 5, SIG + 2]
SINGLETONS = (5, 39, 47)
RDCLASS = [1]                 # class of the zone of the case being run (1 IN, 3 CH, 4 HS)
CLASS_FREE = {1: 16, 28: 15}  # A / AAAA are class-IN types: other classes use TXT / MX instead      # CNAME, DNAME, NSEC (dns.rdatatype.is_singleton)


def split_type(t):
    return (46, t - SIG) if t >= SIG else (t, 0)


def type_id(rds):
    return SIG + int(rds.covers) if int(rds.rdtype) == 46 else int(rds.rdtype)


def rdata_of(t, i):
    rdtype, covers = split_type(t)
    if rdtype == 1:
        text = f"10.0.{i // 256}.{i % 256}"
    elif rdtype == 2:
        text = f"ns{i}.target.test."
    elif rdtype == 16:
        text = f'"{i}"'
    elif rdtype == 28:
        text = f"2001:db8::{i:x}"
    elif rdtype == 15:
        text = f"{i} mx.target.test."
    elif rdtype in (5, 39):
        text = f"c{i}.target.test."
    elif rdtype == 47:
        text = f"n{i}.test. A NS"
    elif rdtype == 46:
        text = f"{dns.rdatatype.to_text(covers)} 8 2 300 20300101000000 20200101000000 {i} signer.test. AAAA"
    else:
        raise ValueError(rdtype)
    return dns.rdata.from_text(RDCLASS[0], rdtype, text)


def id_of(rd):
    t = int(rd.rdtype)
    if t == 1:
        a = [int(x) for x in rd.address.split(".")]
        return a[2] * 256 + a[3]
    if t == 2:
        return int(rd.target.labels[0][2:])
    if t == 16:
        return int(rd.strings[0])
    if t == 28:
        return int(rd.address.split(":")[-1], 16)
    if t == 15:
        return rd.preference
    if t in (5, 39):
        return int(rd.target.labels[0][1:])
    if t == 47:
        return int(rd.next.labels[0][1:])
    if t == 46:
        return rd.key_tag
    raise ValueError(t)


def mk_rdataset(t, ids):
    rdtype, covers = split_type(t)
    rds = dns.rdataset.Rdataset(RDCLASS[0], rdtype, covers)
    rds.update_ttl(300)
    for i in ids:
        rds.add(rdata_of(t, i), 300)
    return rds


def labels_of(n):
    return [bytes(l) for l in n.labels]


def N(labels):
    return dns.name.Name(labels)


# ------------------------------------------------------------------ implementation


E_LEN = 903      # len(nodes) differs from the number of names iterated
E_GET = 904      # nodes.get(name) is not the node met while iterating
E_STALE = 902    # an older committed version changed after a later commit


def dump_version(v):
    nodes = []
    n = 0
    for name, node in v.nodes.items():
        n += 1
        if v.nodes.get(name) is not node:
            raise HarnessCheck(E_GET, "nodes.get(name) is not the iterated node")
        nodes.append([labels_of(name), int(node.flags),
                      [[type_id(r), [id_of(x) for x in r]] for r in node.rdatasets]])
    if len(v.nodes) != n:
        raise HarnessCheck(E_LEN, "len(nodes) != names iterated")
    delegs = [labels_of(k) for k in v.delegations]
    if len(v.delegations) != len(delegs) or any(N(k) not in v.delegations for k in delegs):
        raise HarnessCheck(E_LEN, "delegation index inconsistent with its iteration")
    return [nodes, delegs]


class HarnessCheck(Exception):
    def __init__(self, code, text):
        super().__init__(text)
        self.code = code
        self.text = text


_ZONES = {}


def zone_classes(t):
    """dns.btreezone.Zone (t = 0) or a subclass whose name index is a BTreeDict(t=t), together with
    a Delegations subclass of the same t"""
    if t == 0:
        return dns.btreezone.Zone, dns.btreezone.Delegations
    if t not in _ZONES:
        base = dns.btreezone.Delegations

        class SmallDelegations(base):
            def __init__(self, *, original=None, **kw):
                if original is not None:
                    super().__init__(original=original)
                else:
                    super().__init__(t=t)

        def mf():
            return dns.btree.BTreeDict(t=t)

        class SmallZone(dns.btreezone.Zone):
            map_factory = staticmethod(mf)

        _ZONES[t] = (SmallZone, SmallDelegations)
    return _ZONES[t]


def query(v, q):
    try:
        name = N(q)
        b = v.bounds(name)
        vname = v.zone._validate_name(name)
        cut, sub = v.delegations.get_delegation(vname)
        glue = v.delegations.is_glue(vname)
        if bool(glue) != bool(sub):
            return Err(901, "is_glue differs from get_delegation")
        return [labels_of(b.left), None if b.right is None else labels_of(b.right),
                labels_of(b.closest_encloser), int(b.is_equal), int(b.is_delegation),
                None if cut is None else labels_of(cut), int(sub)]
    except Exception as e:  # noqa
        return exc_code(e)


def apply_op(txn, op):
    k = op[0]
    name = N(op[1])
    if k == 1:
        txn.add(name, mk_rdataset(op[2], op[3]))
    elif k == 2:
        txn.replace(name, mk_rdataset(op[2], op[3]))
    elif k == 3:
        txn.delete(name)
    elif k == 4:
        txn.delete(name, *[dns.rdatatype.RdataType.make(x) for x in split_type(op[2])])
    elif k == 5:
        txn.delete(name, mk_rdataset(op[2], op[3]))
    else:
        raise TypeError("bad op")


def run_history(case):
    rel, origin, txns = case[:3]
    t = case[3] if len(case) > 3 else 0
    RDCLASS[0] = case[4] if len(case) > 4 else 1
    zcls, dcls = zone_classes(t)
    saved = dns.btreezone.Delegations
    dns.btreezone.Delegations = dcls
    try:
        return run_history_in(zcls, rel, origin, txns)
    finally:
        dns.btreezone.Delegations = saved
        RDCLASS[0] = 1


def run_history_in(zcls, rel, origin, txns):
    z = zcls(N(origin), RDCLASS[0], relativize=bool(rel))
    out = []
    older = []       # (version object, its dump when it was the newest)
    for repl, commit, ops, queries in txns:
        opres = []
        try:
            txn = z.writer(bool(repl))
        except Exception as e:  # noqa
            out.append(exc_code(e))
            continue
        for op in ops:
            try:
                apply_op(txn, op)
                opres.append(0)
            except Exception as e:  # noqa
                opres.append(exc_code(e))
        if commit:
            txn.commit()
        else:
            txn.rollback()
        try:
            with z.reader() as r:
                v = r.version
                d = dump_version(v)
                qs = [query(v, q) for q in queries]
            # copy-on-write: versions committed earlier still read as they did
            for ov, od in older[-2:]:
                if (d if ov is v else dump_version(ov)) != od:
                    raise HarnessCheck(E_STALE, "a committed version changed after it was published")
            if not older or older[-1][0] is not v:
                older.append((v, d))
        except HarnessCheck as e:
            out.append(Err(e.code, e.text))
            continue
        out.append([opres, d, qs])
    return out


def zone_text(records):
    lines = []
    for name, rdtype, i in records:
        owner = dns.name.Name(name).to_text()
        lines.append(f"{owner} 300 {dns.rdataclass.to_text(RDCLASS[0])} {dns.rdatatype.to_text(split_type(rdtype)[0])} {rdata_of(rdtype, i).to_text()}")
    return "\n".join(lines) + "\n"


def run_load(case):
    """[100, relativize, origin, origin_in_text, [[name, rdtype, id]...], [queries]]"""
    _, rel, origin, in_text, records, queries = case[:6]
    RDCLASS[0] = case[6] if len(case) > 6 else 1
    try:
        text = zone_text(records)
        if in_text:
            text = "$ORIGIN " + N(origin).to_text() + "\n" + text
            z = dns.zone.from_text(text, None, RDCLASS[0], relativize=bool(rel), zone_factory=dns.btreezone.Zone,
                                   check_origin=False)
        else:
            z = dns.zone.from_text(text, N(origin), RDCLASS[0], relativize=bool(rel),
                                   zone_factory=dns.btreezone.Zone, check_origin=False)
        with z.reader() as r:
            v = r.version
            return [[[0] * len(records), dump_version(v), [query(v, q) for q in queries]]]
    finally:
        RDCLASS[0] = 1


def impl(case):
    try:
        if case[0] == 100:
            return run_load(case)
        return run_history(case)
    except Exception as e:  # noqa
        return exc_code(e)


def in_model(kind, case):
    return case[0] != 100


# ------------------------------------------------------------------ reference (from the documentation)


def lower(b):
    return bytes(c + 32 if 65 <= c <= 90 else c for c in b)


def key(labels):
    """canonical sort key (RFC 4034 6.1) for names of one relativity"""
    return tuple(lower(l) for l in reversed(labels))


def beneath(a, b):
    """a is a proper subdomain of b (keys)"""
    return len(a) > len(b) and a[: len(b)] == b


def at_or_beneath(a, b):
    return a[: len(b)] == b


def spec_state(nodes, apex):
    """nodes: [(key, has_ns)] -> ({key: flags}, [delegation keys sorted])"""
    owners = [k for k, ns in nodes if ns and k != apex]
    delegs = sorted(k for k in owners if not any(beneath(k, m) for m in owners))
    flags = {}
    for k, _ in nodes:
        if k == apex:
            flags[k] = ORIGIN_F
        elif any(beneath(k, d) for d in delegs):
            flags[k] = GLUE_F
        elif k in delegs:
            flags[k] = DELEG_F
        else:
            flags[k] = 0
    return flags, delegs


def spec_bounds(keys, flags, delegs, apex, q):
    visible = sorted(k for k in keys if not flags[k] & GLUE_F)
    le = [k for k in visible if k <= q]
    gt = [k for k in visible if k > q]
    left = le[-1] if le else None
    right = gt[0] if gt else None
    enc = None
    for n in range(len(q), len(apex) - 1, -1):
        s = q[:n]
        if any(at_or_beneath(k, s) for k in visible):
            enc = s
            break
    cut = [d for d in delegs if at_or_beneath(q, d)]
    return left, right, enc, (cut[0] if cut else None)


def validated_key(rel, origin, labels):
    """key of the name as the zone stores it, or None when the zone rejects it"""
    is_abs = len(labels) > 0 and labels[-1] == b""
    okey = key(origin)
    if is_abs:
        k = key(labels)
        if not at_or_beneath(k, okey):
            return None
        return k[len(okey):] if rel else k
    if sum(len(l) + 1 for l in labels) + sum(len(l) + 1 for l in origin) > 255:
        return None
    return key(labels) if rel else okey + key(labels)


def check_state(fail, rel, origin, dump, qs, queries, where):
    nodes, delegs = dump
    apex = () if rel else key(origin)
    keys = [key(n[0]) for n in nodes]
    for a, b in zip(keys, keys[1:]):
        if not a < b:
            fail("names do not iterate in strictly increasing canonical order", where=where, sig="order")
            return
    is_abs = [len(n[0]) > 0 and n[0][-1] == b"" for n in nodes]
    if any(x == bool(rel) for x in is_abs):
        fail("stored name has the wrong relativity", where=where, sig="relativity")
        return
    if any(len(n[2]) == 0 for n in nodes):
        fail("empty node left in the zone", where=where, sig="empty-node")
    content = [(key(n[0]), any(r[0] == NS for r in n[2])) for n in nodes]
    flags, sdelegs = spec_state(content, apex)
    for n in nodes:
        k = key(n[0])
        if n[1] != flags[k]:
            fail(f"flags of a node are {n[1]}, the content defines {flags[k]}", where=where, node=n[0],
                 sig="flags", got=n[1], want=flags[k])
            break
    if [key(d) for d in delegs] != sdelegs:
        fail("delegation index differs from the non-apex NS owners not beneath another one", where=where,
             sig="delegations", got=delegs)
    if apex not in flags:
        return
    for q, r in zip(queries, qs):
        qk = validated_key(rel, origin, q)
        if qk is None:
            if not (isinstance(r, Err) and r.code == E_KEY):
                fail("bounds accepted a name outside the zone", where=where, query=q, sig="bounds-key")
            continue
        if isinstance(r, Err):
            fail("bounds raised " + r.text, where=where, query=q, sig="bounds-exc")
            continue
        left, right, enc, cut = spec_bounds(keys, flags, sdelegs, apex, qk)
        got_left, got_right, got_enc, iseq, isdel, gcut, gsub = r
        if key(got_left) != left:
            fail("left bound is not the nearest non-occluded predecessor", where=where, query=q, sig="bounds-left")
        elif (None if got_right is None else key(got_right)) != right:
            fail("right bound is not the nearest non-occluded successor", where=where, query=q, sig="bounds-right")
        elif key(got_enc) != enc:
            fail("closest encloser wrong", where=where, query=q, sig="bounds-encloser")
        elif bool(iseq) != (left == qk):
            fail("is_equal wrong", where=where, query=q, sig="bounds-equal")
        elif bool(isdel) != (cut is not None):
            fail("is_delegation is not 'at or below a delegation'", where=where, query=q, sig="bounds-deleg")
        elif (None if gcut is None else key(gcut)) != cut or bool(gsub) != (cut is not None and cut != qk):
            fail("get_delegation wrong", where=where, query=q, sig="get-delegation")


def oracle(ctx, kind, case, out):
    F = []

    def fail(what, **kw):
        F.append({"kind": kind + ":" + kw.get("sig", "x"), "what": what, "impl": out if len(repr(out)) < 4000 else "...", **kw})

    if isinstance(out, Err):
        fail("history raised " + out.text, sig="exc")
        return F
    if case[0] == 100:
        _, rel, origin, _, records, queries = case[:6]
        check_state(fail, rel, origin, out[0][1], out[0][2], queries, 0)
        return F
    rel, origin, txns = case[:3]
    for i, (t, o) in enumerate(zip(txns, out)):
        if isinstance(o, Err):
            if o.code in (E_LEN, E_GET, E_STALE):
                fail("committed version is inconsistent: " + o.text, sig="tree-%d" % o.code, where=i)
            elif not (o.code == E_VALUE and i == 0 and not t[0]):
                fail("writer() raised " + o.text, sig="exc", where=i)
            continue
        opres, d, qs = o
        for r in opres:
            if isinstance(r, Err) and r.code != E_KEY:
                fail("operation raised " + r.text, sig="exc", where=i)
        ctx.count("txn:" + ("replacement" if t[0] else "update") + ("" if t[1] else "-rollback"))
        ctx.count("op:keyerror", sum(1 for r in opres if isinstance(r, Err)))
        ctx.count("op:ok", sum(1 for r in opres if not isinstance(r, Err)))
        for n_ in d[0]:
            ctx.count("node-flags:%d" % n_[1])
        ctx.count("delegation-entries", len(d[1]))
        for r in qs:
            if isinstance(r, Err):
                ctx.count("query:keyerror")
            else:
                ctx.count("query:" + ("at-or-below-cut" if r[4] else "equal" if r[3] else "between"))
        check_state(fail, rel, origin, d, qs, t[3], i)
        if F:
            break
    return F


# ------------------------------------------------------------------ generators

ALPHA = [b"a", b"b", b"c"]
ORIGINS = [[b"example", b""], [b"ex", b"test", b""], [b""], [b"B", b""]]


def rand_name(rng, alpha, maxdepth=3, p_upper=0.08):
    d = rng.choice([0, 1, 1, 1, 2, 2, 2, 3, 3][: 3 + 2 * maxdepth])
    d = min(d, maxdepth)
    ls = [rng.choice(alpha) for _ in range(d)]
    if rng.random() < p_upper:
        ls = [l.upper() for l in ls]
    return ls


def user_form(rng, rel, origin, ls, p_other=0.25):
    """spell a zone-relative label list the way a caller might: relative or absolute"""
    absolute = (not rel) if rng.random() > p_other else bool(rel)
    return ls + origin if absolute else ls


def all_queries(alpha, depth):
    out = [[]]
    for d in range(1, depth + 1):
        for t in itertools.product(alpha, repeat=d):
            out.append(list(t))
    return out


def gen_op(rng, rel, origin, alpha, names):
    # prefer names already used, their parents and children, so that cuts nest and get touched
    r = rng.random()
    if names and r < 0.65:
        ls = list(rng.choice(names))
        r2 = rng.random()
        if r2 < 0.2 and ls:
            ls = ls[1:]
        elif r2 < 0.4 and len(ls) < 4:
            ls = [rng.choice(alpha)] + ls
        if rng.random() < 0.08:
            ls = [l.upper() if rng.random() < 0.5 else l.lower() for l in ls]
    else:
        ls = rand_name(rng, alpha)
    names.append(ls)
    name = user_form(rng, rel, origin, ls)
    r3 = rng.random()
    if r3 < 0.03:
        name = ls + [b"outside", b""]      # absolute, not under the origin: KeyError
    elif r3 < 0.045:
        name = [b"L" * 63, b"M" * 63, b"N" * 63, b"O" * 55] + ls[:1]   # relative, too long once derelativized
    elif r3 < 0.055:
        name = ls + origin[1:] if len(origin) > 1 else ls + [b"x", b""]   # a superdomain / sibling of the origin
    k = rng.choice([1, 1, 1, 1, 2, 2, 3, 4, 4, 5])
    rdtype = NS if rng.random() < 0.42 else rng.choice([1, 1, 16, 28, 15, 5, 5, 5, 47, SIG + 5, SIG + 2, 39])
    ids = sorted(rng.sample(range(1, 5), rng.choice([1, 1, 2])))
    if rdtype in SINGLETONS:
        ids = ids[:1]
    if k == 5 and rng.random() < 0.06:
        ids = []                            # an empty rdataset is falsy: delete(name, rdataset) deletes the name
    if k == 3:
        return [3, name]
    if k == 4:
        return [4, name, rdtype]
    return [k, name, rdtype, ids]


def gen_history(ctx, rng, ntxn=None, nops=None, nq=6):
    rel = rng.randrange(2)
    origin = rng.choice(ORIGINS)
    alpha = ALPHA if rng.random() < 0.8 else ALPHA + [b"d", b"\x00"]
    names = []
    txns = []
    ntxn = ntxn or rng.choice([1, 2, 3, 4, 6])
    for i in range(ntxn):
        repl = 1 if i == 0 else int(rng.random() < 0.07)
        commit = int(rng.random() < 0.9)
        n = nops or rng.choice([1, 2, 3, 5, 8] if i else [3, 5, 8, 12])
        ops = []
        if i == 0 or repl:
            ops.append([1, user_form(rng, rel, origin, []), NS, [1]])
        ops += [gen_op(rng, rel, origin, alpha, names) for _ in range(n)]
        qs = [user_form(rng, rel, origin, rand_name(rng, alpha, 4), 0.15) for _ in range(nq)]
        if names and nq:
            base = list(rng.choice(names))
            qs.append(user_form(rng, rel, origin, base, 0.1))
            qs.append(user_form(rng, rel, origin, [b"b"] + base, 0.1))
            if base:
                qs.append(user_form(rng, rel, origin, [base[0] + b"0"] + base[1:], 0.1))
        txns.append([repl, commit, ops, qs])
    if rng.random() < 0.5:
        return [rel, origin, txns, rng.choice([3, 3, 4, 5])]
    return [rel, origin, txns]


def permuted_loads(ctx, rng):
    """the same record set added in different orders: in one transaction, one txn per record, and
    through dns.zone.from_text"""
    rel = rng.randrange(2)
    origin = rng.choice(ORIGINS)
    names = []
    recs = [[[], NS, 1]]
    for _ in range(rng.choice([4, 6, 8])):
        if names and rng.random() < 0.6:
            ls = list(rng.choice(names))
            ls = ls[1:] if (ls and rng.random() < 0.3) else ([rng.choice(ALPHA)] + ls if len(ls) < 4 else ls)
        else:
            ls = rand_name(rng, ALPHA)
        names.append(ls)
        recs.append([ls, NS if rng.random() < 0.55 else 1, rng.randrange(1, 4)])
    qs = [user_form(rng, rel, origin, q, 0.0) for q in all_queries(ALPHA, 2)]
    for _ in range(3):
        perm = recs[:]
        rng.shuffle(perm)
        ops = [[1, user_form(rng, rel, origin, n, 0.0), t, [i]] for n, t, i in perm]
        tp = rng.choice([0, 3, 3, 4])
        yield "perm-one-txn", [rel, origin, [[1, 1, ops, qs]], tp]
        txns = [[1 if j == 0 else 0, 1, [op], []] for j, op in enumerate(ops)]
        txns[-1][3] = qs
        yield "perm-many-txn", [rel, origin, txns, tp]
        yield "load", [100, rel, origin, rng.randrange(2),
                       [[user_form(rng, rel, origin, n, 0.5), t, i] for n, t, i in perm], qs]


def gen_large(ctx, rng, n):
    """a zone of about n names under three big subtrees (d, k, r) and flat names, so that the name
    index is a multi-level B-tree with the default t; cuts are created and removed above the big
    subtrees inside transactions that also touch names beneath and beside them"""
    rel = rng.randrange(2)
    origin = rng.choice(ORIGINS[:2])
    tops = [b"d", b"k", b"r"]
    names = []
    for i in range(n):
        lab = b"n%03d" % i
        r = i % 5
        names.append([lab] if r == 0 else [lab, tops[r % 3]] if r < 4 else [lab, b"x", tops[i % 3]])
    mode = rng.choice(["sorted", "sorted", "shuffled", "reversed"])
    if mode == "sorted":
        names.sort(key=key)
    elif mode == "reversed":
        names.sort(key=key, reverse=True)
    else:
        rng.shuffle(names)
    uf = lambda ls: user_form(rng, rel, origin, ls, 0.1)
    load = [[1, uf([]), NS, [1]]] + [[1, uf(nm), 1, [1]] for nm in names]
    txns = [[1, 1, load, []]]
    sub = lambda top: [nm for nm in names if nm[-1] == top]
    for step in range(rng.choice([2, 3, 4])):
        top = rng.choice(tops)
        ops = []
        for _ in range(rng.choice([0, 1, 2])):          # touch names beneath / beside before the cut changes
            ops.append([2, uf(rng.choice(sub(top) or names)), rng.choice([1, 16]), [rng.randrange(1, 5)]])
        if rng.random() < 0.6:
            ops.append([1, uf(top and [top]), 16, [1]])  # touch the cut itself first
        for j in range(rng.choice([0, 1, 1, 2, 3])):     # new names at the end / in the subtree
            ops.append([1, uf([b"zzz%d%d" % (step, j)] if rng.random() < 0.6 else [b"m%d%d" % (step, j), top]), 1, [1]])
        r = rng.random()
        if r < 0.5:
            ops.append([1, uf([top]), NS, [1]])
        elif r < 0.75:
            ops.append([4, uf([top]), NS])
        else:
            ops.append([3, uf([top])])
        if rng.random() < 0.4:
            ops.append([1, uf([b"x", top]), NS, [2]])    # a nested cut
        if rng.random() < 0.3:
            ops.append([3, uf(rng.choice(names))])
        qs = [uf([top]), uf([b"n001", top]), uf([b"zzzz"]), uf([b"a", b"x", top]), uf([top + b"0"]), uf([])]
        txns.append([0, int(rng.random() < 0.92), ops, qs])
    return [rel, origin, txns]


LARGE_SIZES = [253, 254, 255, 378, 379, 380, 381, 506, 507]

DEEP_ALPHA = [b"a", b"b", b"c", b"d", b"e", b"f"]


def gen_deep(ctx, rng):
    """many distinct names with a small t: every split / merge / steal / multi-level cursor path of
    the B-tree is taken while cuts are created and removed (glue walks re-store whole subtrees)"""
    rel = rng.randrange(2)
    origin = rng.choice(ORIGINS)
    names = []
    first = [[1, user_form(rng, rel, origin, []), NS, [1]]]
    for _ in range(rng.choice([12, 20, 30, 45])):
        first.append(gen_op(rng, rel, origin, DEEP_ALPHA, names))
    txns = [[1, 1, first, []]]
    for i in range(rng.choice([3, 5, 8])):
        ops = [gen_op(rng, rel, origin, DEEP_ALPHA, names) for _ in range(rng.choice([1, 2, 3, 5]))]
        top = [rng.choice(DEEP_ALPHA)]
        r = rng.random()
        if r < 0.4:
            ops.append([1, user_form(rng, rel, origin, top), NS, [1]])
        elif r < 0.6:
            ops.append([4, user_form(rng, rel, origin, top), NS])
        elif r < 0.7:
            ops.append([3, user_form(rng, rel, origin, top)])
        qs = [user_form(rng, rel, origin, rand_name(rng, DEEP_ALPHA, 3), 0.1) for _ in range(3)]
        txns.append([0, int(rng.random() < 0.93), ops, qs])
    return [rel, origin, txns, rng.choice([3, 3, 3, 4])]



def with_class(case, rdclass):
    """the same history in a zone of another class (A / AAAA, which only exist in class IN, become
    TXT / MX); the model is class-agnostic, so implementation and model must still agree"""
    def retype(op):
        return op[:2] + [CLASS_FREE.get(op[2], op[2])] + op[3:] if len(op) > 2 else op
    if case[0] == 100:
        recs = [[n, CLASS_FREE.get(t, t), i] for n, t, i in case[4]]
        return case[:4] + [recs, case[5], rdclass]
    txns = [[r, c, [retype(op) for op in ops], qs] for r, c, ops, qs in case[2]]
    t = case[3] if len(case) > 3 else 0
    return [case[0], case[1], txns, t, rdclass]


def nested_cut_family(ctx):
    """deterministic: a chain of nested cuts b > a.b > c.a.b (+ data beside and beneath), every
    order of removing / CNAME-replacing / re-adding the outer cuts, one transaction each, in zones
    of class IN, CH and HS, relativized and absolute"""
    o = [b"example", b""]
    base = [[1, [], NS, [1]], [1, [b"b"], NS, [1]], [1, [b"a", b"b"], NS, [1]], [1, [b"c", b"a", b"b"], NS, [2]],
            [1, [b"x", b"c", b"a", b"b"], 16, [1]], [1, [b"z", b"b"], 16, [1]], [1, [b"d"], 16, [1]]]
    qs = [[], [b"b"], [b"a", b"b"], [b"c", b"a", b"b"], [b"x", b"c", b"a", b"b"], [b"y", b"c", b"a", b"b"],
          [b"z", b"b"], [b"zz", b"b"], [b"d"], [b"c"]]
    removals = [[4, [b"b"], NS], [3, [b"b"]], [2, [b"b"], 5, [1]],
                [4, [b"a", b"b"], NS], [3, [b"a", b"b"]], [2, [b"a", b"b"], 5, [1]], [1, [b"b"], NS, [3]]]
    for rdclass in (1, 3, 4):
        for rel in (1, 0):
            for s1 in removals:
                for s2 in removals:
                    txns = [[1, 1, base, []], [0, 1, [s1], qs], [0, 1, [s2], qs]]
                    yield "nested-class%d" % rdclass, [rel, o, txns, 3 if rel else 0, rdclass]


def exhaustive_small(ctx):
    yield from exhaustive_types(ctx, (NS, 1), "exhaustive")
    yield from exhaustive_types(ctx, (NS, 5), "exhaustive-cname")


def exhaustive_types(ctx, types, kind):
    """all sequences of k operations over a 4-name universe (apex, b, a.b, c.a.b) x {NS, A},
    each op in its own committed transaction (so every copy-on-write path is taken)"""
    uni = [[], [b"b"], [b"a", b"b"], [b"c", b"a", b"b"]]
    ops = []
    for n in uni:
        for t in types:
            ops.append([2, n, t, [1]])
            ops.append([4, n, t])
        ops.append([3, n])
    k = ctx.n(2, 3)
    qs = [[], [b"b"], [b"a", b"b"], [b"c", b"a", b"b"], [b"b", b"b"], [b"c"], [b"a"], [b"d", b"a", b"b"]]
    cnt = 0
    base = [[2, [], NS, [1]], [2, [b"b"], 1, [1]], [2, [b"a", b"b"], NS, [1]], [2, [b"c", b"a", b"b"], 1, [1]]]
    for seq in itertools.product(ops, repeat=k):
        txns = [[1, 1, base, []]] + [[0, 1, [op], []] for op in seq]
        txns[-1][3] = qs
        cnt += 1
        yield kind, [1, [b"example", b""], txns]
    ctx.notes[kind + "_sequences"] = cnt


def cases(ctx):
    rng = ctx.rng
    yield from nested_cut_family(ctx)
    for _ in range(ctx.n(320, 5000)):
        c = gen_history(ctx, rng)
        yield "history", (with_class(c, rng.choice([3, 4])) if rng.random() < 0.25 else c)
    for _ in range(ctx.n(25, 400)):
        yield "long", gen_history(ctx, rng, ntxn=rng.choice([8, 12]), nq=2)
    for _ in range(ctx.n(35, 450)):
        cl = rng.choice([1, 1, 3, 4])
        for kind, c in permuted_loads(ctx, rng):
            yield kind, (with_class(c, cl) if cl != 1 else c)
    # all query names over the label alphabet on the final state
    for _ in range(ctx.n(30, 350)):
        c = gen_history(ctx, rng, nq=0)
        rel, origin, txns = c[:3]
        txns[-1][1] = 1
        txns[-1][3] = [user_form(rng, rel, origin, q, 0.05) for q in all_queries(ALPHA, ctx.n(3, 3))]
        yield "bounds-all", c
    for _ in range(ctx.n(90, 1200)):
        c = gen_deep(ctx, rng)
        yield "deep", (with_class(c, rng.choice([3, 4])) if rng.random() < 0.3 else c)
    for i in range(ctx.n(2, 36)):
        n = LARGE_SIZES[i % len(LARGE_SIZES)] if i % 2 == 0 else rng.randint(256, 700)
        yield "large", gen_large(ctx, rng, n)
    yield from exhaustive_small(ctx)


def widen(ctx, disagreements):
    """proof or correspondence broke and the oracle found nothing on this run's cases: search further
    (other seeds, all 3-operation sequences) with the oracle alone"""
    import random
    found = []
    for seed in range(2, 8):
        rng = random.Random(seed * 7919)
        for _ in range(1500):
            case = gen_history(ctx, rng)
            out = impl(case)
            from lib import normalize
            f = oracle(ctx, "widen", normalize(case), normalize(out))
            if f:
                f[0]["case"] = case
                f[0]["case_kind"] = "widen"
                found.append(f[0])
                if len(found) >= 3:
                    return found
    return found
