"""C07 - records and record sets have value semantics and exact set algebra.

Case kinds (first element of the case selects the model entry of SetM.run):
  [1, universe, ops]   dns.set.Set machine          (registers hold distinct Set objects)
  [2, universe, ops]   Rdataset / ImmutableRdataset / RRset machine
  [3, rec, rec]        Rdata ==, !=, hash, <, <=, >=, >
  [4, acts]            dns._immutable_ctx guard scripts (real @immutable classes)
  [5, value]           dns.immutable.constify on nested values
A record crosses to the model as [rid, rdclass, rdtype, covers(), to_digestable(root), relative?].
extra(): finite enumeration over every Rdata subclass x slot (setattr/delattr must raise, field
values must be of immutable types), Name, ImmutableRdataset; exhaustive small scopes are part of
cases().
"""
import copy
import enum
import inspect
import itertools
import operator
import pickle
import re

import dns.edns
import dns.immutable
import dns._immutable_ctx as ictx
import dns.ipv4
import dns.ipv6
import dns.name
import dns.rdata
import dns.rdataclass
import dns.rdataset
import dns.rdatatype
import dns.rrset
import dns.set
import dns.ttl

from lib import Err
from lib import Hang as lib_Hang

ID = "C07"
COQ_IMPORTS = "From DV Require Import Model.SetM Model.SetCanonM."
COQ_RUN = "SetCanonM.run"
CASE_TIMEOUT = 20.0
TRUSTED = [
    "model: coq/Model/SetM.v (dns.set.Set, Rdataset/ImmutableRdataset/RRset set behaviour, Rdata __eq__/__hash__/_cmp over "
    "the digest abstraction, _Immutable guard, constify)",
    "record abstraction: a record enters the model as (rdclass, rdtype, covers(), to_digestable(root), raised-NeedAbsoluteNameOrOrigin?) "
    "computed by the implementation; the per-type canonical encoders are C02/C15's subject, here only their use by ==/hash/< is modelled",
]
ASSUMPTIONS = [
    "Python dict semantics (insertion order, lookup by hash then ==) are as documented for CPython 3.7+",
    "immutability of field values is established by enumeration over every Rdata subclass with a sample instance, not by a theorem about CPython",
]
RULE = (
    "cases are operation sequences over small record universes (case variants, relative/absolute names, singleton types, RRSIG covers, "
    "foreign class/type), drawn from one PRNG seeded by VERIF_SEED, plus exhaustive sequences over 3 records; distinct = distinct "
    "canonical case; non-trivial = the implementation returned a value, or an error class not yet seen for that case kind"
)

IN, CH = 1, 3
ROOT = dns.name.root

# ------------------------------------------------------------------ record pool

_SIGB64 = "MxFcby9k/yvedMfQgKzhH5er0Mu/vILz45IkskceFGgiWCn/GxHhai6VAuHAoNUz4YoU1tVfSCSqQYn6//11U6Nld80jEeC8aTrO+KKmCaY="

# family -> (rdclass, rdtype text, [texts]); texts are grouped so that neighbours are
# equal-but-differently-spelled or nearly equal
FAMILIES = {
    "NS": ("IN", "NS", ["a.", "A.", "b.", "c.example.", "C.Example.", "a", "A", "b", "a.b"]),
    "NSCH": ("CH", "NS", ["a.", "A.", "b."]),
    "MX": ("IN", "MX", ["10 mail.", "10 MAIL.", "20 mail.", "10 mail", "10 other.", "0 ."]),
    "A": ("IN", "A", ["1.2.3.4", "1.2.3.5", "10.0.0.1", "0.0.0.0"]),
    "AAAA": ("IN", "AAAA", ["::1", "0:0::1", "2001:db8::1"]),
    "TXT": ("IN", "TXT", ['"a"', '"A"', '"a" "b"', '"ab"', '""']),
    "CNAME": ("IN", "CNAME", ["a.", "A.", "b.", "c", "C"]),
    "DNAME": ("IN", "DNAME", ["a.", "A.", "b."]),
    "SOA": ("IN", "SOA", ["ns. h. 1 2 3 4 5", "NS. H. 1 2 3 4 5", "ns. h. 2 2 3 4 5", "ns h 1 2 3 4 5"]),
    "NSEC": ("IN", "NSEC", ["a. A NS", "A. A NS", "b. A"]),
    "PTR": ("IN", "PTR", ["a.", "A.", "b."]),
    "SRV": ("IN", "SRV", ["0 0 80 a.", "0 0 80 A.", "0 1 80 a."]),
    "RRSIG": (
        "IN",
        "RRSIG",
        [
            f"A 8 2 3600 20200101000000 20030101000000 2143 foo. {_SIGB64}",
            f"A 8 2 3600 20200101000000 20030101000000 2143 FOO. {_SIGB64}",
            f"A 8 2 3600 20200101000000 20030101000000 2144 foo. {_SIGB64}",
            f"NS 8 2 3600 20200101000000 20030101000000 2143 foo. {_SIGB64}",
            f"MX 8 2 3600 20200101000000 20030101000000 2143 foo. {_SIGB64}",
        ],
    ),
    "SIG": (
        "IN",
        "SIG",
        [
            "A 8 2 3600 20200101000000 20030101000000 2143 foo. MxFcby9k",
            "NS 8 2 3600 20200101000000 20030101000000 2143 foo. MxFcby9k",
        ],
    ),
    "GEN": ("IN", "TYPE65280", ["\\# 2 abcd", "\\# 2 abce", "\\# 0", "\\# 3 abcd00"]),
    "GENA": ("IN", "A", ["\\# 4 01020304"]),  # generic syntax of a known type: equals A 1.2.3.4
    "CHA": ("CH", "A", ["a. 0101", "A. 0101", "a. 0102"]),
}
SINGLETON_FAMS = ["CNAME", "DNAME", "SOA", "NSEC"]
SIG_FAMS = ["RRSIG", "SIG"]
PLAIN_FAMS = ["NS", "MX", "A", "AAAA", "TXT", "PTR", "SRV", "GEN", "CHA"]

def mk(fam, i):
    """a *fresh* Rdata object for FAMILIES[fam][i] (fresh, so that equal records are distinct objects)"""
    c, t, texts = FAMILIES[fam]
    return dns.rdata.from_text(c, t, texts[i % len(texts)], origin=None, relativize=False)


def rec_obs(rid, rd, text):
    """what the model sees of a record (+ the text from which impl() rebuilds the object)"""
    try:
        rd.to_digestable()
        rel = 0
    except dns.name.NeedAbsoluteNameOrOrigin:
        rel = 1
    return [rid, int(rd.rdclass), int(rd.rdtype), int(rd.covers()), rd.to_digestable(ROOT), rel, text.encode()]


_GEN_ERRORS = {}


def make_universe(locs):
    """locs: list of (family, index) -> list of record obs; None (and a recorded failure, reported
    by extra()) when the implementation cannot even build or digest one of the records"""
    out = []
    for rid, (fam, i) in enumerate(locs):
        c, t, texts = FAMILIES[fam]
        try:
            out.append(rec_obs(rid, mk(fam, i), texts[i % len(texts)]))
        except Exception as e:  # noqa
            _GEN_ERRORS.setdefault((fam, i % len(texts)), f"{c} {t} {texts[i % len(texts)]!r}: {type(e).__name__}: {e}")
            return None
    return out


def universe_objs(uni):
    """fresh Rdata objects for the records of a case (one object per universe entry)"""
    return [dns.rdata.from_text(r[1], r[2], r[6].decode(), origin=None, relativize=False) for r in uni]


def key_of_rec(r):
    """the property's notion of record identity: class, type, canonical encoding (+ relativity)"""
    return (r[1], r[2], r[5], bytes(r[4]))


# ------------------------------------------------------------------ exception mapping


def exc_code(e):
    if isinstance(e, dns.rdataset.IncompatibleTypes):
        return Err(2, "IncompatibleTypes")
    if isinstance(e, dns.rdataset.DifferingCovers):
        return Err(3, "DifferingCovers")
    if isinstance(e, dns.ttl.BadTTL):
        return Err(23, "BadTTL")
    if isinstance(e, ValueError):
        return Err(1, "ValueError")
    if isinstance(e, TypeError):
        return Err(4, "TypeError")
    if isinstance(e, KeyError):
        return Err(101, "KeyError")
    if isinstance(e, StopIteration):
        return Err(102, "StopIteration")
    if isinstance(e, AttributeError):
        return Err(103, "AttributeError")
    return Err(500, type(e).__name__ + ":" + str(e)[:80])


INPL = {
    1: lambda a, b: a.union_update(b),
    2: lambda a, b: a.intersection_update(b),
    3: lambda a, b: a.difference_update(b),
    4: lambda a, b: a.symmetric_difference_update(b),
    5: lambda a, b: a.update(b),
}
INPL_OP = {6: operator.ior, 7: operator.iand, 8: operator.iadd, 9: operator.isub, 10: operator.ixor}
FUNC = {
    1: lambda a, b: a.union(b),
    2: lambda a, b: a.intersection(b),
    3: lambda a, b: a.difference(b),
    4: lambda a, b: a.symmetric_difference(b),
    6: operator.or_,
    7: operator.and_,
    8: operator.add,
    9: operator.sub,
    10: operator.xor,
}
PRED = {
    1: lambda a, b: a.issubset(b),
    2: lambda a, b: a.issuperset(b),
    3: lambda a, b: a.isdisjoint(b),
    4: operator.eq,
    5: operator.ne,
}
ALG_OF = {1: "union", 6: "union", 8: "union", 2: "inter", 7: "inter", 3: "diff", 9: "diff", 4: "sym", 10: "sym", 5: "update"}


def assign(regs, d, v):
    if d < len(regs):
        regs[d] = v
    elif d == len(regs):
        regs.append(v)
    else:
        raise IndexError("bad register")


# ------------------------------------------------------------------ dns.set.Set machine


def run_set(uni, ops):
    objs = universe_objs(uni)
    ids = {id(o): i for i, o in enumerate(objs)}
    regs = []
    out = []

    def state():
        return [[ids[id(x)] for x in s] for s in regs]

    for op in ops:
        k = op[0]
        try:
            res = None
            if k == 1:
                assign(regs, op[1], dns.set.Set([objs[i] for i in op[2]]))
            elif k == 2:
                regs[op[1]].add(objs[op[2]])
            elif k == 3:
                regs[op[1]].remove(objs[op[2]])
            elif k == 4:
                regs[op[1]].discard(objs[op[2]])
            elif k == 5:
                res = ids[id(regs[op[1]].pop())]
            elif k == 6:
                regs[op[1]].clear()
            elif k == 7:
                assign(regs, op[1], regs[op[2]].copy() if op[1] % 2 == 0 else regs[op[2]].__copy__())
            elif k == 8:
                w, r, o = op[1], op[2], op[3]
                other = regs[o] if o is not None else []
                if w in INPL:
                    res = INPL[w](regs[r], other)
                else:
                    regs[r] = INPL_OP[w](regs[r], other)
            elif k == 9:
                w, d, r, o = op[1:5]
                other = regs[o] if o is not None else []
                v = FUNC[w](regs[r], other)
                assign(regs, d, v)
            elif k == 10:
                w, r, o = op[1], op[2], op[3]
                other = regs[o] if o is not None else []
                res = int(bool(PRED[w](regs[r], other)))
            elif k == 11:
                regs[op[1]].update([objs[i] for i in op[2]])
            elif k == 12:
                res = len(regs[op[1]])
            elif k == 13:
                res = [ids[id(x)] for x in regs[op[1]]]
            elif k == 14:
                res = int(objs[op[2]] in regs[op[1]])
            elif k == 15:
                res = ids[id(regs[op[1]][op[2]])]
            elif k == 16:
                res = [ids[id(x)] for x in regs[op[1]][slice(op[2], op[3], op[4])]]
            elif k == 17:
                del regs[op[1]][op[2]]
            elif k == 18:
                del regs[op[1]][slice(op[2], op[3], op[4])]
            else:
                raise IndexError("bad op")
        except (IndexError,) as e:
            res = Err(900, "bad case")
        except Exception as e:  # noqa
            res = exc_code(e)
        out.append([res, state()])
    return out


# ------------------------------------------------------------------ Rdataset machine


def kind_code(o):
    if isinstance(o, dns.rdataset.ImmutableRdataset):
        return 1
    if isinstance(o, dns.rrset.RRset):
        return 2
    return 0


def run_rds(uni, ops):
    objs = universe_objs(uni)
    ids = {id(o): i for i, o in enumerate(objs)}
    regs = []
    out = []

    def st1(s):
        nm = list(s.name.labels) if isinstance(s, dns.rrset.RRset) else []
        dl = int(s.deleting) if isinstance(s, dns.rrset.RRset) and s.deleting is not None else None
        return [kind_code(s), int(s.rdclass), int(s.rdtype), int(s.covers), int(s.ttl), [ids[id(x)] for x in s], nm, dl]

    def state():
        return [st1(s) for s in regs]

    for op in ops:
        k = op[0]
        try:
            res = None
            if k == 1:
                assign(regs, op[1], dns.rdataset.Rdataset(op[2], op[3], op[4], op[5]))
            elif k == 2:
                assign(regs, op[1], dns.rrset.RRset(dns.name.Name(op[2]), op[3], op[4], op[5], op[6]))
            elif k == 3:
                assign(regs, op[1], dns.rdataset.ImmutableRdataset(regs[op[2]]))
            elif k == 4:
                assign(regs, op[1], regs[op[2]].to_rdataset())
            elif k == 5:
                if op[3] is None:
                    regs[op[1]].add(objs[op[2]])
                else:
                    regs[op[1]].add(objs[op[2]], op[3])
            elif k == 6:
                regs[op[1]].update_ttl(op[2])
            elif k == 7:
                regs[op[1]].remove(objs[op[2]])
            elif k == 8:
                regs[op[1]].discard(objs[op[2]])
            elif k == 9:
                res = ids[id(regs[op[1]].pop())]
            elif k == 10:
                regs[op[1]].clear()
            elif k == 11:
                assign(regs, op[1], regs[op[2]].copy() if op[1] % 2 == 0 else regs[op[2]].__copy__())
            elif k == 12:
                w, r, o = op[1], op[2], op[3]
                if w in INPL:
                    res = INPL[w](regs[r], regs[o])
                else:
                    regs[r] = INPL_OP[w](regs[r], regs[o])
            elif k == 13:
                w, d, r, o = op[1:5]
                v = FUNC[w](regs[r], regs[o])
                assign(regs, d, v)
            elif k == 14:
                res = int(bool(PRED[op[1]](regs[op[2]], regs[op[3]])))
            elif k == 15:
                res = int(bool(regs[op[1]].match(op[2], op[3], op[4])))
            elif k == 16:
                s = regs[op[1]]
                a = s.full_match(dns.name.Name(op[2]), op[3], op[4], op[5], op[6])
                b = s.match(dns.name.Name(op[2]), op[3], op[4], op[5], op[6])
                res = int(bool(a)) if bool(a) == bool(b) else 77
            elif k == 17:
                res = len(regs[op[1]])
            elif k == 18:
                res = [ids[id(x)] for x in regs[op[1]]]
            elif k == 19:
                res = int(objs[op[2]] in regs[op[1]])
            elif k == 20:
                res = ids[id(regs[op[1]][op[2]])]
            elif k == 21:
                del regs[op[1]][op[2]]
            elif k == 23:
                regs[op[1]].update_ttl(op[2].decode())
            elif k == 24:
                regs[op[1]].add(objs[op[2]], op[3].decode())
            elif k == 22:
                rds_ = [objs[i] for i in op[4]]
                if op[2] is not None:
                    v = dns.rrset.from_rdata_list(dns.name.Name(op[2]), op[3], rds_) if op[1] % 2 == 0 else dns.rrset.from_rdata(dns.name.Name(op[2]), op[3], *rds_)
                else:
                    v = dns.rdataset.from_rdata_list(op[3], rds_) if op[1] % 2 == 0 else dns.rdataset.from_rdata(op[3], *rds_)
                assign(regs, op[1], v)
            else:
                raise IndexError("bad op")
        except (IndexError,) as e:
            res = Err(900, "bad case")
        except Exception as e:  # noqa
            res = exc_code(e)
        out.append([res, state()])
    return out


# ------------------------------------------------------------------ record comparisons


def run_cmp(uni):
    a, b = universe_objs(uni)
    out = [int(a == b), int(a != b), int(hash(a) == hash(b))]
    for f in (operator.lt, operator.le, operator.ge, operator.gt):
        try:
            out.append(int(bool(f(a, b))))
        except Exception as e:  # noqa
            out.append(exc_code(e))
    return out


# ------------------------------------------------------------------ immutable guard scripts


class _Boom(Exception):
    pass


class _Env:
    def __init__(self):
        self.objs = {}
        self.log = []


def _interp(env, acts):
    for a in acts:
        k = a[0]
        if k == 1:
            try:
                setattr(env.objs[a[1]], "s%d" % a[2], a[3])
                env.log.append(None)
            except TypeError:
                env.log.append(Err(4))
            except AttributeError:
                env.log.append(Err(103))
        elif k == 2:
            try:
                delattr(env.objs[a[1]], "s%d" % a[2])
                env.log.append(None)
            except TypeError:
                env.log.append(Err(4))
            except AttributeError:
                env.log.append(Err(103))
        elif k == 3:
            o = a[1]
            if o in env.objs:
                env.objs[o].__init__(env, o, a[2])
            else:
                _Guarded(env, o, a[2])
        elif k == 4:
            raise _Boom()


@dns.immutable.immutable
class _Guarded:
    def __init__(self, env, o, body):
        env.objs[o] = self
        _interp(env, body)


def run_guard(acts):
    env = _Env()
    before = ictx._in__init__.get()
    for a in acts:
        try:
            _interp(env, [a])
        except _Boom:
            env.log.append(Err(999))
    after = ictx._in__init__.get()
    ctx = None if after is before or after is False else 1
    grid = []
    for o in range(4):
        row = []
        for k in range(4):
            v = None
            if o in env.objs:
                v = env.objs[o].__dict__.get("s%d" % k)
            row.append(v)
        grid.append(row)
    return [env.log, ctx, grid]


# ------------------------------------------------------------------ constify


class _Opaque:
    """an object constify knows nothing about (mutable, hashable by identity)"""

    def __init__(self, z):
        self.z = z


def to_py(v):
    k = v[0]
    if k == 10:
        return _Opaque(v[1])
    if k == 1:
        return v[1]
    if k == 2:
        return bytes(v[1])
    if k == 3:
        return bytearray(v[1])
    if k == 4:
        return v[1].decode("latin-1")
    if k == 5:
        return None
    if k == 6:
        return tuple(to_py(x) for x in v[1])
    if k == 7:
        return [to_py(x) for x in v[1]]
    if k == 8:
        return {to_py(a): to_py(b) for a, b in v[1]}
    if k == 9:
        return dns.immutable.Dict({to_py(a): to_py(b) for a, b in v[1]})
    raise ValueError


def _scribble_py(o):
    """modify every mutable container of a harness-built value in place"""
    if isinstance(o, bytearray):
        o.extend(b"\xee")
    elif isinstance(o, list):
        for x in o:
            _scribble_py(x)
        o.append(99)
    elif isinstance(o, dict):
        for x in list(o.values()):
            _scribble_py(x)
        o["scribble"] = 1
    elif isinstance(o, tuple):
        for x in o:
            _scribble_py(x)


def from_py(o):
    if isinstance(o, bool):
        raise ValueError
    if isinstance(o, int):
        return [1, o]
    if isinstance(o, bytes):
        return [2, o]
    if isinstance(o, bytearray):
        return [3, bytes(o)]
    if isinstance(o, str):
        return [4, o.encode("latin-1")]
    if o is None:
        return [5]
    if isinstance(o, tuple):
        return [6, [from_py(x) for x in o]]
    if isinstance(o, list):
        return [7, [from_py(x) for x in o]]
    if isinstance(o, dict):
        return [8, [[from_py(a), from_py(b)] for a, b in o.items()]]
    if isinstance(o, dns.immutable.Dict):
        return [9, [[from_py(a), from_py(b)] for a, b in o.items()]]
    if isinstance(o, _Opaque):
        return [10, o.z]
    raise ValueError(type(o))


def is_immutable_value(o, path, bad):
    """property: no field is a mutable container"""
    if o is None or isinstance(o, (bytes, int, str, float, enum.Enum)):
        return
    if isinstance(o, tuple):
        for i, e in enumerate(o):
            is_immutable_value(e, f"{path}[{i}]", bad)
        return
    if isinstance(o, dns.name.Name):
        if not isinstance(o.labels, tuple) or not all(isinstance(l, bytes) for l in o.labels):
            bad.append((path + ".labels", type(o.labels).__name__))
        return
    if isinstance(o, dns.immutable.Dict):
        for k, e in o.items():
            is_immutable_value(k, path + ".key", bad)
            is_immutable_value(e, f"{path}[{k!r}]", bad)
        return
    if ictx._Immutable in type(o).__mro__:
        for sl_ in itertools.chain.from_iterable(getattr(c, "__slots__", []) for c in type(o).__mro__):
            if hasattr(o, sl_):
                is_immutable_value(getattr(o, sl_), path + "." + sl_, bad)
        for k, e in getattr(o, "__dict__", {}).items():
            is_immutable_value(e, path + "." + k, bad)
        return
    bad.append((path, "mutable or unknown " + type(o).__name__))


# ------------------------------------------------------------------ records with their fields (kind 7)
# a Python mirror of SetCanonM.schema_of, used to draw field values and to build the real record
# through its class constructor (never through a codec)

def _nm(v):
    return dns.name.Name(v)


def _mk(cls, typ, *args):
    k = dns.rdata.get_rdata_class(dns.rdataclass.RdataClass.make(cls), dns.rdatatype.RdataType.make(typ))
    return k(cls, typ, *args)


_MXLIKE = ["u2", "name"]
CANON = {
    (1, 1): (["fixed4"], lambda c, t, v: _mk(c, t, dns.ipv4.inet_ntoa(v[0]))),
    (1, 2): (["name"], lambda c, t, v: _mk(c, t, _nm(v[0]))),
    (1, 5): (["name"], lambda c, t, v: _mk(c, t, _nm(v[0]))),
    (1, 12): (["name"], lambda c, t, v: _mk(c, t, _nm(v[0]))),
    (1, 39): (["name"], lambda c, t, v: _mk(c, t, _nm(v[0]))),
    (3, 2): (["name"], lambda c, t, v: _mk(c, t, _nm(v[0]))),
    (1, 15): (_MXLIKE, lambda c, t, v: _mk(c, t, v[0], _nm(v[1]))),
    (3, 15): (_MXLIKE, lambda c, t, v: _mk(c, t, v[0], _nm(v[1]))),
    (1, 18): (_MXLIKE, lambda c, t, v: _mk(c, t, v[0], _nm(v[1]))),
    (1, 21): (_MXLIKE, lambda c, t, v: _mk(c, t, v[0], _nm(v[1]))),
    (1, 36): (_MXLIKE, lambda c, t, v: _mk(c, t, v[0], _nm(v[1]))),
    (1, 107): (_MXLIKE, lambda c, t, v: _mk(c, t, v[0], _nm(v[1]))),
    (1, 6): (["name", "name", "u4", "u4", "u4", "u4", "u4"], lambda c, t, v: _mk(c, t, _nm(v[0]), _nm(v[1]), *v[2:])),
    (1, 33): (["u2", "u2", "u2", "name"], lambda c, t, v: _mk(c, t, v[0], v[1], v[2], _nm(v[3]))),
    (1, 17): (["name", "name"], lambda c, t, v: _mk(c, t, _nm(v[0]), _nm(v[1]))),
    (1, 26): (["u2", "name", "name"], lambda c, t, v: _mk(c, t, v[0], _nm(v[1]), _nm(v[2]))),
    (1, 35): (["u2", "u2", "c255", "c255", "c255", "name"], lambda c, t, v: _mk(c, t, v[0], v[1], v[2], v[3], v[4], _nm(v[5]))),
    (1, 46): (["u2", "u1", "u1", "u4", "u4", "u4", "u2", "name", "rem"], lambda c, t, v: _mk(c, t, *v[:7], _nm(v[7]), v[8])),
    (1, 24): (["u2", "u1", "u1", "u4", "u4", "u4", "u2", "name", "rem"], lambda c, t, v: _mk(c, t, *v[:7], _nm(v[7]), v[8])),
    (1, 47): (["name", "bitmap"], lambda c, t, v: _mk(c, t, _nm(v[0]), tuple((w, bytes(b)) for w, b in v[1]))),
    (1, 66): (["u2", "u1", "u2", "name"], lambda c, t, v: _mk(c, t, v[0], v[1], v[2], _nm(v[3]))),
    (1, 16): (["txt"], lambda c, t, v: _mk(c, t, tuple(bytes(r[0]) for r in v[0]))),
    (1, 65280): (["rem"], lambda c, t, v: dns.rdata.GenericRdata(c, t, v[0])),
    (1, 23): (["name"], lambda c, t, v: _mk(c, t, _nm(v[0]))),
    (1, 28): (["fixed16"], lambda c, t, v: _mk(c, t, dns.ipv6.inet_ntoa(v[0]))),
    (1, 13): (["c255", "c255"], lambda c, t, v: _mk(c, t, v[0], v[1])),
    (1, 44): (["u1", "u1", "rem"], lambda c, t, v: _mk(c, t, v[0], v[1], v[2])),
    (1, 52): (["u1", "u1", "u1", "rem"], lambda c, t, v: _mk(c, t, v[0], v[1], v[2], v[3])),
    (1, 53): (["u1", "u1", "u1", "rem"], lambda c, t, v: _mk(c, t, v[0], v[1], v[2], v[3])),
    (1, 48): (["u2", "u1", "u1", "rem"], lambda c, t, v: _mk(c, t, v[0], v[1], v[2], v[3])),
    (1, 60): (["u2", "u1", "u1", "rem"], lambda c, t, v: _mk(c, t, v[0], v[1], v[2], v[3])),
    (1, 256): (["u2", "u2", "rem1"], lambda c, t, v: _mk(c, t, v[0], v[1], v[2])),
    (1, 257): (["u1", "tag", "rem"], lambda c, t, v: _mk(c, t, v[0], v[1], v[2])),
}
_LABELS = [b"a", b"A", b"b", b"example", b"Example", b"EXAMPLE", b"x-1", b"Z", b"z", b"\x00", b"\xc4", b"\xe4", b"@", b"`"]


def gen_canon_name(rng):
    r = rng.random()
    ls = [rng.choice(_LABELS) for _ in range(rng.choice([0, 1, 1, 2, 3]))]
    if r < 0.02:
        # close to the 255-octet limit: relative name that no longer fits with the root
        ls = [b"a" * 63, b"b" * 63, b"c" * 63, b"d" * rng.choice([60, 61, 62])]
        return ls if rng.random() < 0.5 else ls[:3] + [b"d" * 59, b""]
    if r < 0.8:
        ls.append(b"")
    return ls


def case_variant_name(rng, n):
    return [bytes(ch ^ 0x20 if (65 <= ch <= 90 or 97 <= ch <= 122) and rng.random() < 0.5 else ch for ch in l) for l in n]


def gen_canon_vals(rng, kinds):
    out = []
    for k in kinds:
        if k == "name":
            out.append(gen_canon_name(rng))
        elif k[0] == "u":
            w = int(k[1])
            out.append(rng.choice([0, 1, 255 if w == 1 else 256, 256 ** w - 1, rng.randrange(256 ** w)]) % 256 ** w)
        elif k == "fixed4":
            out.append(bytes(rng.randrange(256) for _ in range(4)))
        elif k == "fixed16":
            out.append(bytes(rng.randrange(256) for _ in range(16)))
        elif k == "rem1":
            out.append(bytes(rng.choice(b"aA/:\xff") for _ in range(rng.choice([1, 2, 9]))))
        elif k == "tag":
            out.append(bytes(rng.choice(b"issueISSUE0") for _ in range(rng.choice([1, 5]))))
        elif k == "c255":
            out.append(bytes(rng.choice(b"aAbB\x00\xff") for _ in range(rng.choice([0, 1, 2, 5]))))
        elif k == "rem":
            out.append(bytes(rng.choice(b"aA\x00\x01\xff") for _ in range(rng.choice([0, 1, 3, 8]))))
        elif k == "txt":
            out.append([[bytes(rng.choice(b"aAbB\x00") for _ in range(rng.choice([0, 1, 2, 4])))] for _ in range(rng.randint(1, 3))])
        elif k == "bitmap":
            ws = sorted(rng.sample(range(0, 256), rng.randint(0, 3)))
            out.append([[w, bytes([rng.randrange(1, 256)] * rng.randint(1, 3))] for w in ws])
    return out


def perturb_canon(rng, kinds, vals):
    """a neighbour: case variant of a name (must stay equal for the RFC 4034 6.2 types), or one field changed"""
    vals = [list(v) if isinstance(v, list) else v for v in vals]
    i = rng.randrange(len(kinds))
    r = rng.random()
    names = [j for j, k in enumerate(kinds) if k == "name"]
    if names and r < 0.6:
        j = rng.choice(names)
        vals[j] = case_variant_name(rng, vals[j])
    elif r < 0.8:
        vals[i] = gen_canon_vals(rng, [kinds[i]])[0]
    elif names:
        j = rng.choice(names)
        n = vals[j]
        vals[j] = n[:-1] if n and n[-1] == b"" else n + [b""]   # relative <-> absolute spelling
    return vals


def canon_rec(rid, ct, vals):
    return [rid, ct[0], ct[1], vals]


def run_canon(a, b):
    objs = []
    out = []
    for r in (a, b):
        kinds, build = CANON[(r[1], r[2])]
        try:
            rd = build(r[1], r[2], r[3])
        except Exception as e:  # noqa
            return Err(500, "constructor refused generated values: " + type(e).__name__ + " " + str(e)[:60])
        objs.append(rd)
    for rd in objs:
        try:
            try:
                d, rel = rd.to_digestable(), 0
            except dns.name.NeedAbsoluteNameOrOrigin:
                d, rel = rd.to_digestable(ROOT), 1
            out.append([d, rel])
        except dns.name.NameTooLong:
            out.append(Err(2, "NameTooLong"))
    x, y = objs

    def guard(f):
        try:
            return f()
        except dns.name.NameTooLong:
            return Err(2, "NameTooLong")

    out.append(guard(lambda: int(x == y)))
    out.append(guard(lambda: x._cmp(y)))
    out.append(guard(lambda: int(hash(x) == hash(y)) if x.to_digestable(ROOT) == y.to_digestable(ROOT) else int(False)))
    out.append(int(x.covers()))
    out.append(guard(lambda: x.to_wire(origin=ROOT)))
    return out


# ------------------------------------------------------------------ __getstate__/__setstate__/replace (kinds 8, 9)
OBJ_SAMPLES = [("IN", "MX", "10 mail.example."), ("IN", "SOA", "ns. h. 1 2 3 4 5"), ("IN", "A", "10.0.0.1"),
               ("IN", "TXT", '"a" "bc"'), ("IN", "NS", "ns1.example."), ("IN", "OPENPGPKEY", "AQIDBA=="),
               ("IN", "BRID", "AQID"), ("IN", "DS", "12345 8 1 00112233445566778899aabbccddeeff00112233"),
               ("IN", "TYPE65280", "\\# 2 abcd")]


class _ObjCodec:
    """attribute names <-> numbers, field values <-> pval (opaque values by table index)"""

    def __init__(self, rd):
        self.rd = rd
        self.slots = list(rd._get_all_slots())
        names = ["rdclass", "rdtype", "rdcomment"]
        extra = [n for n in self.slots if n not in names] + sorted(getattr(rd, "__dict__", {}).keys())
        extra += [p for p in inspect.signature(rd.__init__).parameters if p not in names and p not in extra]
        self.names = names + extra + ["zz_unknown"]
        self.opaque = []

    def nid(self, n):
        return self.names.index(n)

    def enc(self, v):
        try:
            if isinstance(v, enum.Enum):
                raise ValueError
            return from_py(v)
        except (ValueError, UnicodeEncodeError):
            for i, o in enumerate(self.opaque):
                if o is v or (type(o) is type(v) and o == v):
                    return [10, i]
            self.opaque.append(v)
            return [10, len(self.opaque) - 1]

    def dec(self, p):
        if p[0] == 10:
            return self.opaque[p[1]]
        if p[0] == 6:
            return tuple(self.dec(x) for x in p[1])
        return to_py(p)

    def alist(self, d):
        return [[self.nid(k), self.enc(v)] for k, v in d.items()]


def _obj_of(sample):
    rd = dns.rdata.from_text(sample[0], sample[1], sample[2], relativize=False)
    return rd, _ObjCodec(rd)


def gen_obj_case(rng):
    si = rng.randrange(len(OBJ_SAMPLES))
    rd, cd = _obj_of(OBJ_SAMPLES[si])
    cs = [cd.nid(n) for n in cd.slots]
    hd = int(hasattr(rd, "__dict__"))
    sl = [[cd.nid(n), cd.enc(getattr(rd, n))] for n in cd.slots]
    dc = cd.alist(getattr(rd, "__dict__", {}))
    state = cd.alist(rd.__getstate__())
    r = rng.random()
    if r < 0.5:
        pass
    elif r < 0.7:
        rng.shuffle(state)
    elif r < 0.85:
        state = [kv for kv in state if kv[0] != 2]          # an old pickle without rdcomment
    else:
        state.append([cd.nid("zz_unknown"), [1, 7]])
    return [8, si, cs, hd, sl, dc, state]


def gen_replace_case(rng):
    slotted = [i for i, smp in enumerate(OBJ_SAMPLES) if smp[1] not in ("OPENPGPKEY", "BRID")]
    si = rng.choice(slotted)
    rd, cd = _obj_of(OBJ_SAMPLES[si])
    params = list(inspect.signature(rd.__init__).parameters)
    cs = [cd.nid(n) for n in cd.slots]
    sl = [[cd.nid(n), cd.enc(getattr(rd, n))] for n in cd.slots]
    kw = []
    for pname in params[2:]:
        if rng.random() < 0.4:
            v = getattr(rd, pname)
            if isinstance(v, int) and not isinstance(v, enum.Enum):
                v = rng.choice([0, 1, 7, 200])
            elif isinstance(v, bytes) and OBJ_SAMPLES[si][1] != "DS":
                v = rng.choice([b"\x01", b"ab"])
            elif isinstance(v, dns.name.Name):
                v = dns.name.from_text(rng.choice(["x.", "Y.example."]))
            kw.append([cd.nid(pname), cd.enc(v)])
    r = rng.random()
    if r < 0.1:
        kw.append([rng.choice([0, 1]), [1, 1]])                   # rdclass / rdtype cannot be replaced
    elif r < 0.2:
        kw.append([cd.nid("zz_unknown"), [1, 1]])
    elif r < 0.4:
        kw.append([2, rng.choice([[4, b"a comment"], [5]])])
    # the opaque table travels with the case: texts of names
    return [9, si, [cd.nid(n) for n in params], cs, 0, sl, [], kw, [o.to_text().encode() if isinstance(o, dns.name.Name) else repr(o).encode() for o in cd.opaque]]


def _read_obj(cd, o):
    sl = [cd.enc(getattr(o, n)) if hasattr(o, n) else None for n in cd.slots]
    return [sl, cd.alist(getattr(o, "__dict__", {}))]


def run_obj(case):
    rd, cd = _obj_of(OBJ_SAMPLES[case[1]])
    if case[0] == 8:
        # prime the opaque table exactly as the generator did
        [cd.enc(getattr(rd, n)) for n in cd.slots]
        cd.alist(getattr(rd, "__dict__", {}))
        out = [cd.alist(rd.__getstate__())]
        state = {cd.names[k]: cd.dec(v) for k, v in case[6]}
        try:
            new = type(rd).__new__(type(rd))
            new.__setstate__(state)
            out.append(_read_obj(cd, new))
        except Exception as e:  # noqa
            out.append(exc_code(e))
        return out
    [cd.enc(getattr(rd, n)) for n in cd.slots]
    for t in case[8][len(cd.opaque):]:
        cd.opaque.append(dns.name.from_text(t.decode()))
    before = rd.to_digestable(ROOT)
    kw = {cd.names[k]: cd.dec(v) for k, v in case[7]}
    try:
        new = rd.replace(**kw)
    except Exception as e:  # noqa
        return exc_code(e)
    if rd.to_digestable(ROOT) != before or new is rd:
        return Err(500, "replace changed the original record")
    return _read_obj(cd, new)


# ------------------------------------------------------------------ processing_order (kind 10)
def run_proc(mode, items):
    """Rdataset.processing_order() with random.shuffle replaced by an in-place reversal and
    random.uniform(a, b) by a (mode 2) or b (mode 3): the model's parameters instantiated alike"""
    import random as _random

    if mode == 1:
        rds = dns.rdataset.Rdataset(IN, dns.rdatatype.MX)
        objs = [dns.rdata.from_text("IN", "MX", f"{p} h{i}.") for p, i, w in items]
    elif mode in (2, 3):
        rds = dns.rdataset.Rdataset(IN, dns.rdatatype.SRV)
        objs = [dns.rdata.from_text("IN", "SRV", f"{p} {w} 80 h{i}.") for p, i, w in items]
    else:
        rds = dns.rdataset.Rdataset(IN, dns.rdatatype.A)
        objs = [dns.rdata.from_text("IN", "A", f"10.0.{i // 256}.{i % 256}") for p, i, w in items]
    ids = {}
    for (p, i, w), o in zip(items, objs):
        rds.add(o)
        ids[id(o)] = i
    saved = _random.shuffle, _random.uniform
    _random.shuffle = lambda l: l.reverse()
    _random.uniform = (lambda a, b: a) if mode == 2 else (lambda a, b: b)
    try:
        out = rds.processing_order()
    finally:
        _random.shuffle, _random.uniform = saved
    return [ids[id(o)] for o in out]


# ------------------------------------------------------------------ impl


def impl(case):
    try:
        return _impl(case)
    except lib_Hang:
        raise
    except Exception as e:  # noqa
        return Err(500, "harness could not run the case: " + type(e).__name__ + ": " + str(e)[:120])


def _impl(case):
    k = case[0]
    if k == 1:
        return run_set(case[1], case[2])
    if k == 2:
        return run_rds(case[1], case[2])
    if k == 3:
        return run_cmp([case[1], case[2]])
    if k == 4:
        return run_guard(case[1])
    if k == 5:
        src = to_py(case[1])
        r = dns.immutable.constify(src)
        _scribble_py(src)  # the caller reuses its containers: the constified value must not move
        return from_py(r)
    if k == 6:
        v, enc, ml, eok, tup = case[1:6]
        f = lambda x: dns.rdata.Rdata._as_bytes(x, bool(enc), ml, bool(eok))  # noqa
        src = to_py(v)
        try:
            r = dns.rdata.Rdata._as_tuple(src, f) if tup else f(src)
        except Exception as e:  # noqa
            return exc_code(e)
        _scribble_py(src)
        return from_py(r)
    if k == 7:
        return run_canon(case[1], case[2])
    if k in (8, 9):
        return run_obj(case)
    if k == 10:
        return run_proc(case[1], case[2])
    return Err(900, "bad case")


# ------------------------------------------------------------------ generators

TTLS = [0, 1, 5, 60, 300, 3600, 86400, 2**31 - 1, 2**31, 2**32 - 1]
TTL_TEXTS = [b"0", b"300", b"1h", b"1H30m", b"1w2d3h4m5s", b"4294967295", b"4294967296", b"", b"1x", b"h", b"12m3",
             b"99999999999999999999", b"1d1d", b"007", b"5S"]
NAMES = [[b"x", b""], [b"X", b""], [b"y", b""], [b"x"], [b""]]


def pick_universe(rng, main, n, foreign=True):
    texts = FAMILIES[main][2]
    locs = [(main, rng.randrange(len(texts))) for _ in range(n)]
    # make sure an equal-but-distinct pair is usually present
    if rng.random() < 0.7 and n >= 2:
        locs[1] = (main, locs[0][1] ^ 1 if (locs[0][1] ^ 1) < len(texts) else locs[0][1])
    if rng.random() < 0.4 and n >= 3:
        locs[2] = locs[0]
    if foreign:
        for _ in range(rng.choice([0, 0, 1, 2])):
            f = rng.choice(sorted(FAMILIES))
            locs.append((f, rng.randrange(len(FAMILIES[f][2]))))
    return locs


def gen_set_case(rng, nops):
    main = rng.choice(PLAIN_FAMS + SINGLETON_FAMS + ["NS", "NS", "MX"])
    locs = pick_universe(rng, main, rng.randint(3, 6))
    uni = make_universe(locs)
    if uni is None:
        return None
    nu = len(uni)
    nregs = rng.randint(2, 3)
    ops = []
    for d in range(nregs):
        ops.append([1, d, [rng.randrange(nu) for _ in range(rng.choice([0, 1, 2, 3, 4]))]])
    regs = nregs

    def reg():
        return rng.randrange(regs)

    def oth():
        return None if rng.random() < 0.04 else reg()

    def oz(hi):
        r = rng.random()
        if r < 0.35:
            return None
        if r < 0.4:
            return -rng.randint(1, 2)
        return rng.randint(0, hi)

    for _ in range(nops):
        r = rng.random()
        if r < 0.14:
            ops.append([2, reg(), rng.randrange(nu)])
        elif r < 0.19:
            ops.append([3, reg(), rng.randrange(nu)])
        elif r < 0.23:
            ops.append([4, reg(), rng.randrange(nu)])
        elif r < 0.26:
            ops.append([5, reg()])
        elif r < 0.28:
            ops.append([6, reg()])
        elif r < 0.31:
            d = rng.randint(0, regs) if regs < 4 else reg()
            ops.append([7, d, reg()])
            regs = max(regs, d + 1)
        elif r < 0.55:
            a = reg()
            o = a if rng.random() < 0.2 else oth()
            w = rng.randint(1, 10)
            if o is None and w == 5:
                w = 1
            ops.append([8, w, a, o])
        elif r < 0.70:
            a = reg()
            o = a if rng.random() < 0.2 else oth()
            d = rng.randint(0, regs) if regs < 4 else reg()
            ops.append([9, rng.choice([1, 2, 3, 4, 6, 7, 8, 9, 10]), d, a, o])
            if o is not None:
                regs = max(regs, d + 1)
        elif r < 0.80:
            a = reg()
            o = a if rng.random() < 0.15 else oth()
            ops.append([10, rng.randint(1, 5), a, o])
        elif r < 0.84:
            ops.append([11, reg(), [rng.randrange(nu) for _ in range(rng.randint(0, 4))]])
        elif r < 0.86:
            ops.append([12, reg()])
        elif r < 0.88:
            ops.append([13, reg()])
        elif r < 0.91:
            ops.append([14, reg(), rng.randrange(nu)])
        elif r < 0.94:
            ops.append([15, reg(), rng.randint(-1, 5)])
        elif r < 0.96:
            ops.append([16, reg(), oz(5), oz(6), rng.choice([None, None, 1, 2, 3, 0, -1])])
        elif r < 0.98:
            ops.append([17, reg(), rng.randint(-1, 4)])
        else:
            ops.append([18, reg(), oz(4), oz(5), rng.choice([None, None, 1, 2, 0])])
    return [1, uni, ops]


def gen_algebra_case(rng, machine):
    """every algorithm (copying and in-place, plus the predicates) on one pair of operands drawn
    as differently ordered samples of a universe with equal-but-distinct records"""
    main = rng.choice(["NS", "MX", "PTR", "SRV", "TXT"])
    n = len(FAMILIES[main][2])
    locs = [(main, i % n) for i in rng.sample(range(2 * n), min(2 * n, rng.randint(4, 7)))]
    uni = make_universe(locs)
    if uni is None:
        return None
    nu = len(uni)
    a = rng.sample(range(nu), rng.randint(2, min(5, nu)))
    b = rng.sample(range(nu), rng.randint(0, min(3, nu)))
    if rng.random() < 0.5:
        a, b = b, a
    ops = []
    if machine == 1:
        ops += [[1, 0, a], [1, 1, b]]
        for w in (1, 2, 3, 4, 6, 7, 8, 9, 10):
            ops.append([9, w, 2, 0, 1])
        for w in range(1, 11):
            ops += [[7, 2, 0], [8, w, 2, 1]]
        for w in range(1, 6):
            ops.append([10, w, 0, 1])
        return [1, uni, ops]
    c, t = uni[0][1], uni[0][2]
    ops += [[1, 0, c, t, 0, rng.choice(TTLS)], [1, 1, c, t, 0, rng.choice(TTLS)]]
    ops += [[5, 0, i, rng.choice(TTLS + [None])] for i in a] + [[5, 1, i, rng.choice(TTLS + [None])] for i in b]
    for w in (1, 2, 3, 4, 6, 7, 8, 9, 10):
        ops.append([13, w, 2, 0, 1])
    for w in range(1, 11):
        ops += [[11, 2, 0], [12, w, 2, 1]]
    for w in range(1, 6):
        ops.append([14, w, 0, 1])
    return [2, uni, ops]


def gen_rds_case(rng, nops):
    r = rng.random()
    if r < 0.45:
        main = rng.choice(["NS", "MX", "A", "TXT", "GEN", "SRV", "PTR", "AAAA", "CHA", "NSCH"])
    elif r < 0.75:
        main = rng.choice(SINGLETON_FAMS)
    else:
        main = rng.choice(SIG_FAMS)
    locs = pick_universe(rng, main, rng.randint(3, 6))
    if main == "A" and rng.random() < 0.5:
        locs.append(("GENA", 0))
    uni = make_universe(locs)
    if uni is None:
        return None
    nu = len(uni)
    mc, mt = uni[0][1], uni[0][2]
    covs = sorted({u[3] for u in uni if u[1] == mc and u[2] == mt})
    ops = []
    nregs = rng.randint(2, 3)

    def new(d):
        c, t = mc, mt
        x = rng.random()
        if x < 0.08:
            f = rng.choice(uni)
            c, t = f[1], f[2]
        cov = 0
        if main in SIG_FAMS and rng.random() < 0.4:
            cov = rng.choice(covs)
        elif rng.random() < 0.05:
            cov = 1
        if rng.random() < 0.3:
            return [2, d, rng.choice(NAMES), c, t, cov, rng.choice([None, None, None, 254, 255])]
        return [1, d, c, t, cov, rng.choice(TTLS)]

    for d in range(nregs):
        ops.append(new(d))
    regs = nregs

    def reg():
        return rng.randrange(regs)

    def dst():
        return rng.randint(0, regs) if regs < 5 else reg()

    def ottl():
        return None if rng.random() < 0.35 else rng.choice(TTLS)

    for _ in range(nops):
        r = rng.random()
        if r < 0.22:
            ops.append([5, reg(), rng.randrange(nu), ottl()])
        elif r < 0.25:
            ops.append([24, reg(), rng.randrange(nu), rng.choice(TTL_TEXTS)])
        elif r < 0.27:
            ops.append([23, reg(), rng.choice(TTL_TEXTS)])
        elif r < 0.29:
            ops.append([6, reg(), rng.choice(TTLS)])
        elif r < 0.32:
            ops.append([7, reg(), rng.randrange(nu)])
        elif r < 0.35:
            ops.append([8, reg(), rng.randrange(nu)])
        elif r < 0.37:
            ops.append([9, reg()])
        elif r < 0.39:
            ops.append([10, reg()])
        elif r < 0.42:
            d = dst()
            ops.append([11, d, reg()])
            regs = max(regs, d + 1)
        elif r < 0.62:
            a = reg()
            o = a if rng.random() < 0.2 else reg()
            ops.append([12, rng.randint(1, 10), a, o])
        elif r < 0.76:
            a = reg()
            o = a if rng.random() < 0.2 else reg()
            d = dst()
            ops.append([13, rng.choice([1, 2, 3, 4, 6, 7, 8, 9, 10]), d, a, o])
            regs = max(regs, d + 1)
        elif r < 0.84:
            a = reg()
            o = a if rng.random() < 0.15 else reg()
            ops.append([14, rng.randint(1, 5), a, o])
        elif r < 0.86:
            ops.append([15, reg(), mc if rng.random() < 0.8 else 3, mt if rng.random() < 0.8 else 1, rng.choice(covs + [0])])
        elif r < 0.88:
            ops.append([16, reg(), rng.choice(NAMES), mc, mt, rng.choice(covs + [0]), rng.choice([None, None, 254])])
        elif r < 0.89:
            ops.append([17, reg()])
        elif r < 0.90:
            ops.append([18, reg()])
        elif r < 0.92:
            ops.append([19, reg(), rng.randrange(nu)])
        elif r < 0.94:
            ops.append([20, reg(), rng.randint(-1, 4)])
        elif r < 0.95:
            ops.append([21, reg(), rng.randint(-1, 3)])
        elif r < 0.975:
            d = dst()
            ops.append([3, d, reg()])
            regs = max(regs, d + 1)
        elif r < 0.985:
            d = dst()
            ops.append([4, d, reg()])
            regs = max(regs, d + 1)
        elif r < 0.995:
            d = dst()
            ops.append([22, d, rng.choice([None, None] + NAMES[:3]), rng.choice(TTLS), [rng.randrange(nu) for _ in range(rng.choice([0, 1, 2, 3, 4]))]])
            regs = max(regs, d + 1)
        else:
            d = dst()
            ops.append(new(d))
            regs = max(regs, d + 1)
    return [2, uni, ops]


# ---- exhaustive small scopes: every sequence of length n over a fixed alphabet, 3 records
# (two of them equal-but-distinct), 2 registers


def exh_rds(main, n, core=False):
    uni = make_universe([(main, 0), (main, 1), (main, 2)])
    if uni is None:
        return
    c, t = uni[0][1], uni[0][2]
    pre = [[1, 0, c, t, 0, 0], [1, 1, c, t, 0, 7]]
    alpha = [
        [5, 0, 0, 30], [5, 0, 1, 20], [5, 0, 2, 10],
        [5, 1, 0, None], [5, 1, 1, 40], [5, 1, 2, 5],
        [12, 1, 0, 1], [12, 1, 1, 0], [12, 1, 0, 0],
        [12, 2, 0, 1], [12, 3, 0, 1], [12, 3, 0, 0], [12, 4, 0, 1], [12, 4, 1, 1], [12, 5, 0, 1],
        [7, 0, 1], [9, 0], [10, 1],
        [13, 1, 1, 0, 1], [13, 3, 0, 1, 0], [13, 4, 1, 0, 1], [13, 2, 0, 0, 0],
        [14, 4, 0, 1],
    ]
    if core == 10:
        alpha = [alpha[i] for i in (0, 1, 2, 4, 5, 6, 9, 10, 12, 20)]
    elif core == 16:
        alpha = [alpha[i] for i in (0, 1, 2, 3, 4, 5, 6, 8, 9, 10, 12, 14, 15, 16, 18, 20)]
    for seq in itertools.product(range(len(alpha)), repeat=n):
        yield [2, uni, pre + [alpha[i] for i in seq]]


def exh_set(n, core=False):
    uni = make_universe([("NS", 0), ("NS", 1), ("NS", 2)])
    if uni is None:
        return
    pre = [[1, 0, []], [1, 1, []]]
    alpha = [
        [2, 0, 0], [2, 0, 1], [2, 0, 2], [2, 1, 0], [2, 1, 1], [2, 1, 2],
        [8, 1, 0, 1], [8, 1, 0, 0], [8, 2, 0, 1], [8, 2, 0, 0], [8, 3, 0, 1], [8, 3, 0, 0], [8, 4, 0, 1], [8, 4, 0, 0],
        [8, 5, 1, 0], [8, 10, 1, 0],
        [9, 1, 1, 0, 1], [9, 2, 1, 0, 1], [9, 3, 1, 0, 1], [9, 4, 1, 0, 1], [9, 3, 0, 0, 0], [9, 4, 0, 1, 1],
        [3, 0, 1], [4, 0, 2], [5, 0], [6, 1],
        [10, 4, 0, 1], [10, 1, 0, 1], [10, 3, 0, 1],
    ]
    if core:
        alpha = [alpha[i] for i in (0, 1, 2, 4, 5, 6, 7, 8, 9, 10, 11, 12, 13, 14, 17, 19, 20, 22, 24, 26)]
    for seq in itertools.product(range(len(alpha)), repeat=n):
        yield [1, uni, pre + [alpha[i] for i in seq]]


CI_PAIRS = [("NS", 0, 1), ("NS", 3, 4), ("NS", 5, 6), ("MX", 0, 1), ("CNAME", 0, 1), ("CNAME", 3, 4), ("DNAME", 0, 1),
            ("SOA", 0, 1), ("PTR", 0, 1), ("SRV", 0, 1), ("RRSIG", 0, 1), ("NSCH", 0, 1)]


def gen_pval(rng, depth, frozen_ok=True):
    r = rng.random()
    if r < 0.03:
        return [10, rng.randrange(5)]
    if depth <= 0 or r < 0.35:
        k = rng.randrange(5)
        if k == 0:
            return [1, rng.choice([0, 1, -1, 255, 2**40])]
        if k == 1:
            return [2, bytes(rng.randrange(256) for _ in range(rng.randint(0, 3)))]
        if k == 2:
            return [3, bytes(rng.randrange(256) for _ in range(rng.randint(0, 3)))]
        if k == 3:
            return [4, bytes(rng.choice(b"abcXYZ09") for _ in range(rng.randint(0, 3)))]
        return [5]
    if r < 0.55:
        return [6, [gen_pval(rng, depth - 1) for _ in range(rng.randint(0, 3))]]
    if r < 0.75:
        return [7, [gen_pval(rng, depth - 1) for _ in range(rng.randint(0, 3))]]
    keys = rng.sample([[1, 0], [1, 1], [1, 7], [4, b"a"], [4, b"b"], [2, b"k"], [6, [[1, 1], [4, b"t"]]], [5]], rng.randint(0, 3))
    if r < 0.9 or not frozen_ok:
        return [8, [[k, gen_pval(rng, depth - 1)] for k in keys]]
    # an immutable.Dict as the library builds them: content already immutable
    return [9, [[k, gen_imm_pval(rng, depth - 1)] for k in keys]]


def gen_imm_pval(rng, depth):
    r = rng.random()
    if depth <= 0 or r < 0.6:
        return rng.choice([[1, 3], [2, b"\x00\xff"], [4, b"s"], [5]])
    if r < 0.85:
        return [6, [gen_imm_pval(rng, depth - 1) for _ in range(rng.randint(0, 2))]]
    return [9, [[k, gen_imm_pval(rng, depth - 1)] for k in rng.sample([[1, 0], [4, b"a"]], rng.randint(0, 2))]]


def gen_acts(rng, depth, live, top):
    acts = []
    for _ in range(rng.randint(1, 4)):
        r = rng.random()
        if r < 0.45 and live:
            acts.append([1, rng.choice(sorted(live)), rng.randrange(4), rng.randrange(100)])
        elif r < 0.6 and live:
            acts.append([2, rng.choice(sorted(live)), rng.randrange(4)])
        elif r < 0.92 and depth > 0:
            o = rng.randrange(4)
            live.add(o)
            body = gen_acts(rng, depth - 1, live, False)
            acts.append([3, o, body])
        elif r < 0.97:
            acts.append([4])
    return acts


def cases(ctx):
    """all cases of a run; the op-code histogram of the sequences goes into the evidence"""
    for kind, case in _cases(ctx):
        if case[0] in (1, 2):
            pre = "setop:" if case[0] == 1 else "rdsop:"
            for op in case[2]:
                code = op[0]
                if code in (8, 9, 10) and case[0] == 1 or code in (12, 13, 14) and case[0] == 2:
                    ctx.count(f"{pre}{code}.{op[1]}")
                else:
                    ctx.count(f"{pre}{code}")
        yield kind, case


def _cases(ctx):
    rng = ctx.rng
    # ---- exhaustive small scopes
    if ctx.quick:
        scopes = [("exh-rds-NS", exh_rds("NS", 2)), ("exh-rds-CNAME", exh_rds("CNAME", 2)),
                  ("exh-rds-RRSIG", exh_rds("RRSIG", 1)), ("exh-set", exh_set(2))]
        ctx.notes["exhaustive_scopes"] = "quick: all op sequences of length 2 over 3 records x 2 registers (23-op Rdataset alphabet: NS, CNAME; 29-op Set alphabet)"
    else:
        scopes = [("exh-rds-NS", exh_rds("NS", 3)), ("exh-rds-CNAME", exh_rds("CNAME", 3, core=16)),
                  ("exh-rds-RRSIG", exh_rds("RRSIG", 2)), ("exh-set", exh_set(2)), ("exh3-set", exh_set(3, core=True)),
                  ("exh4-rds-NS", exh_rds("NS", 4, core=10))]
        ctx.notes["exhaustive_scopes"] = ("thorough: all op sequences over 3 records x 2 registers: length 3 over the 23-op Rdataset alphabet (NS) and its "
                                          "16-op core (CNAME), RRSIG length 2, length 4 over the 10-op core (NS); Set machine: length 2 over 29 ops, length 3 over the 20-op core")
    for kind, gen in scopes:
        for c in gen:
            yield kind, c
    ctx.notes["exhaustive"] = True
    # ---- random op sequences
    for _ in range(ctx.n(500, 4000)):
        c = gen_set_case(rng, rng.choice([4, 8, 12, 20] if ctx.quick else [4, 8, 12]))
        if c is not None:
            yield "set", c
    for _ in range(ctx.n(900, 4500)):
        c = gen_rds_case(rng, rng.choice([4, 8, 12, 20] if ctx.quick else [4, 8, 12, 16]))
        if c is not None:
            yield "rds", c
    for i in range(ctx.n(300, 2000)):
        c = gen_algebra_case(rng, 1 + i % 2)
        if c is not None:
            yield "algebra", c
    # ---- record comparisons: all pairs inside each family + cross-family samples
    fams = sorted(FAMILIES)
    for f in fams:
        n = len(FAMILIES[f][2])
        for i in range(n):
            for j in range(n):
                u = make_universe([(f, i), (f, j)])
                if u is None:
                    continue
                ci = (f, min(i, j), max(i, j)) in CI_PAIRS or i == j
                yield ("cmp-ci" if ci else "cmp"), [3, u[0], u[1]]
    for _ in range(ctx.n(150, 2000)):
        f, g = rng.choice(fams), rng.choice(fams)
        u = make_universe([(f, rng.randrange(9)), (g, rng.randrange(9))])
        if u is not None:
            yield "cmp", [3, u[0], u[1]]
    # ---- immutable guard scripts, constify
    for _ in range(ctx.n(300, 2000)):
        # the four objects are created first, so every later action refers to an existing object
        yield "guard", [4, [[3, o, []] for o in range(4)] + gen_acts(rng, 3, set(range(4)), True)]
    for _ in range(ctx.n(300, 2000)):
        yield "constify", [5, gen_pval(rng, 3)]
    # ---- records with their fields: digest, ==, hash, order on the real encodings
    cts = sorted(CANON)
    for _ in range(ctx.n(700, 6000)):
        ct = rng.choice(cts)
        kinds = CANON[ct][0]
        va = gen_canon_vals(rng, kinds)
        r = rng.random()
        if r < 0.75:
            ctb, vb = ct, perturb_canon(rng, kinds, va)
        elif r < 0.9:
            ctb, vb = ct, gen_canon_vals(rng, kinds)
        else:
            ctb = rng.choice([c for c in cts if CANON[c][0] == kinds] or [ct])
            vb = va
        if all(sum(len(l) + 1 for l in v) <= 255 for k, v in list(zip(kinds, va)) + list(zip(kinds, vb)) if k == "name"):
            yield "canon", [7, canon_rec(0, ct, va), canon_rec(1, ctb, vb)]
    # ---- processing_order
    for _ in range(ctx.n(200, 1500)):
        n = rng.choice([0, 1, 2, 3, 5, 8])
        ids_ = rng.sample(range(200), n)
        yield "procorder", [10, rng.randrange(4), [[rng.choice([0, 5, 10, 10, 20, 65535]), i, rng.choice([0, 0, 1, 5, 100])] for i in ids_]]
    # ---- __getstate__ / __setstate__ (copy, pickle) and replace()
    for _ in range(ctx.n(200, 1500)):
        yield "getstate", gen_obj_case(rng)
    for _ in range(ctx.n(200, 1500)):
        yield "replace", gen_replace_case(rng)
    # ---- Rdata._as_bytes / _as_tuple(_as_bytes): what a binary field is normalised through
    for _ in range(ctx.n(300, 2000)):
        r = rng.random()
        if r < 0.5:
            v = rng.choice([[2, b"ab"], [3, b"ab"], [3, b""], [2, b""], [4, b"xy"], [4, b""], [3, bytes(range(7))], [1, 5], [5], [10, 1]])
        else:
            v = gen_pval(rng, 2)
        yield "asbytes", [6, v, rng.randrange(2), rng.choice([None, None, 0, 1, 3, 255]), rng.randrange(2), rng.randrange(2)]


# ------------------------------------------------------------------ oracle
# The property statement evaluated on the implementation's outputs.  Written against set theory
# (Python frozenset over record identities = (class, type, relativity, canonical encoding)), not
# against the model's algorithms.


def _is_subseq(a, b):
    it = iter(b)
    return all(any(x == y for y in it) for x in a)


def _settheory(alg, A, B):
    return {"union": A | B, "update": A | B, "inter": A & B, "diff": A - B, "sym": A ^ B}[alg]


def _check_order(alg, prev_self, prev_other, cur, key, fail, what):
    """first-insertion order: survivors of self keep identity and relative order and come first;
    newcomers are other's own objects in other's order"""
    K = lambda l: [key[x] for x in l]
    old = [x for x in cur if x in prev_self]
    new = [x for x in cur if x not in prev_self]
    if cur != old + new:
        fail(what + ": surviving members do not precede the new ones")
    if not _is_subseq(old, prev_self):
        fail(what + ": surviving members changed their insertion order")
    if not _is_subseq(new, prev_other):
        fail(what + ": new members are not in the other set's insertion order")
    if len(set(K(cur))) != len(cur):
        fail(what + ": duplicate members")


def oracle_set(case, out, fail):
    uni, ops = case[1], case[2]
    key = {r[0]: key_of_rec(r) for r in uni}
    K = lambda l: frozenset(key[x] for x in l)
    prev = []
    for n, (op, step) in enumerate(zip(ops, out)):
        res, cur = step
        what = f"step {n} op {op}"
        for s in cur:
            if len(K(s)) != len(s):
                fail(what + ": a set holds two equal records (duplicates must collapse)")
        if isinstance(res, Err) and res.code >= 500 and res.code != 900:
            fail(what + ": unexpected exception " + res.text)
        k = op[0]
        touched = set()
        if isinstance(res, Err):
            # a refused operation leaves every set unchanged
            if cur != prev:
                fail(what + ": operation raised but changed a set")
        elif k == 1:
            touched = {op[1]}
            want = []
            for x in op[2]:
                if key[x] not in [key[y] for y in want]:
                    want.append(x)
            if cur[op[1]] != want:
                fail(what + ": Set(items) is not the first occurrences in order")
        elif k == 2:
            touched = {op[1]}
            p = prev[op[1]]
            want = p if key[op[2]] in K(p) else p + [op[2]]
            if cur[op[1]] != want:
                fail(what + ": add is not append-if-absent")
        elif k in (3, 4):
            touched = {op[1]}
            p = prev[op[1]]
            want = [x for x in p if key[x] != key[op[2]]]
            if cur[op[1]] != want:
                fail(what + ": remove/discard did not remove exactly the equal member")
        elif k == 5:
            touched = {op[1]}
            p = prev[op[1]]
            if res not in p or cur[op[1]] != [x for x in p if x != res]:
                fail(what + ": pop did not remove the returned member")
        elif k == 6:
            touched = {op[1]}
            if cur[op[1]] != []:
                fail(what + ": clear left members")
        elif k == 7:
            touched = {op[1]}
            if cur[op[1]] != prev[op[2]]:
                fail(what + ": copy differs from the original")
        elif k == 8:
            w, r, o = op[1], op[2], op[3]
            touched = {r}
            alg = ALG_OF[w]
            A, B = K(prev[r]), K(prev[o])
            if K(cur[r]) != _settheory(alg, A, B):
                fail(what + f": in-place {alg} disagrees with set theory", sig="set-algebra")
            _check_order(alg, prev[r], prev[o], cur[r], key, fail, what)
        elif k == 9:
            w, d, r, o = op[1:5]
            touched = {d}
            alg = ALG_OF[w]
            A, B = K(prev[r]), K(prev[o])
            if K(cur[d]) != _settheory(alg, A, B):
                fail(what + f": copying {alg} disagrees with set theory", sig="set-algebra")
            _check_order(alg, prev[r], prev[o], cur[d], key, fail, what)
        elif k == 10:
            w, r, o = op[1], op[2], op[3]
            A, B = K(prev[r]), K(prev[o])
            want = {1: A <= B, 2: A >= B, 3: not (A & B), 4: A == B, 5: A != B}[w]
            if bool(res) != want:
                fail(what + ": predicate disagrees with set theory", sig="set-predicate")
        elif k == 11:
            touched = {op[1]}
            want = list(prev[op[1]])
            for x in op[2]:
                if key[x] not in [key[y] for y in want]:
                    want.append(x)
            if cur[op[1]] != want:
                fail(what + ": update(iterable) is not append-if-absent in order")
        elif k == 12:
            if res != len(K(prev[op[1]])):
                fail(what + ": len is not the number of distinct members")
        elif k == 13:
            if res != prev[op[1]]:
                fail(what + ": iteration order is not insertion order")
        elif k == 14:
            if bool(res) != (key[op[2]] in K(prev[op[1]])):
                fail(what + ": membership test wrong")
        elif k == 15:
            p = prev[op[1]]
            if not (0 <= op[2] < len(p)) or res != p[op[2]]:
                fail(what + ": indexing is not by insertion order")
        elif k == 16:
            p = prev[op[1]]
            if all(v is None or v >= 0 for v in op[2:5]) and res != p[slice(op[2], op[3], op[4])]:
                fail(what + ": slicing is not by insertion order")
        elif k == 17:
            touched = {op[1]}
            p = prev[op[1]]
            if not (0 <= op[2] < len(p)) or cur[op[1]] != p[: op[2]] + p[op[2] + 1:]:
                fail(what + ": del s[i] wrong")
        elif k == 18:
            touched = {op[1]}
            p = prev[op[1]]
            gone = p[slice(op[2], op[3], op[4])]
            if cur[op[1]] != [x for x in p if x not in gone]:
                fail(what + ": del s[a:b] wrong")
        if not isinstance(res, Err):
            for i, s in enumerate(prev):
                if i not in touched and i < len(cur) and cur[i] != s:
                    fail(what + f": register {i} changed although it is not the target (aliasing)")
        prev = cur


def ref_ttl_text(b):
    """BIND-style TTL text, written from the documentation of dns.ttl.from_text: digits, or
    <n><unit> groups with units w d h m s (any case); 0..2**32-1; None = BadTTL"""
    s = b.decode()
    if s.isdigit():
        v = int(s)
    else:
        m = re.fullmatch(r"(?:\d+[wdhmsWDHMS])+", s)
        if not m:
            return None
        v = sum(int(n) * {"w": 604800, "d": 86400, "h": 3600, "m": 60, "s": 1}[u.lower()] for n, u in re.findall(r"(\d+)([wdhmsWDHMS])", s))
    return v if 0 <= v <= 2**32 - 1 else None


SINGLETONS = {6, 30, 39, 47, 5}
SIGTYPES = {46, 24}


def oracle_rds(case, out, fail):
    uni, ops = case[1], case[2]
    key = {r[0]: key_of_rec(r) for r in uni}
    rec = {r[0]: r for r in uni}
    K = lambda l: frozenset(key[x] for x in l)
    prev = []
    for n, (op, step) in enumerate(zip(ops, out)):
        res, cur = step
        what = f"step {n} op {op}"
        if isinstance(res, Err) and res.code >= 500 and res.code != 900:
            fail(what + ": unexpected exception " + res.text)
        # -- invariants of every reachable state
        for s in cur:
            kd, c, t, cv, ttl, its = s[:6]
            if len(K(its)) != len(its):
                fail(what + ": an rdataset holds two equal records (duplicates must collapse)")
            for x in its:
                if rec[x][1] != c or rec[x][2] != t:
                    fail(what + ": an rdataset holds a record of a different class or type", sig="refuse")
                if t in SIGTYPES and rec[x][3] != cv:
                    fail(what + ": an RRSIG/SIG rdataset holds a record covering a different type", sig="refuse")
            if t in SINGLETONS and len(its) > 1:
                fail(what + ": a singleton-type rdataset holds more than one record", sig="singleton")
        # -- immutable rdatasets never change
        for i, s in enumerate(prev):
            if s[0] == 1 and i < len(cur) and cur[i] != s:
                k = op[0]
                replaced = (k in (1, 2, 3, 4, 11, 22) and op[1] == i) or (k == 13 and op[2] == i)
                if not replaced:
                    fail(what + f": ImmutableRdataset in register {i} changed", sig="immutable")
        if op[0] in (23, 24) and op[1] < len(prev):
            # the text form of a TTL is the number it denotes; a malformed text is refused (BadTTL)
            tv = ref_ttl_text(op[-1])
            if tv is None and prev[op[1]][0] != 1 and not (op[0] == 24 and (rec[op[2]][1], rec[op[2]][2]) != (prev[op[1]][1], prev[op[1]][2])):
                if not (isinstance(res, Err) and res.code == 23) or cur != prev:
                    fail(what + ": a malformed TTL text was not refused with BadTTL (or changed the set)", sig="ttl")
                prev = cur
                continue
            if tv is not None:
                op = [6, op[1], tv] if op[0] == 23 else [5, op[1], op[2], tv]
        k = op[0]
        touched = set()
        P = lambda i: prev[i]
        merge = lambda s, t: t if not s[5] else min(s[4], t)
        if isinstance(res, Err):
            # refusals leave the members unchanged (the TTL may already have been minimised)
            for i, s in enumerate(prev):
                if cur[i][5] != s[5] and not (k in (12,) and op[2] == i and res.code in (2, 3)):
                    fail(what + f": operation raised but changed the members of register {i}", sig="refuse")
                if cur[i][:4] != s[:4] and not (k == 12 and op[2] == i):
                    fail(what + f": operation raised but changed class/type/covers of register {i}")
            if k == 12 and res.code in (2, 3):
                # a bulk merge may have added the compatible prefix; members only grow by other's members
                r, o = op[2], op[3]
                if not (K(prev[r][5]) <= K(cur[r][5]) <= K(prev[r][5]) | K(prev[o][5])) and prev[r][2] not in SINGLETONS:
                    fail(what + ": failed bulk merge left foreign members")
        elif k in (1, 2):
            touched = {op[1]}
            s = cur[op[1]]
            if k == 1 and s[:6] != [0, op[2], op[3], op[4], op[5], []]:
                fail(what + ": new Rdataset is not empty with the given attributes")
            if k == 2 and (s[:4] + [s[5]] != [2, op[3], op[4], op[5], []] or s[6] != op[2] or s[7] != op[6]):
                fail(what + ": new RRset is not empty with the given attributes")
        elif k == 3:
            touched = {op[1]}
            if cur[op[1]][:6] != [1] + P(op[2])[1:6]:
                fail(what + ": ImmutableRdataset(x) differs from x")
        elif k == 4:
            touched = {op[1]}
            src, dst = P(op[2]), cur[op[1]]
            if dst[0] != 0 or dst[1:3] != src[1:3] or dst[4:6] != src[4:6]:
                fail(what + ": to_rdataset changed members, order or TTL")
        elif k == 22:
            touched = {op[1]}
            c = cur[op[1]]
            xs = op[4]
            first = rec[xs[0]]
            if c[0] != (2 if op[2] is not None else 0) or c[1:3] != [first[1], first[2]] or c[4] != op[3]:
                fail(what + ": from_rdata_list: kind/class/type/TTL wrong", sig="ttl")
            if first[2] in SINGLETONS:
                want = [xs[-1]]
            else:
                want = []
                for x in xs:
                    if key[x] not in [key[y] for y in want]:
                        want.append(x)
            if c[5] != want:
                fail(what + ": from_rdata_list members are not the first occurrences in order", sig="add")
        elif k == 5:
            r, x, t = op[1], op[2], op[3]
            touched = {r}
            s, c = P(r), cur[r]
            compatible = rec[x][1] == s[1] and rec[x][2] == s[2]
            if not compatible:
                fail(what + ": a record of a different class/type was accepted", sig="refuse")
            if s[2] in SIGTYPES and not (rec[x][3] == s[3] or (not s[5] and s[3] == 0)):
                fail(what + ": a signature covering a different type was accepted", sig="refuse")
            if s[2] in SINGLETONS:
                if c[5] != [x]:
                    fail(what + ": singleton type does not keep exactly the newest record", sig="singleton")
            else:
                want = s[5] if key[x] in K(s[5]) else s[5] + [x]
                if c[5] != want:
                    fail(what + ": add is not append-if-absent", sig="add")
            want_ttl = s[4] if t is None else merge(s, t)
            if c[4] != want_ttl:
                fail(what + f": TTL {c[4]} is not the minimum of the merged TTLs ({want_ttl})", sig="ttl")
        elif k == 6:
            r, t = op[1], op[2]
            touched = {r}
            if cur[r][4] != merge(P(r), t) or cur[r][5] != P(r)[5]:
                fail(what + ": update_ttl is not TTL minimisation", sig="ttl")
        elif k in (7, 8, 9, 10, 21):
            r = op[1]
            touched = {r}
            s, c = P(r), cur[r]
            if k in (7, 8):
                want = [y for y in s[5] if key[y] != key[op[2]]]
            elif k == 9:
                want = [y for y in s[5] if y != res]
                if res not in s[5]:
                    fail(what + ": pop returned a non-member")
            elif k == 10:
                want = []
            else:
                want = s[5][: op[2]] + s[5][op[2] + 1:] if 0 <= op[2] < len(s[5]) else None
            if c[5] != want:
                fail(what + ": removal wrong")
            if c[4] != s[4]:
                fail(what + ": removal changed the TTL", sig="ttl")
        elif k == 11:
            touched = {op[1]}
            if cur[op[1]] != P(op[2]):
                fail(what + ": copy differs from the original")
        elif k in (12, 13):
            if k == 12:
                w, r, o = op[1], op[2], op[3]
                d = r
            else:
                w, d, r, o = op[1:5]
            touched = {d}
            alg = ALG_OF[w]
            s, oth, c = P(r), P(o), cur[d]
            if k == 13:
                if c[0] != s[0] and not (s[0] == 1 and c[0] == 1):
                    fail(what + ": copying form returned a different kind of set")
                if s[0] == 1 and c[0] != 1:
                    fail(what + ": functional op on an ImmutableRdataset returned a mutable set", sig="immutable")
            if s[0] == 1 and k == 12:
                pass  # only possible when nothing had to change (checked above: unchanged)
            else:
                A, B = K(s[5]), K(oth[5])
                want = _settheory(alg, A, B)
                if s[2] in SINGLETONS:
                    if alg in ("union", "update") and oth[5] and r != o:
                        if c[5] != [oth[5][-1]]:
                            fail(what + ": singleton type does not keep the newest record on merge", sig="singleton")
                    elif alg == "sym":
                        if not K(c[5]) <= want:
                            fail(what + ": symmetric difference has foreign members")
                    elif K(c[5]) != want:
                        fail(what + f": {alg} disagrees with set theory", sig="set-algebra")
                else:
                    if K(c[5]) != want:
                        fail(what + f": {alg} disagrees with set theory", sig="set-algebra")
                    _check_order(alg, s[5], oth[5], c[5], key, fail, what)
                if alg == "diff":
                    want_ttl = s[4]
                else:
                    want_ttl = merge(s, oth[4]) if r != o or k == 13 else s[4]
                if c[4] != want_ttl:
                    fail(what + f": TTL {c[4]} is not the minimum of the merged TTLs ({want_ttl})", sig="ttl")
                if c[1:3] != s[1:3]:
                    fail(what + ": class/type changed")
        elif k == 14:
            w, r, o = op[1], op[2], op[3]
            a, b = P(r), P(o)
            A, B = K(a[5]), K(b[5])
            if w in (4, 5):
                same = a[1:4] == b[1:4] and A == B
                if a[0] == 2 and b[0] == 2:
                    same = same and [l.lower() for l in a[6]] == [l.lower() for l in b[6]]
                want = same if w == 4 else not same
            else:
                want = {1: A <= B, 2: A >= B, 3: not (A & B)}[w]
            if bool(res) != want:
                fail(what + ": predicate disagrees with set theory / equality ignores order", sig="set-predicate")
        elif k == 15:
            s = P(op[1])
            if bool(res) != (s[1:4] == [op[2], op[3], op[4]]):
                fail(what + ": match wrong")
        elif k == 16:
            s = P(op[1])
            want = s[1:4] == [op[3], op[4], op[5]] and [l.lower() for l in s[6]] == [l.lower() for l in op[2]] and s[7] == op[6]
            if res not in (0, 1) or bool(res) != want:
                fail(what + ": full_match wrong")
        elif k == 17:
            if res != len(P(op[1])[5]):
                fail(what + ": len wrong")
        elif k == 18:
            if res != P(op[1])[5]:
                fail(what + ": iteration order is not insertion order")
        elif k == 19:
            if bool(res) != (key[op[2]] in K(P(op[1])[5])):
                fail(what + ": membership test wrong")
        elif k == 20:
            p = P(op[1])[5]
            if not (0 <= op[2] < len(p)) or res != p[op[2]]:
                fail(what + ": indexing is not by insertion order")
        if not isinstance(res, Err):
            for i, s in enumerate(prev):
                if i not in touched and i < len(cur) and cur[i] != s:
                    fail(what + f": register {i} changed although it is not the target (aliasing)")
        prev = cur


def oracle_cmp(kind, case, out, fail):
    a, b = case[1], case[2]
    eq, ne, heq, lt, le, ge, gt = out
    want = key_of_rec(a) == key_of_rec(b)
    if bool(eq) != want:
        fail("== is not (same class, same type, same canonical encoding)", sig="eq")
    if bool(ne) == bool(eq):
        fail("!= is not the negation of ==", sig="eq")
    if eq and not heq:
        fail("equal records hash differently", sig="hash")
    if kind == "cmp-ci" and not (eq and heq):
        fail("records that differ only in the case of an embedded name are not equal / hash differently", sig="ci")
    if a[1] == b[1] and a[2] == b[2]:
        if any(isinstance(x, Err) for x in (lt, le, ge, gt)):
            fail("ordering raised between records of the same class and type")
            return
        if a[5] == b[5]:
            da, db = bytes(a[4]), bytes(b[4])
            if (bool(lt), bool(le), bool(ge), bool(gt)) != (da < db, da <= db, da >= db, da > db):
                fail("ordering is not canonical RDATA octet order", sig="order")
        else:
            first = a[5] == 1  # relative sorts first
            if (bool(lt), bool(le), bool(ge), bool(gt)) != (first, first, not first, not first):
                fail("relative/absolute ordering rule broken", sig="order")


# RFC 4034 6.2 (3), as amended by RFC 6840 5.1 (NSEC removed): the types whose embedded names
# are lower-cased in the canonical form
RFC4034_DOWNCASE = {2, 3, 4, 5, 6, 7, 8, 9, 12, 13, 14, 15, 17, 18, 21, 24, 26, 30, 33, 35, 36, 38, 39, 46}


def _lower(b):
    return bytes(c + 32 if 65 <= c <= 90 else c for c in b)


def ref_canonical(typ, kinds, vals):
    """RFC 4034 6.2 canonical RDATA written from the RFC (names expanded to the root, lower-cased
    for the listed types, nothing compressed); None when a completed name exceeds 255 octets;
    also returns whether some name was relative"""
    out = b""
    rel = False
    for k, v in zip(kinds, vals):
        if k == "name":
            n = list(v)
            if not n or n[-1] != b"":
                rel = True
                n = n + [b""]
            if sum(len(l) + 1 for l in n) > 255:
                return None, rel
            for l in n:
                out += bytes([len(l)]) + (_lower(l) if typ in RFC4034_DOWNCASE else l)
        elif k[0] == "u":
            out += v.to_bytes(int(k[1]), "big")
        elif k in ("fixed4", "fixed16", "rem", "rem1"):
            out += bytes(v)
        elif k in ("c255", "tag"):
            out += bytes([len(v)]) + bytes(v)
        elif k == "txt":
            for r in v:
                out += bytes([len(r[0])]) + bytes(r[0])
        elif k == "bitmap":
            for w, b in v:
                out += bytes([w, len(b)]) + bytes(b)
    return out, rel


def oracle_canon(case, out, fail):
    a, b = case[1], case[2]
    ka, kb = CANON[(a[1], a[2])][0], CANON[(b[1], b[2])][0]
    ca, ra = ref_canonical(a[2], ka, a[3])
    cb, rb = ref_canonical(b[2], kb, b[3])
    da, db, eq, cmp_, heq, cov, wire = out
    if ca is None or cb is None:
        return  # a completed name does not fit: NameTooLong is the documented outcome
    for d, c, r, w in ((da, ca, ra, "first"), (db, cb, rb, "second")):
        if isinstance(d, Err) or bytes(d[0]) != c or bool(d[1]) != r:
            fail(f"to_digestable of the {w} record is not the RFC 4034 6.2 canonical RDATA", sig="canonical")
            return
    want = (a[1], a[2]) == (b[1], b[2]) and ra == rb and ca == cb
    if isinstance(eq, Err) or bool(eq) != want:
        fail("== is not: same class, same type, same canonical RDATA (names case-insensitive for the RFC 4034 6.2 types)", sig="eq")
    if want and not (heq == 1):
        fail("equal records hash differently", sig="hash")
    if (a[1], a[2]) == (b[1], b[2]) and not isinstance(cmp_, Err):
        if ra != rb:
            exp = -1 if ra else 1
        else:
            exp = (ca > cb) - (ca < cb)
        if cmp_ != exp:
            fail("record order is not canonical RDATA octet order", sig="order")


def _guard_ref(acts):
    """setattr/delattr succeeds iff it happens inside the object's own __init__ (innermost)"""
    log, store = [], {}

    class Boom(Exception):
        pass

    def go(ctx, acts):
        for a in acts:
            if a[0] == 1:
                if ctx == a[1]:
                    store[(a[1], a[2])] = a[3]
                    log.append(None)
                else:
                    log.append(Err(4))
            elif a[0] == 2:
                if ctx == a[1]:
                    if (a[1], a[2]) in store:
                        del store[(a[1], a[2])]
                        log.append(None)
                    else:
                        log.append(Err(103))
                else:
                    log.append(Err(4))
            elif a[0] == 3:
                go(a[1], a[2])
            else:
                raise Boom()

    for a in acts:
        try:
            go(None, [a])
        except Boom:
            log.append(Err(999))
    grid = [[store.get((o, k)) for k in range(4)] for o in range(4)]
    return [log, None, grid]


def _has_mutable(v):
    if v[0] in (3, 7, 8):
        return True
    if v[0] == 6:
        return any(_has_mutable(x) for x in v[1])
    if v[0] == 9:
        return any(_has_mutable(a) or _has_mutable(b) for a, b in v[1])
    return False


def _shape(v):
    """content with container kinds erased: bytearray~bytes, list~tuple, dict~Dict"""
    if v[0] in (2, 3):
        return ("b", bytes(v[1]))
    if v[0] in (6, 7):
        return ("t", tuple(_shape(x) for x in v[1]))
    if v[0] in (8, 9):
        return ("d", tuple((_shape(a), _shape(b)) for a, b in v[1]))
    return tuple(v)


def oracle(ctx, kind, case, out):
    F = []

    def fail(what, **kw):
        d = {"kind": kind + ":" + kw.pop("sig", "spec"), "what": what, "impl": out if len(repr(out)) < 2000 else "(large)", **kw}
        m = re.match(r"step (\d+) ", what)
        if m and case[0] in (1, 2) and not isinstance(out, Err):
            # operation sequences: the shortest failing prefix is the replay
            n = int(m.group(1)) + 1
            d["case"] = [case[0], case[1], case[2][:n]]
            d["impl"] = out[:n]
        F.append(d)

    if isinstance(out, Err):
        if case[0] == 9 and out.code == 103:
            kw9 = {a for a, _ in case[7]}
            if not any(a != 2 and (a not in case[2] or a in (0, 1)) for a in kw9):
                fail("replace() refused legal fields")
            return F
        if out.code != 900 and not (case[0] == 6 and out.code in (1, 4)):
            fail("unexpected exception " + out.text)
        return F
    k = case[0]
    if k == 1:
        oracle_set(case, out, fail)
    elif k == 2:
        oracle_rds(case, out, fail)
    elif k == 3:
        oracle_cmp(kind, case, out, fail)
    elif k == 4:
        if out != _guard_ref(case[1]):
            fail("attribute assignment outside the object's own __init__ did not raise (or inside it did)", sig="guard")
    elif k == 5:
        if _has_mutable(out):
            fail("constify left a mutable container", sig="constify")
        if _shape(out) != _shape(case[1]):
            fail("constify changed the content", sig="constify")
    elif k == 7:
        oracle_canon(case, out, fail)
    elif k == 10:
        want = sorted(i for _, i, _ in case[2])
        if sorted(out) != want:
            fail("processing_order is not a rearrangement of the members", sig="procorder")
        if case[1] in (1, 2, 3):
            pr = {i: p for p, i, _ in case[2]}
            if any(pr[a] > pr[b] for a, b in zip(out, out[1:])):
                fail("processing_order of a prioritised type is not in priority order", sig="procorder")
    elif k == 8:
        # a copy (cls.__new__ + __setstate__(__getstate__())) has the fields of the original
        state, res = out
        if sorted(map(repr, case[6])) == sorted(map(repr, state)):
            if isinstance(res, Err) or res[0] != [v for _, v in case[4]] or sorted(map(repr, res[1])) != sorted(map(repr, case[5])):
                fail("__setstate__(__getstate__()) does not reproduce the record's fields (a copy is not an equal record)", sig="copy")
    elif k == 9:
        # replace() returns a new record: named fields replaced, the others kept; rdclass/rdtype refuse
        kw = {a: b for a, b in case[7]}
        params = case[2]
        illegal = any(a != 2 and (a not in params or a in (0, 1)) for a in kw)
        if illegal:
            fail("replace() accepted rdclass/rdtype or an unknown field", sig="replace")
        else:
            have = dict(zip(case[3], out[0]))
            for cid, old in case[5]:
                want = kw.get(cid, old)
                if cid == 2 and kw.get(2) == [5]:
                    want = [5]
                if have.get(cid) != want:
                    fail("replace() did not keep / replace a field as requested", sig="replace")
                    break
    elif k == 6:
        # a normalised binary field is bytes / a tuple of bytes, never the caller's buffer
        ok = out[0] == 2 if not case[5] else (out[0] == 6 and all(x[0] == 2 for x in out[1]))
        if not ok:
            fail("_as_bytes/_as_tuple returned something that is not bytes / a tuple of bytes (mutable field)", sig="asbytes")
    return F[:3]


# ------------------------------------------------------------------ extra: finite enumeration of immutability
# every Rdata subclass x every slot: setattr/delattr must raise and leave the value alone;
# every field value must be of an immutable type (bytes, int, str, float, enum, None, tuple of
# such, Name, immutable.Dict of such, or an @immutable object with such fields).

SAMPLES = [
    ("IN", "TYPE999", "\\# 8 0a0000010a000001"),
    ("IN", "AFSDB", "0 hostname.example."),
    ("IN", "AMTRELAY", "0 0 0 ."),
    ("IN", "AMTRELAY", "10 0 3 relay.example."),
    ("IN", "AMTRELAY", "10 1 1 192.0.2.1"),
    ("IN", "AVC", '"app-name:WOLFGANG|app-class:OAM|business=yes"'),
    ("IN", "BRID", "AQIDBA=="),
    ("IN", "CAA", '0 issue "ca.example.net"'),
    ("IN", "CDNSKEY", "256 3 8 AwEAAbmiLgh411Pz3v3XCSBrvYf52A/G"),
    ("IN", "CDS", "12345 3 1 123456789abcdef67890123456789abcdef67890"),
    ("IN", "CERT", "65534 65535 PRIVATEOID MxFcby9k/yvedMfQgKzhH5er0Mu/vILz"),
    ("IN", "CNAME", "cname-target."),
    ("IN", "CSYNC", "12345 0 A MX RRSIG NSEC TYPE1234"),
    ("IN", "DLV", "12345 3 1 123456789abcdef67890123456789abcdef67890"),
    ("IN", "DNAME", "dname-target.example."),
    ("IN", "DNSKEY", "257 3 1 AQMFD5raczCJHViKtLYhWGz8hMY9UGRu"),
    ("IN", "DS", "12345 3 1 123456789abcdef67890123456789abcdef67890"),
    ("IN", "DSYNC", "CDS NOTIFY 5300 notify-endpoint.parent.net."),
    ("IN", "EUI48", "00-00-5e-00-53-2a"),
    ("IN", "EUI64", "00-00-5e-ef-10-00-00-2a"),
    ("IN", "GPOS", "-22.6882 116.8652 250.0"),
    ("IN", "HHIT", "AQIDBA=="),
    ("IN", "HINFO", '"Generic PC clone" "NetBSD-1.4"'),
    ("IN", "HIP", "2 200100107b1a74df365639cc39f1d578 AwEAAbdxyhNuSutc5EMzxTs9LBPCIkOFH8cIvM4p rvs1.example.com. rvs2.example.com."),
    ("IN", "ISDN", '"isdn-address" "subaddress"'),
    ("IN", "KEY", "256 3 8 AQID"),
    ("IN", "L32", "10 10.1.2.0"),
    ("IN", "L64", "10 2001:0DB8:1140:1000"),
    ("IN", "LOC", "60 9 0.000 N 24 39 0.000 E 10.00m 20.00m 2000.00m 20.00m"),
    ("IN", "LP", "10 l64-subnet1.example.com."),
    ("IN", "MX", "10 mail.example."),
    ("IN", "NID", "10 0014:4fff:ff20:ee64"),
    ("IN", "NINFO", '"a" "b"'),
    ("IN", "NS", "ns1.example."),
    ("IN", "NSEC", "a.secure.example. A MX RRSIG NSEC TYPE1234"),
    ("IN", "NSEC3", "1 1 12 aabbccdd 2t7b4g4vsa5smi47k61mv5bv1a22bojr NS SOA MX RRSIG DNSKEY NSEC3PARAM"),
    ("IN", "NSEC3PARAM", "1 1 12 aabbccdd"),
    ("IN", "OPENPGPKEY", "AQIDBA=="),
    ("IN", "PTR", "foo.net."),
    ("IN", "RESINFO", '"qnamemin" "exterr=15,16,17"'),
    ("IN", "RP", "mbox-dname.example. txt-dname.example."),
    ("IN", "RRSIG", "NSEC 1 3 3600 20200101000000 20030101000000 2143 foo.example. MxFcby9k/yvedMfQgKzhH5er0Mu/vILz"),
    ("IN", "RT", "0 intermediate-host.example."),
    ("IN", "SIG", "A 8 2 3600 20200101000000 20030101000000 2143 foo. MxFcby9k"),
    ("IN", "SMIMEA", "3 1 1 a9cdf989b504fe5dca90c0d2167b6550570734f7c763e09fdf88904e06157065"),
    ("IN", "SOA", "ns1.example. hostmaster.example. 1 2 3 4 5"),
    ("IN", "SPF", '"v=spf1 mx -all"'),
    ("IN", "SSHFP", "1 1 aa549bfe898489c02d1715d97d79c57ba2fa76ab"),
    ("IN", "TLSA", "3 1 1 a9cdf989b504fe5dca90c0d2167b6550570734f7c763e09fdf88904e06157065"),
    ("IN", "TXT", '"foo" "bar"'),
    ("IN", "URI", '10 1 "ftp://ftp1.example.com/public"'),
    ("IN", "WALLET", '"EXAMPLE" "01234567890abcdef"'),
    ("IN", "X25", '"123456789"'),
    ("IN", "ZONEMD", "2018031900 1 1 62e6cf51b02e54b9b5f967d547ce43136792901f9f88e637493daaf401c92c279dd10f0edb1c56f8080211f8480ee306"),
    ("IN", "A", "10.0.0.1"),
    ("IN", "AAAA", "2001:db8::1"),
    ("IN", "APL", "1:192.168.32.0/21 !1:192.168.38.0/28 2:ff00::/8"),
    ("IN", "DHCID", "AAIBY2/AuCccgoJbsaxcQc9TUapptP69lOjxfNuVAA2kjEA="),
    ("IN", "HTTPS", '1 . port="8002" ech="abcd"'),
    ("IN", "IPSECKEY", "10 1 2 192.0.2.38 AQNRU3mG7TVTO2BkR47usntb102uFJtugbo6BSGvgqt4AQ=="),
    ("IN", "IPSECKEY", "10 3 2 mygateway.example.com. AQNRU3mG7TVTO2BkR47usntb102uFJtugbo6BSGvgqt4AQ=="),
    ("IN", "KX", "10 kdc.example."),
    ("IN", "NAPTR", '65535 65535 "blurgh" "blorf" "blegh" foo.'),
    ("IN", "NSAP", "0x47000580005a0000000001e133ffffff00016100"),
    ("IN", "NSAP-PTR", "foo."),
    ("IN", "PX", "65535 foo. bar."),
    ("IN", "SRV", "65535 65535 65535 old-slow-box.example.com."),
    ("IN", "SVCB", '100 foo.com. mandatory="alpn,port" alpn="h2,h3" no-default-alpn port="12345" ipv4hint="1.2.3.4,4.3.2.1" ech="abcd" ipv6hint="1::2,3::4" key12345="foo"'),
    ("IN", "WKS", "10.0.0.1 6 0 1 2 21 23"),
    ("CH", "A", "a. 0101"),
]
# types without a text form: built from wire
WIRE_SAMPLES = [
    ("ANY", "OPT", "000a0008" + "0102030405060708" + "00030002" + "6162" + "0008000700011800c00002" + "000f00040012" + "6869"),
    ("ANY", "TSIG", "0b686d61632d73686132353600" + "00005e0be100" + "012c" + "0004" + "deadbeef" + "1234" + "0000" + "0000"),
    ("ANY", "TKEY", "0b686d61632d73686132353600" + "5e0be100" + "5e0be200" + "0003" + "0000" + "0004" + "01020304" + "0002" + "aabb"),
]


def _rdata_subclasses():
    seen = set()
    todo = [dns.rdata.Rdata]
    while todo:
        c = todo.pop()
        for s_ in c.__subclasses__():
            if s_ not in seen and s_ is not _Guarded and not s_.__module__.startswith("pC07"):
                seen.add(s_)
                todo.append(s_)
    return seen


def _nf_wrapped(f):
    return getattr(f, "__qualname__", "").startswith("_immutable_init.")


def _probe_object(o, label, F, count):
    """setattr / delattr on every slot, every __dict__ entry and a new name must raise TypeError
    and change nothing"""
    names = list(itertools.chain.from_iterable(getattr(c, "__slots__", []) for c in type(o).__mro__))
    if isinstance(names, str):
        names = [names]
    names += list(getattr(o, "__dict__", {}).keys()) + ["brand_new_attribute"]
    sentinel = object()
    for nme in names:
        before = getattr(o, nme, sentinel)
        for what, f in (("setattr", lambda: setattr(o, nme, 12345)), ("delattr", lambda: delattr(o, nme))):
            count[0] += 1
            try:
                f()
                F.append({"kind": "immutable:" + what, "what": f"{what}({label}, {nme!r}) did not raise", "cls": label, "attr": nme})
            except TypeError:
                pass
            except Exception as e:  # noqa
                F.append({"kind": "immutable:" + what, "what": f"{what}({label}, {nme!r}) raised {type(e).__name__}, not TypeError", "cls": label, "attr": nme})
            after = getattr(o, nme, sentinel)
            if after is not before:
                F.append({"kind": "immutable:changed", "what": f"{what}({label}, {nme!r}) changed the attribute", "cls": label, "attr": nme})


def _mutabilize(v):
    """the same content in caller-owned mutable containers"""
    if isinstance(v, bytes):
        return bytearray(v)
    if isinstance(v, tuple):
        return [_mutabilize(x) for x in v]
    if isinstance(v, dns.immutable.Dict):
        return {k: _mutabilize(x) for k, x in v.items()}
    return v


def _scribble(v):
    """the caller reuses its buffers"""
    if isinstance(v, bytearray):
        if len(v):
            v[0] ^= 0xFF
        v.extend(b"\x01")
    elif isinstance(v, list):
        for x in v:
            _scribble(x)
        v.append(b"scribble")
    elif isinstance(v, dict):
        for x in v.values():
            _scribble(x)
        v[65000] = None


def _check_constructor_aliasing(label, rd, F, count, notes):
    """a record built through its type constructor from caller-owned bytearrays / lists / dicts
    must not keep them: no mutable field, and the value (digest, ==, hash) does not move when the
    caller scribbles over its buffers afterwards"""
    try:
        params = list(inspect.signature(rd.__init__).parameters)
        args = [getattr(rd, k) for k in params]
    except Exception as e:  # noqa
        notes.append(f"{label}: constructor arguments not recoverable ({type(e).__name__})")
        return
    for i, a in enumerate(args):
        m = _mutabilize(a)
        if m is a:
            continue
        margs = list(args)
        margs[i] = m
        count[0] += 1
        try:
            rd2 = type(rd)(*margs)
        except Exception as e:  # noqa
            notes.append(f"{label}.{params[i]}: constructor refuses a {type(m).__name__} ({type(e).__name__})")
            continue
        bad = []
        is_immutable_value(rd2, f"{label}({params[i]}=<{type(m).__name__}>)", bad)
        for path, why in bad:
            F.append({"kind": "immutable:ctor-field", "what": f"{path} holds a mutable value ({why}) after construction from a caller-owned {type(m).__name__}", "cls": label, "attr": params[i]})
        try:
            d0, h0, eq0 = rd2.to_digestable(ROOT), hash(rd2), rd2 == rd
            _scribble(m)
            d1, h1, eq1 = rd2.to_digestable(ROOT), hash(rd2), rd2 == rd
            if (d0, h0, eq0) != (d1, h1, eq1) or not eq0:
                F.append({"kind": "immutable:ctor-alias", "what": f"{label}: the record built from a caller-owned {type(m).__name__} for {params[i]!r} changed its value (digest/hash/==) when the buffer was reused", "cls": label, "attr": params[i]})
        except Exception as e:  # noqa
            F.append({"kind": "immutable:ctor-alias", "what": f"{label}.{params[i]}: {type(e).__name__} {e}", "cls": label, "attr": params[i]})


def _check_instance(label, rd, F, count, anomalies):
    for i, opt in enumerate(getattr(rd, "options", ()) if int(rd.rdtype) == 41 else ()):
        _probe_object(opt, f"{label}.options[{i}]", F, count)   # EDNS options of an OPT record
    other = object()
    count[0] += 1
    if rd == other or not (rd != other) or not (rd == rd) or rd != rd or hash(rd) != hash(rd):
        F.append({"kind": "value:eq", "what": f"{label}: == / != against itself or a non-record is wrong", "cls": label})
    _check_constructor_aliasing(label, rd, F, count, anomalies)
    _probe_object(rd, label, F, count)
    bad = []
    is_immutable_value(rd, label, bad)
    count[0] += 1
    for path, why in bad:
        F.append({"kind": "immutable:field", "what": f"{path} holds a mutable value ({why})", "cls": label, "attr": path})
    # value semantics survive a wire round trip: equal, same hash
    try:
        w = rd.to_wire(origin=ROOT)
        rd2 = dns.rdata.from_wire(rd.rdclass, rd.rdtype, w, 0, len(w))
        count[0] += 1
        if rd.to_digestable(ROOT) == rd2.to_digestable(ROOT) and "rel" not in label:
            if not (rd == rd2 and hash(rd) == hash(rd2) and not (rd != rd2) and not (rd < rd2) and rd <= rd2):
                F.append({"kind": "value:roundtrip", "what": f"{label}: wire round trip gives an unequal / differently hashed record", "cls": label})
    except Exception as e:  # noqa
        F.append({"kind": "value:roundtrip", "what": f"{label}: {type(e).__name__} {e}", "cls": label})
    # value semantics: a copy / deep copy / unpickled copy of a record is an equal record (same
    # class, hash) and is immutable as well (__setstate__ runs under the guard protocol).  A copy
    # operation that refuses (raises) produces no wrong value; it is only noted.
    for how, f in (("copy", copy.copy), ("deepcopy", copy.deepcopy), ("pickle", lambda x: pickle.loads(pickle.dumps(x)))):
        count[0] += 1
        try:
            rd3 = f(rd)
        except Exception as e:  # noqa
            anomalies.append(f"{label}: {how} raised {type(e).__name__}")
            continue
        try:
            same = rd3 == rd and hash(rd3) == hash(rd) and type(rd3) is type(rd) and rd3.to_digestable(ROOT) == rd.to_digestable(ROOT)
        except Exception as e:  # noqa
            same = False
        if not same:
            F.append({"kind": "value:" + how, "what": f"{label}: the {how} of the record is not an equal record", "cls": label})
        if rd3 is not rd:
            _probe_object(rd3, label + " (" + how + ")", F, count)


def extra(ctx):
    F = []
    count = [0]
    for (fam, i), msg in sorted(_GEN_ERRORS.items()):
        F.append({"kind": "generator:record", "what": "a well-formed record cannot be built or digested: " + msg, "cls": fam})
    saved = dns.rdata._dynamic_load_allowed
    dns.rdata.load_all_types(False)
    dns.rdata._dynamic_load_allowed = saved
    classes = _rdata_subclasses()
    registered = set(dns.rdata._rdata_classes.values())
    # ---- class level: the mixin is in place and every __init__/__setstate__ in the chain is wrapped
    option_classes = {c for c in vars(dns.edns).values()
                      if isinstance(c, type) and issubclass(c, dns.edns.Option) and c is not dns.edns.Option}
    for c in sorted(classes | option_classes | {dns.rdata.Rdata, dns.name.Name, dns.rdataset.ImmutableRdataset, dns.immutable.Dict},
                    key=lambda c: (c.__module__, c.__qualname__)):
        label = c.__module__ + "." + c.__qualname__
        count[0] += 1
        if ictx._Immutable not in c.__mro__:
            F.append({"kind": "immutable:class", "what": f"{label} is not @immutable", "cls": label})
            continue
        if c.__setattr__ is not ictx._Immutable.__setattr__ or c.__delattr__ is not ictx._Immutable.__delattr__:
            F.append({"kind": "immutable:class", "what": f"{label} overrides __setattr__/__delattr__ of the guard", "cls": label})
        for k in c.__mro__:
            if k in (object, ictx._Immutable) or ictx._Immutable not in k.__mro__:
                continue
            for meth in ("__init__", "__setstate__"):
                f = vars(k).get(meth)
                if f is not None and not _nf_wrapped(f):
                    F.append({"kind": "immutable:class", "what": f"{k.__module__}.{k.__qualname__}.{meth} is not wrapped by @immutable", "cls": label})
    # ---- instance level
    covered = set()
    insts = []
    anomalies = []
    for c_, t_, text in SAMPLES:
        try:
            insts.append((f"{c_} {t_}", dns.rdata.from_text(c_, t_, text, relativize=False)))
        except Exception as e:  # noqa
            F.append({"kind": "immutable:sample", "what": f"sample {c_} {t_} {text!r} does not parse: {type(e).__name__} {e}", "cls": t_})
    for c_, t_, hx in WIRE_SAMPLES:
        try:
            w = bytes.fromhex(hx)
            insts.append((f"{c_} {t_}", dns.rdata.from_wire(c_, t_, w, 0, len(w))))
        except Exception as e:  # noqa
            F.append({"kind": "immutable:sample", "what": f"wire sample {c_} {t_} does not parse: {type(e).__name__} {e}", "cls": t_})
    # relative-name variants too (their fields are Names as well)
    insts.append(("IN NS rel", dns.rdata.from_text("IN", "NS", "foo", relativize=False)))
    for label, rd in insts:
        covered.add(type(rd))
        try:
            _check_instance(label, rd, F, count, anomalies)
        except Exception as e:  # noqa
            F.append({"kind": "immutable:crash", "what": f"{label}: checking the instance raised {type(e).__name__}: {e}", "cls": label})
    missing = sorted(c.__module__ + "." + c.__qualname__ for c in registered - covered)
    # the singleton table hard-coded in the model (is_singleton) is the one of dns.rdatatype
    if {int(t) for t in dns.rdatatype._singletons} != SINGLETONS:
        F.append({"kind": "model:singletons", "what": f"dns.rdatatype._singletons = {sorted(int(t) for t in dns.rdatatype._singletons)} differs from the model's table {sorted(SINGLETONS)}"})
    if not (dns.rdatatype.RRSIG == 46 and dns.rdatatype.SIG == 24 and dns.rdatatype.NONE == 0 and dns.rdata._allow_relative_comparisons is True):
        F.append({"kind": "model:constants", "what": "RRSIG/SIG/NONE type codes or _allow_relative_comparisons differ from the model"})
    ctx.notes["copy_pickle_anomalies"] = anomalies
    ctx.notes["immutability_classes"] = len(classes)
    ctx.notes["immutability_instances"] = len(insts)
    ctx.notes["immutability_registered_without_sample"] = missing
    # SVCB params and friends are reached through the fields of the instances above.
    # ---- Name, ImmutableRdataset, immutable.Dict
    try:
        n = dns.name.from_text("Foo.Example.")
        _probe_object(n, "Name", F, count)
        lbls = [b"Foo", b"Example", b""]
        n2 = dns.name.Name(lbls)
        lbls[0] = b"Bar"
        lbls.append(b"x")
        if not isinstance(n2.labels, tuple) or n2 != n or hash(n2) != hash(n) or n2.labels[0] != b"Foo":
            F.append({"kind": "immutable:ctor-alias", "what": "Name built from a caller-owned list of labels keeps the list / changed when it was reused", "cls": "Name", "attr": "labels"})
        _probe_object(n2, "Name(list)", F, count)
        n3 = pickle.loads(pickle.dumps(n))
        if n3 != n or hash(n3) != hash(n):
            F.append({"kind": "value:pickle", "what": "unpickled Name differs", "cls": "Name"})
        _probe_object(n3, "Name (pickle)", F, count)
        bad = []
        is_immutable_value(n, "Name", bad)
        rds = dns.rdataset.from_text("IN", "A", 300, "10.0.0.1", "10.0.0.2")
        irds = dns.rdataset.ImmutableRdataset(rds)
        _probe_object(irds, "ImmutableRdataset", F, count)
        if not isinstance(irds.items, dns.immutable.Dict):
            bad.append(("ImmutableRdataset.items", type(irds.items).__name__))
        _probe_object(irds.items, "immutable.Dict", F, count)
        rds.add(dns.rdata.from_text("IN", "A", "10.0.0.3"))
        if len(irds) != 2:
            bad.append(("ImmutableRdataset.items", "shares the dict of the source rdataset"))
        for path, why in bad:
            F.append({"kind": "immutable:field", "what": f"{path} holds a mutable value ({why})", "cls": path, "attr": path})
    except Exception as e:  # noqa
        F.append({"kind": "immutable:crash", "what": f"Name/ImmutableRdataset checks raised {type(e).__name__}: {e}", "cls": "Name/ImmutableRdataset"})
    ctx.notes["extra_evaluations"] = count[0]
    ctx.notes["extra_nontrivial"] = len(insts) + len(classes)
    return F


# ------------------------------------------------------------------ widened search
# used by lib when a proof or the correspondence broke but the oracle found nothing among the
# cases of this run: more random sequences (implementation + oracle only, no Coq), and every
# prefix-neighbourhood of the disagreeing cases


def widen(ctx, disagreements):
    import random

    found = []
    seen = 0
    for d in disagreements[:50]:
        case = d.get("case")
        if not case or case[0] not in (1, 2):
            continue
        out = impl(case)
        for f in oracle(ctx, "widen", case, _norm(out)) or []:
            f.setdefault("case", case)
            found.append(f)
    rng = random.Random(ctx.seed * 7919 + 13)
    for i in range(6000 if ctx.quick else 30000):
        c = gen_rds_case(rng, rng.choice([8, 16, 24])) if i % 3 else gen_set_case(rng, rng.choice([8, 16, 24]))
        if c is None:
            continue
        seen += 1
        out = _norm(impl(c))
        for f in oracle(ctx, "widen", _norm(c), out) or []:
            f.setdefault("case", c)
            found.append(f)
        if len(found) >= 3:
            break
    ctx.notes["widened_cases"] = seen
    return found


def _norm(v):
    import lib

    return lib.normalize(v)
