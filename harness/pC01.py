"""C01 - name text and wire codecs are exact inverses within DNS length limits.

Model ops (NameM.run, see namelib.run_impl): 1 construct, 4 to_text, 5 from_text, 6 to_wire,
7 to_wire through one compression table, 8 from_wire, 9-13/16 concatenate/relativize/
derelativize/split/parent/choose_relativity, 14/15 successor/predecessor, 17 from_wire with the
followed pointer targets.

Oracle-only ops (not in the model):
 30 [30, labels]                  -> [to_text bytes, from_text(str, None) labels|Err, from_text(bytes, None) labels|Err]
 31 [31, labels]                  -> Tokenizer(to_text + "\n").get_name(origin=None) labels
 32 [32, labels, prefix, suffix]  -> [from_wire(prefix + to_wire + suffix, len(prefix)) labels, consumed, len(to_wire)]
 33 [33, [names], origin, pad]    -> [message after pad, [start offsets], [[decoded labels, consumed]|Err ...],
                                      [[key labels, offset, decoded labels|Err] ...]]
"""
import io
import sys

import dns.exception
import dns.name
import dns.tokenizer

import lib
import namelib as nl
from lib import Err

ID = "C01"
COQ_IMPORTS = "From DV Require Import Model.NameM."
COQ_RUN = "NameM.run"
CASE_TIMEOUT = 10.0
TRUSTED = [
    "model: coq/Model/NameM.v (_validate_labels/Name.__init__, _escapify/to_text, from_text escape state machine, "
    "to_wire plain and through a compression table, dns.wirebase.Parser + from_wire_parser incl. the followed pointer "
    "targets, concatenate/relativize/derelativize/split/parent/choose_relativity, RFC 4471 successor/predecessor)",
    "harness/namelib.py (exception->code map, Parser.seek instrumentation for op 17)",
    "oracle-only (not modelled): dns.tokenizer.Tokenizer.get_name path (op 31), from_text on str input (op 30), "
    "decoding of compressed output by dns.name.from_wire (op 33)",
]
RULE = ("cases come from four structured generators (names at the 63/255 limits, text with well/ill-formed escapes, "
        "wire with hostile pointer graphs, compression sequences with pad offsets around 0x3FFF/0x4000) plus an exhaustive "
        "one-octet/one-escape scope; distinct = distinct canonical case; non-trivial = the implementation returned a value, "
        "or an error class not yet seen for that case kind")

MODEL_OPS = (1, 4, 5, 6, 7, 8, 9, 10, 11, 12, 13, 14, 15, 16, 17, 18, 24, 25)


# ------------------------------------------------------------------ small helpers


def wl(labels):
    return sum(len(l) + 1 for l in labels)


def is_abs(ls):
    return len(ls) > 0 and ls[-1] == b""


def lower(b):
    return bytes(c + 32 if 65 <= c <= 90 else c for c in b)


def ci_eq(a, b):
    return len(a) == len(b) and all(lower(x) == lower(y) for x, y in zip(a, b))


def is_name(v):
    return isinstance(v, list) and all(isinstance(x, bytes) for x in v)


def enc(labels):
    return b"".join(bytes([len(l) & 0xFF]) + l for l in labels)


def ptr(t):
    return bytes([0xC0 | ((t >> 8) & 0x3F), t & 0xFF])


# ------------------------------------------------------------------ name generators


def rand_octets(rng, n):
    if rng.random() < 0.15:
        return bytes([nl.gen_octet(rng)]) * n
    return bytes(nl.gen_octet(rng) for _ in range(n))


def small_labels(rng, k, maxlen=5):
    return [rand_octets(rng, rng.randint(1, maxlen)) for _ in range(k)]


def name_total(rng, total, absolute=True):
    """non-empty labels (each <= 63) [+ root] whose encoded length sum(len+1) is exactly `total`"""
    room = total - (1 if absolute else 0)
    out = []
    while room >= 2:
        mx = min(63, room - 1)
        r = rng.random()
        if r < 0.5:
            n = mx
        elif r < 0.7:
            n = min(mx, rng.choice([62, 63, 1, 2]))
        else:
            n = rng.randint(1, mx)
        if room - (n + 1) == 1:
            n = n - 1 if n > 1 else n + 1
        out.append(rand_octets(rng, n))
        room -= n + 1
    rng.shuffle(out)
    if absolute:
        out.append(b"")
    return out


SPECIAL_LABELS = [b"@", b".", b"a.b", b"\\", b'"', b"$", b" ", b"\t", b"\x00", b"\xff", b"*", b"(", b")", b";",
                  b"\\.", b"..", b"@@", b"a@", b"\\046", b"\\@", b"\x7f", b"\x80", b"a b", b'"a"', b"1", b"065", b"\n",
                  b"\r", b"$ORIGIN", b"x;y"]


def gen_valid(ctx, absolute=None):
    rng = ctx.rng
    r = rng.random()
    if r < 0.33:
        n = nl.gen_labels(rng, absolute=absolute)
        shape = "gen"
    elif r < 0.60:
        a = (rng.random() < 0.7) if absolute is None else absolute
        t = rng.choice([253, 254, 255, 255])
        n = name_total(rng, t, a)
        shape = "total%d" % t
    elif r < 0.72:
        n = [rand_octets(rng, rng.choice([62, 63, 63, 61, 1])) for _ in range(rng.randint(1, 3))]
        if (rng.random() < 0.6) if absolute is None else absolute:
            n.append(b"")
        shape = "l62_63"
    elif r < 0.86:
        k = rng.choice([0, 0, 1, 1, 2, 3])
        n = [rng.choice(SPECIAL_LABELS) for _ in range(k)]
        if (rng.random() < 0.5) if absolute is None else absolute:
            n.append(b"")
        shape = "special"
    else:
        k = rng.choice([127, 126, 100, 64, rng.randint(5, 127)])
        a = (rng.random() < 0.6) if absolute is None else absolute
        k = min(k, 127 if a else 127)
        n = [bytes([nl.gen_octet(rng)]) for _ in range(k)]
        if a:
            n.append(b"")
        if wl(n) > 255:
            n = n[1:]
        shape = "many"
    if not nl.fits(n):
        return gen_valid(ctx, absolute)
    ctx.count("name:" + shape)
    return n


def gen_invalid(ctx):
    rng = ctx.rng
    r = rng.random()
    if r < 0.3:
        n = nl.gen_labels(rng, budget=rng.choice([40, 150, 180]))
        n.insert(rng.randint(0, max(0, len(n) - 1)), rand_octets(rng, rng.choice([64, 64, 65, 100, 255, 256])))
        what = "label64"
    elif r < 0.6:
        t = rng.choice([256, 256, 257, 300])
        n = name_total(rng, t, rng.random() < 0.7)
        what = "total%d" % t
    elif r < 0.8:
        n = nl.gen_labels(rng, budget=rng.choice([20, 100, 254]))
        k = rng.randint(0, max(0, len(n) - 1))
        n.insert(k, b"")
        if rng.random() < 0.3:
            n.insert(0, b"")
        what = "emptymid"
    elif r < 0.9:
        n = name_total(rng, 256, True)
        n.insert(rng.randint(0, len(n) - 1), b"")
        if rng.random() < 0.5:
            n[0] = rand_octets(rng, 64)
        what = "multi"
    else:
        n = [b"", b""] if rng.random() < 0.5 else [b"", rand_octets(rng, 64)]
        what = "multi"
    ctx.count("invalid:" + what)
    return n


def gen_origin(ctx, kinds=("none", "root", "abs", "rel")):
    rng = ctx.rng
    k = rng.choice(kinds)
    if k == "none":
        return None
    if k == "root":
        return [b""]
    if k == "empty":
        return []
    o = nl.gen_labels(rng, absolute=(k == "abs"), budget=rng.choice([8, 20, 60]))
    return o if nl.fits(o) else ([b"example", b""] if k == "abs" else [b"example"])


def completing(ctx, a, absolute):
    """a name b such that wl(a)+wl(b) is 254..257, or None"""
    rng = ctx.rng
    t = rng.choice([254, 255, 255, 256, 256, 257]) - wl(a)
    if t < 3 or t > 255:
        return None
    return name_total(rng, t, absolute)


# ------------------------------------------------------------------ generator 1: names


def name_cases(ctx, n):
    """cases for one VALID label list n"""
    rng = ctx.rng
    yield "construct", [1, n]
    yield "to_text", [4, n]
    yield "rt_text", [30, n]
    yield "rt_tok", [31, n]
    yield "constructors", [34, n]
    if is_abs(n):
        yield "rt_wire", [32, n, rand_octets(rng, rng.choice([0, 0, 1, 12, 40])), rand_octets(rng, rng.choice([0, 0, 1, 7]))]
    rel = [l for l in n if l]
    # to_wire, uncompressed
    o = gen_origin(ctx)
    if not is_abs(n) and rng.random() < 0.5:
        c = completing(ctx, n, True)
        if c is not None and nl.fits(c):
            o = c
    cn = rng.randrange(2)
    yield "to_wire", [6, n, o, cn]
    yield "to_wire_file", [25, n, o, cn]
    if rng.random() < 0.5:
        o2 = gen_origin(ctx, ("none", "abs", "abs", "rel", "root"))
        yield "to_wire", [6, rel, o2, cn]
        yield "to_wire_file", [25, rel, o2, 1 - cn]
    # concatenate
    r = rng.random()
    if r < 0.45:
        b = completing(ctx, rel, rng.random() < 0.6)
        if b is None or not nl.fits(b):
            b = gen_valid(ctx)
        yield "concat", [9, rel, b]
    elif r < 0.7:
        yield "concat", [9, n, gen_valid(ctx)]
    elif r < 0.8:
        yield "concat", [9, n, []]
    else:
        yield "concat", [9, gen_valid(ctx, absolute=False), n]
    # derelativize
    o = gen_origin(ctx, ("abs", "abs", "root", "rel", "empty"))
    if rng.random() < 0.5:
        c = completing(ctx, rel, rng.random() < 0.8)
        if c is not None and nl.fits(c):
            o = c
    yield "derel", [11, rel if rng.random() < 0.7 else n, o]
    # relativize
    o = gen_origin(ctx, ("abs", "abs", "root", "rel", "empty"))
    r = rng.random()
    if r < 0.6:
        a = rel[: rng.randint(0, len(rel))] + (nl.case_variant(rng, o) if rng.random() < 0.5 else o)
        if not nl.fits(a):
            a = n
    elif r < 0.8 and len(n) > 1:
        a, o = n, n[rng.randint(0, len(n) - 1):]
    else:
        a = n
    yield "rel", [10, a, o]
    yield "choose", [16, a if rng.random() < 0.5 else rel, o if rng.random() < 0.8 else None, rng.randrange(2)]
    yield "split", [12, n, rng.randint(-1, len(n) + 1)]
    yield "parent", [13, n]


def succ_cases(ctx):
    rng = ctx.rng
    o = nl.gen_labels(rng, absolute=True, budget=rng.choice([1, 5, 12, 60]))
    if not nl.fits(o):
        o = [b""]
    shape = rng.choice(["total", "total", "l63", "short", "rel", "badorigin", "notsub", "origin"])
    oct_ = rng.choice([0, 0, 1, 0x40, 0x41, 0x5A, 0x5B, 0x5C, 0x60, 0x61, 0x7A, 0x7B, 0xFE, 0xFF, 0xFF, rng.randrange(256)])
    if shape == "total":
        t = rng.choice([253, 254, 255, 255]) - wl(o)
        n = name_total(rng, t, False) + o
        if n[0]:
            first = bytearray(n[0])
            first[-1] = oct_
            if rng.random() < 0.3:
                first = bytearray([0xFF]) * len(first)
            n[0] = bytes(first)
    elif shape == "l63":
        ln = rng.choice([62, 63, 63])
        n = [bytes([rng.choice([0xFF, 0x61, oct_])]) * (ln - 1) + bytes([oct_])] + o
    elif shape == "short":
        n = [bytes([rng.choice(b"az"), oct_])] + o if rng.random() < 0.7 else [bytes([oct_])] + o
    elif shape == "rel":
        n = name_total(rng, rng.choice([253, 254, 255, 256]) - wl(o), False) if rng.random() < 0.6 else [nl.gen_label(rng, 63)]
    elif shape == "badorigin":
        n = gen_valid(ctx)
        o = gen_origin(ctx, ("rel", "empty"))
    elif shape == "notsub":
        n = gen_valid(ctx, absolute=True)
        o = nl.gen_labels(rng, absolute=True, budget=20)
    else:
        n = nl.case_variant(rng, o)
    if not (nl.fits(n) and nl.fits(o)):
        return
    ctx.count("succ:" + shape)
    for p in ((0, 1) if rng.random() < 0.5 else (rng.randrange(2),)):
        yield "succ", [14, n, o, p]
        yield "pred", [15, n, o, p]


# ------------------------------------------------------------------ generator 2: text

EMPH = [0, 46, 64, 92, 255, 256, 259, 260, 299, 999]
EMPH2 = [32, 33, 34, 36, 40, 41, 48, 57, 59, 65, 100, 126, 127, 128, 199, 200, 249, 250, 254, 300, 555, 900]
NONDIGIT = [c for c in range(256) if not 48 <= c <= 57]
PLAIN = b"abcXYZwz019-_"
SPECIAL_TEXTS = [
    b"", b"@", b".", b"..", b"...", b"@.", b"\\@", b"\\@.", b"@@", b"a@", b"@a", b".a", b".a.", b"a..b", b"a..", b"a.b..",
    b"\\", b"a\\", b"a.\\", b"\\.", b"\\..", b"\\.\\.", b"\\046", b"\\046.", b"a\\.b.", b"\\0650", b"\\06500", b"\\065\\0660.",
    b"\\1", b"\\12", b"\\12x", b"\\1x", b"\\12.", b"\\1.", b"\\12\\", b"\\1\\2", b"\\256", b"\\256.", b"\\999", b"\\255",
    b"\\000", b"\\25", b"\\2555", b"\\2560", b"\\\\", b"\\\\\\", b"\\\\.", b"\\\\\\.", b" ", b"a b", b"\\ ", b"\\032",
    b"\\064", b"\\064.", b"\\092", b"\\092\\092", b"\\259", b"\\260", b"\\299", b"\\300", b"\\0", b"\\00", b"\\00a",
    b"\\0a0", b"\\a00", b"\\x41", b"\xff", b"\xff.", b"\\\xff", b"\x80\xc0.", b"a.", b"A.b.C", b"\\@\\@", b"\\$", b"$",
    b"\\(\\)", b"()", b"\\;", b";", b'\\"', b'"', b"\\0461", b"1\\0461", b"\\04", b"\\.\\", b"*.", b"*",
]


def text_piece(rng):
    r = rng.random()
    if r < 0.24:
        return bytes(rng.choice(PLAIN) for _ in range(rng.randint(1, 5)))
    if r < 0.34:
        return b"."
    if r < 0.46:
        return b"\\" + bytes([rng.choice(NONDIGIT)])
    if r < 0.62:
        q = rng.random()
        v = rng.choice(EMPH) if q < 0.5 else rng.choice(EMPH2) if q < 0.7 else rng.randrange(1000)
        return b"\\%03d" % v
    if r < 0.66:
        return b"\\%d" % rng.randrange(10)
    if r < 0.70:
        return b"\\%02d" % rng.randrange(100)
    if r < 0.74:
        return b"\\%02d" % rng.randrange(100) + bytes([rng.choice(NONDIGIT)])
    if r < 0.79:
        return b"\\%03d" % rng.choice(EMPH + [65, 48, 25]) + (b"%d" % rng.randrange(1000))[: rng.randint(1, 3)]
    if r < 0.84:
        return bytes(rng.randrange(128, 256) for _ in range(rng.randint(1, 3)))
    if r < 0.87:
        return b"@"
    if r < 0.89:
        return b"\\@"
    if r < 0.91:
        return b".."
    if r < 0.95:
        return bytes([rng.choice(b'"();$ \t\n\x00\x7f')])
    return bytes([nl.gen_octet(rng)])


def my_escape(rng, labels, style=None):
    """text for `labels` with a random mix of raw / backslash-char / backslash-DDD spellings"""
    out = []
    for l in labels:
        t = b""
        for c in l:
            q = rng.random()
            if style == "ddd" or (style is None and q < 0.3):
                t += b"\\%03d" % c
            elif (style == "bs" or (style is None and q < 0.5)) and not 48 <= c <= 57:
                t += b"\\" + bytes([c])
            elif c in b".\\" or (style == "safe" and (c <= 0x20 or c >= 0x7F or c in b'"();@$')):
                t += b"\\%03d" % c
            else:
                t += bytes([c])
        out.append(t)
    return b".".join(out)


TOK_DELIMS = b' \t\n;()"'
TOK_TAILS = [b"", b"", b" 300 IN A", b"\n", b"\tx", b";comment", b"(", b")", b'"q"', b" ", b"\nnext"]


def tok_modellable(t):
    """op 18 (Tokenizer.get / get_name) is modelled for ASCII text whose first non-blank character
    exists and is not a delimiter (the token is then an identifier)"""
    if any(c >= 128 for c in t):
        return False
    s = t.lstrip(b" \t")
    return len(s) > 0 and s[0] not in TOK_DELIMS


def text_cases(ctx, n_rt, n_rand):
    rng = ctx.rng
    for kind, case in text_cases0(ctx, n_rt, n_rand):
        yield kind, case
        t = bytes(case[1])
        lead = rng.choice([b"", b"", b" ", b"\t "])
        for tail in (rng.choice(TOK_TAILS), rng.choice(TOK_TAILS)):
            tt = lead + t + tail
            if tok_modellable(tt):
                ctx.count("text:tokenizer")
                yield "tok_name", [18, tt, case[2]]


def text_cases0(ctx, n_rt, n_rand):
    rng = ctx.rng
    # (a) round-trip stream
    for _ in range(n_rt):
        n = gen_valid(ctx)
        try:
            t = nl.N(n).to_text().encode("latin-1")
        except Exception:  # the oracle-only ops report this; here we only need text
            continue
        ctx.count("text:to_text")
        yield "from_text", [5, t, gen_origin(ctx)]
        if t.endswith(b"."):
            yield "from_text", [5, t[:-1], gen_origin(ctx)]
        else:
            yield "from_text", [5, t + b".", gen_origin(ctx)]
    # (b) specials
    for t in SPECIAL_TEXTS:
        ctx.count("text:special")
        yield "from_text", [5, t, None]
        yield "from_text", [5, t, gen_origin(ctx, ("root", "abs", "rel"))]
    for k in (62, 63, 64, 65):
        for unit in (b"a", b"\\097", b"\\.", b"\xff", b"\\255"):
            ctx.count("text:label63_64")
            yield "from_text", [5, unit * k + rng.choice([b"", b".", b".b", b".b."]), gen_origin(ctx)]
    for _ in range(n_rand):
        r = rng.random()
        if r < 0.55:
            t = b"".join(text_piece(rng) for _ in range(rng.choice([1, 1, 2, 3, 4, 6, 8])))
            q = rng.random()
            if q < 0.15:
                t += b"."
            elif q < 0.2:
                t = b"." + t
            elif q < 0.25:
                t += b"\\"
            ctx.count("text:pieces")
            yield "from_text", [5, t, gen_origin(ctx)]
        elif r < 0.8:
            # totals around 255, written with random escapes
            a = rng.random() < 0.5
            tot = rng.choice([253, 254, 255, 255, 256, 256, 257])
            ls = name_total(rng, tot, a)
            t = my_escape(rng, ls, rng.choice([None, None, "ddd", "bs", "safe"]))
            ctx.count("text:total%d" % tot)
            yield "from_text", [5, t, gen_origin(ctx, ("none", "root", "rel", "empty"))]
        else:
            # relative text + origin completing to 254..257
            ls = nl.gen_labels(rng, absolute=False, budget=rng.choice([10, 100, 200]))
            o = completing(ctx, ls, rng.random() < 0.8)
            if o is None or not nl.fits(o) or not ls:
                continue
            ctx.count("text:origin_total")
            yield "from_text", [5, my_escape(rng, ls), o]


# ------------------------------------------------------------------ generator 3: wire


def filler(rng, n):
    return bytes(rng.choice([0, 1, 2, 3, 0x3F, 0x40, 0x41, 0x80, 0xC0, 0xC0, 0xFF, rng.randrange(256)]) for _ in range(n))


def wire_chain(rng, equal=False):
    """a chain of strictly decreasing pointers; returns (message, start, info)"""
    msg = bytearray(filler(rng, rng.choice([0, 0, 1, 3, 12])))
    k = rng.randint(1, 8)
    labs = small_labels(rng, rng.randint(0, 3), rng.choice([1, 3, 6]))
    seg = {"start": len(msg), "labels": labs, "ptr": None}
    msg += enc(labs) + b"\0"
    seg["root"] = len(msg) - 1
    segs = [seg]
    for _ in range(k):
        msg += filler(rng, rng.choice([0, 0, 0, 1, 2, 5]))
        prev = segs[-1]
        opts = ["start"]
        if prev["labels"]:
            opts += ["label", "label"]
            if any(len(l) >= 2 for l in prev["labels"]):
                opts.append("mid")
        if prev["ptr"] is not None:
            opts += ["ptr", "ptr"]
        if prev.get("root") is not None:
            opts += ["root"]
        how = rng.choice(opts)
        if how == "start":
            target = prev["start"]
        elif how == "label":
            j = rng.randrange(len(prev["labels"]))
            target = prev["start"] + wl(prev["labels"][:j])
        elif how == "mid":
            j = rng.choice([i for i, l in enumerate(prev["labels"]) if len(l) >= 2])
            target = prev["start"] + wl(prev["labels"][:j]) + 1 + rng.randrange(len(prev["labels"][j]))
        elif how == "ptr":
            target = prev["ptr"]
        else:
            target = prev["root"]
        labs = small_labels(rng, rng.randint(0, 2), rng.choice([1, 3, 6]))
        seg = {"start": len(msg), "labels": labs, "target": target}
        msg += enc(labs)
        seg["ptr"] = len(msg)
        msg += ptr(target)
        segs.append(seg)
    last = segs[-1]
    start = last["start"]
    msg += filler(rng, rng.choice([0, 0, 2, 9]))
    return msg, start, segs


def wire_hostile(ctx):
    """(message, offset) pairs with hostile pointer graphs"""
    rng = ctx.rng
    r = rng.random()
    if r < 0.40:
        msg, start, segs = wire_chain(rng)
        last = segs[-1]
        q = rng.random()
        what = "chain"
        if q < 0.38:
            pass
        elif q < 0.46:
            # forward pointer
            t = rng.randint(last["ptr"] + 1, min(len(msg) + 3, 0x3FFF))
            msg[last["ptr"]: last["ptr"] + 2] = ptr(t)
            what = "forward"
        elif q < 0.52 and last["labels"]:
            # self pointer (behind at least one label, so target > start)
            msg[last["ptr"]: last["ptr"] + 2] = ptr(last["ptr"])
            what = "self"
        elif q < 0.59 and start >= 1:
            msg[last["ptr"]: last["ptr"] + 2] = ptr(start - 1)
            what = "start-1"
        elif q < 0.70:
            t = rng.choice([len(msg), len(msg), len(msg) + 1, 0x3FFF, len(msg) + rng.randint(1, 300)])
            msg[last["ptr"]: last["ptr"] + 2] = ptr(t)
            what = "beyond" if t > len(msg) else "atlen"
        elif q < 0.80:
            # bad label type somewhere on the path
            s = rng.choice(segs)
            pos = s["start"] if s["labels"] else s["ptr"] if s["ptr"] is not None else s["root"]
            msg[pos] = rng.choice([0x40, 0x80]) | rng.randrange(64)
            what = "labeltype"
        elif q < 0.88:
            cut = rng.randint(start, min(len(msg), last["ptr"] + 1))
            del msg[cut:]
            what = "truncated"
        elif q < 0.94:
            # an inner pointer made non-decreasing (points to a later segment / itself region)
            s = rng.choice(segs[1:])
            t = rng.randint(s["start"] + 1, len(msg))
            msg[s["ptr"]: s["ptr"] + 2] = ptr(t)
            what = "inner-forward"
        else:
            start = rng.choice([s["start"] for s in segs] + [s["ptr"] for s in segs if s["ptr"] is not None])
            what = "chain-entry"
        ctx.count("wire:" + what)
        return bytes(msg), start
    if r < 0.50:
        # 2- and 3-cycles
        k = rng.choice([2, 2, 3])
        msg = bytearray(filler(rng, rng.choice([0, 1, 4])))
        pos = []
        labs = []
        for _ in range(k):
            ls = small_labels(rng, rng.randint(0, 2), 3)
            pos.append(len(msg))
            labs.append(ls)
            msg += enc(ls) + b"\xc0\x00" + filler(rng, rng.choice([0, 0, 2]))
        for i in range(k):
            p = pos[i] + wl(labs[i])
            msg[p: p + 2] = ptr(pos[(i + 1) % k])
        ctx.count("wire:cycle%d" % k)
        return bytes(msg), rng.choice(pos)
    if r < 0.62:
        # decoded length 254..257 through one pointer
        T = rng.choice([254, 255, 255, 256, 256, 257])
        ta = rng.randint(3, T - 3)
        a = name_total(rng, ta, True)
        b = name_total(rng, T - ta, False)
        pre = filler(rng, rng.choice([0, 2, 12]))
        msg = pre + enc(a) + filler(rng, rng.choice([0, 1]))
        start = len(msg)
        msg += enc(b) + ptr(len(pre)) + filler(rng, rng.choice([0, 3]))
        ctx.count("wire:total%d" % T)
        return msg, start
    if r < 0.72:
        # many one-octet labels through pointers re-using data
        want = rng.choice([125, 126, 127, 127, 128, 129])
        a = rng.randint(20, 60)
        j = rng.randint(0, a)
        b = rng.randint(10, 40)
        i = rng.randint(0, b)
        c = want - (b - i) - (a - j)
        if c < 0:
            c = 0
        p0 = rng.choice([0, 1, 12])
        msg = bytearray(filler(rng, p0))
        msg += b"".join(b"\x01" + bytes([nl.gen_octet(rng)]) for _ in range(a)) + b"\0"
        p1 = len(msg)
        msg += b"".join(b"\x01" + bytes([nl.gen_octet(rng)]) for _ in range(b)) + ptr(p0 + 2 * j)
        start = len(msg)
        msg += b"".join(b"\x01" + bytes([nl.gen_octet(rng)]) for _ in range(c)) + ptr(p1 + 2 * i)
        ctx.count("wire:labels%d" % (c + (b - i) + (a - j)))
        return bytes(msg), start
    if r < 0.80:
        # truncated label / truncated pointer / label types at the start
        pre = filler(rng, rng.choice([0, 3]))
        q = rng.random()
        if q < 0.3:
            ln = rng.randint(2, 63)
            msg = pre + enc(small_labels(rng, rng.randint(0, 2))) + bytes([ln]) + rand_octets(rng, rng.randint(0, ln - 1))
            what = "trunc-label"
        elif q < 0.55:
            msg = pre + enc(small_labels(rng, rng.randint(0, 2))) + bytes([rng.choice([0xC0, 0xC1, 0xFF])])
            what = "trunc-pointer"
        elif q < 0.8:
            msg = pre + enc(small_labels(rng, rng.randint(0, 2))) + bytes([rng.choice([0x40, 0x41, 0x7F, 0x80, 0x81, 0xBF])]) + filler(rng, 3)
            what = "labeltype"
        else:
            msg = pre + enc(small_labels(rng, rng.randint(1, 3)))  # no terminator
            what = "no-root"
        ctx.count("wire:" + what)
        return msg, len(pre)
    if r < 0.88:
        # offsets at / beyond the end
        msg = filler(rng, rng.choice([0, 0, 1, 5, 30])) + enc(small_labels(rng, rng.randint(0, 2))) + b"\0"
        off = rng.choice([len(msg), len(msg), len(msg) + 1, len(msg) + rng.randint(2, 1000), len(msg) - 1])
        ctx.count("wire:offset-end" if off >= len(msg) else "wire:offset-last")
        return msg, max(off, 0)
    # (c) random bytes, random offset
    n = rng.choice([0, 1, 2, 3, 5, 8, 13, 40])
    msg = filler(rng, n)
    ctx.count("wire:random")
    return msg, rng.randint(0, n + 1)


def equal_pointer_wires(ctx, k):
    """pointer targets exactly equal to the start offset / to the previous target (BadPointer);
    kept few: a decoder that accepted them would loop until the watchdog fires"""
    rng = ctx.rng
    out = [(b"\xc0\x00", 0), (b"\x00\xc0\x01", 1), (b"\x01a\xc0\x00", 0), (b"\xc0\x00\xc0\x00", 2),
           (b"\x01a\xc0\x02\xc0\x02", 4), (b"\x00" * 5 + b"\x02ab\xc0\x05", 5)]
    rng.shuffle(out)
    for m, o in out[:k]:
        ctx.count("wire:equal-pointer")
        yield m, o
    for _ in range(max(0, k - len(out))):
        msg, start, segs = wire_chain(rng)
        s = rng.choice(segs[1:])
        # the segment's pointer re-targets the place the previous jump landed on (or the start)
        t = s["start"]
        msg[s["ptr"]: s["ptr"] + 2] = ptr(t)
        ctx.count("wire:equal-pointer")
        yield bytes(msg), start


def wire_cases(ctx, n_plain, n_host, n_equal):
    rng = ctx.rng
    for _ in range(n_plain):
        n = gen_valid(ctx, absolute=True)
        pre = filler(rng, rng.choice([0, 0, 1, 12, 50]))
        suf = filler(rng, rng.choice([0, 0, 1, 9]))
        ctx.count("wire:plain")
        m = pre + enc(n) + suf
        yield "from_wire", [8, m, len(pre)]
        yield "from_wire_tr", [17, m, len(pre)]
        # dns.wire.Parser.get_name(origin): decode then relativize
        r = rng.random()
        if r < 0.5 and len(n) > 1:
            o = n[rng.randint(0, len(n) - 1):]
            o = nl.case_variant(rng, o) if rng.random() < 0.5 else o
        else:
            o = gen_origin(ctx, ("none", "root", "abs", "rel", "empty"))
        yield "parser_get_name", [24, m, len(pre), o]
    for _ in range(n_host):
        m, off = wire_hostile(ctx)
        if len(m) > 640:
            continue
        yield "from_wire", [8, m, off]
        yield "from_wire_tr", [17, m, off]
        if rng.random() < 0.3:
            yield "parser_get_name", [24, m, off, gen_origin(ctx, ("none", "root", "abs"))]
    for m, off in equal_pointer_wires(ctx, n_equal):
        yield "from_wire", [8, m, off]
        yield "from_wire_tr", [17, m, off]
    # every value of the first pointer octet (0xC0..0xFF) x low octet classes: the 14-bit target
    # uses all six low bits of the first octet, so 0xE0 0x00 points to 0x2000 (beyond these
    # messages: BadPointer), not to offset 0
    base = enc([b"ab", b"c", b""])  # a name at offset 0, 7 octets
    for hi in range(0xC0, 0x100):
        for lo in (0, 3, 5, 6, 7, 8, 0xFF):
            ctx.count("wire:pointer-octet-sweep")
            m = base + bytes([1, 0x78, hi, lo])
            yield "from_wire", [8, m, len(base)]
            yield "from_wire_tr", [17, m, len(base)]


# ------------------------------------------------------------------ generator 4: compression

PADS_NEAR = list(range(0x3FF0, 0x4011))


def compress_case(ctx):
    rng = ctx.rng
    base = small_labels(rng, rng.randint(1, 3), rng.choice([3, 7, 20])) + [b""]
    if rng.random() < 0.5:
        base = [rng.choice([b"example", b"Example", b"COM", b"a", b"Zz"]) for _ in range(rng.randint(1, 3))] + [b""]
    r = rng.random()
    if r < 0.5:
        mode, origin = "abs", None
    elif r < 0.62:
        mode, origin = "abs+origin", gen_origin(ctx, ("abs", "root", "rel"))
    elif r < 0.84:
        mode, origin = "rel+origin", (base if rng.random() < 0.6 else nl.case_variant(rng, base))
    elif r < 0.92:
        mode, origin = "rel+none", None
    else:
        mode, origin = "rel+relorigin", gen_origin(ctx, ("rel", "empty"))
    k = rng.randint(1, 6)
    names = []
    for i in range(k):
        suffix = base[rng.randint(0, len(base) - 1):]
        if rng.random() < 0.35:
            suffix = nl.case_variant(rng, suffix)
        q = rng.random()
        if q < 0.1:
            t = 255 - wl(suffix)
            prefix = name_total(rng, t, False) if t >= 2 else []
            ctx.count("compress:total255")
        elif q < 0.2 and names:
            prefix, suffix = [], list(rng.choice(names))
            if rng.random() < 0.5:
                suffix = nl.case_variant(rng, suffix)
        else:
            prefix = small_labels(rng, rng.choice([0, 1, 1, 2, 3]), rng.choice([1, 4, 63]))
        n = prefix + suffix
        if mode in ("rel+origin", "rel+none", "rel+relorigin") and rng.random() < 0.7:
            n = [l for l in n if l]
            if mode == "rel+origin" and rng.random() < 0.6:
                n = prefix  # relative to the origin = base
        if mode == "rel+origin" and origin and is_abs(origin) and rng.random() < 0.08:
            # relative name whose completion with the origin is 254..257 octets long (over 255: NameTooLong)
            t = rng.choice([254, 255, 256, 257]) - wl(origin)
            if t >= 3:
                names.append(name_total(rng, t, False))
                ctx.count("compress:rel+origin-total-near-255")
                continue
        if not nl.fits(n) or (not is_abs(n) and origin is not None and not nl.fits(n + origin)):
            n = prefix[:1] + suffix
            if not nl.fits(n) or (not is_abs(n) and origin is not None and not nl.fits(n + origin)):
                n = list(base)
        names.append(n)
    q = rng.random()
    if q < 0.25:
        pad = 0
    elif q < 0.4:
        pad = 12
    elif q < 0.5:
        pad = 100
    elif q < 0.65:
        pad = rng.choice(PADS_NEAR)
    elif q < 0.72:
        pad = rng.choice([0x3FFF, 0x4000, 0x4001, 0x5000, 0x3F00])
    else:
        # put one suffix of the first name at exactly 0x3FFE..0x4001
        full = names[0] if is_abs(names[0]) or origin is None else names[0] + origin
        i = rng.randrange(max(1, len(full) - 1))
        pad = rng.choice([0x3FFE, 0x3FFF, 0x3FFF, 0x4000, 0x4000, 0x4001]) - wl(full[:i])
        ctx.count("compress:suffix-at-boundary")
    ctx.count("compress:" + mode)
    ctx.count("pad:" + ("0" if pad == 0 else "small" if pad < 0x3000 else "near-0x4000"))
    return names, origin, pad



# ------------------------------------------------------------------ generator 5: unicode / IDNA text (oracle only)

# fixed (unicode word, A-label) pairs, valid under the default IDNA 2008 (UTS 46) codec; the table is
# data of the harness, not computed by the library under test
IDN_WORDS = [("b\u00fccher", b"xn--bcher-kva"), ("m\u00fcnchen", b"xn--mnchen-3ya"), ("caf\u00e9", b"xn--caf-dma"),
             ("\u043f\u0440\u0438\u043c\u0435\u0440", b"xn--e1afmkfd"), ("\u4f8b\u3048", b"xn--r8jz45g"),
             ("\u03b5\u03bb\u03bb\u03b7\u03bd\u03b9\u03ba\u03ac", b"xn--hxargifdar"), ("stra\u00dfe", b"xn--strae-oqa"),
             ("\u65e5\u672c\u8a9e", b"xn--wgv71a119e"), ("\u00f1and\u00fa", b"xn--and-6ma2c"),
             ("\u017c\u00f3\u0142\u0107", b"xn--kda4b0koi")]
UNI_DOTS = [".", ".", "\u3002", "\uff0e", "\uff61"]
UNI_SPECIAL = [b".", b"\\", b'"', b"(", b")", b";", b"@", b"$", b" ", b"\t", b"\n", b"\x00", b"\x01", b"\x1f", b"\x7f",
               b"a.b", b"a\\.b", b".a", b"a.", b"..", b"\\.", b".\\", b"a b", b"x;y", b'"q"', b"(p)", b"@@", b"a@b", b"$ORIGIN",
               b"065", b"\\065", b"0", b"A.B", b"Zz", b"-", b"a--b", b"*", b"_sip", b"a.b.c", b"\\\\", b"1.2"]
_IDN_OK = []


def idn_words():
    """the entries of IDN_WORDS that the installed `idna` package itself maps word <-> A-label
    (checked with the idna package directly, not through dns.name)"""
    if not _IDN_OK:
        _IDN_OK.append([])
        try:
            import idna

            if not dns.name.have_idna_2008:
                return _IDN_OK[0]
            for w, a in IDN_WORDS:
                try:
                    if idna.alabel(idna.uts46_remap(w, False, False)) == a and a[4:].decode("punycode") == w:
                        _IDN_OK[0].append((w, a))
                except Exception:  # noqa
                    pass
        except Exception:  # noqa
            pass
    return _IDN_OK[0]


def uni_escape(rng, label):
    """zone-file text of an ASCII label, written with random (legal) escapes"""
    out = ""
    for c in label:
        ch = chr(c)
        r = rng.random()
        if c <= 0x20 or c >= 0x7F:
            out += "\\%03d" % c
        elif ch in '"().;\\@$':
            out += ("\\" + ch) if r < 0.7 else "\\%03d" % c
        elif ch.isdigit():
            out += ch if r < 0.8 else "\\%03d" % c
        else:
            out += ch if r < 0.75 else (("\\" + ch) if r < 0.88 else "\\%03d" % c)
    return out


def unicode_cases(ctx, n):
    """(oracle only) names mixing punycode labels with labels made of special ASCII characters:
    op 35 = Name.to_unicode() -> from_text(str) / Tokenizer.get_name; op 36 = hand-escaped unicode text
    with unicode dot variants -> from_text(str) / Tokenizer.get_name against the expected labels"""
    rng = ctx.rng
    words = idn_words()
    if not words:
        ctx.count("unicode:skipped-no-idna2008")
        return
    specials = list(UNI_SPECIAL) + [bytes([c]) for c in range(128)]
    for i in range(n):
        k = rng.choice([1, 1, 2, 2, 3, 4])
        labels = []
        for _ in range(k):
            r = rng.random()
            if r < 0.6:
                l = rng.choice(specials) if rng.random() < 0.7 else specials[i % len(specials)]
            elif r < 0.8:
                l = bytes(rng.choice(b"abcXYZ09-_.\\@ ") for _ in range(rng.randint(1, 8)))
            else:
                l = rng.choice(words)[1]
            if l.lower().startswith(b"xn--") and l not in [a for _, a in words]:
                l = b"x" + l
            labels.append(l)
        # at least one IDN label, at a random position, so that the text is not all-ASCII
        labels.insert(rng.randint(0, len(labels)), rng.choice(words)[1])
        if rng.random() < 0.7:
            labels.append(b"")
        if not nl.fits(labels):
            continue
        ctx.count("unicode:to_unicode")
        yield "unicode_rt", [35, labels]
        # hand-written text: unicode words, random escapes, unicode dot variants
        a2u = {a: w for w, a in words}
        parts = [a2u[l] if l in a2u else uni_escape(rng, l) for l in labels if l != b""]
        text = ""
        for j, part in enumerate(parts):
            text += part
            if j < len(parts) - 1 or labels[-1] == b"":
                text += rng.choice(UNI_DOTS)
        if all(ord(ch) < 128 for ch in text):
            continue
        ctx.count("unicode:hand-escaped")
        yield "unicode_text", [36, text.encode("utf-8"), labels]


# ------------------------------------------------------------------ generator 6: construction from str labels (oracle only)

UNITS = ["a", "Z", "\u00e9", "\u00fc", "\u20ac", "\u4f8b", "\U0001f600", ".", "\\", "@", " "]


def str_label(rng):
    """(is_str, utf8 octets) of one label: ASCII / 2-, 3-, 4-octet characters, lengths chosen so that the
    CHARACTER count and the OCTET count fall on different sides of 63"""
    r = rng.random()
    if r < 0.15:
        return [0, nl.gen_label(rng, 63)]
    u = rng.choice(UNITS)
    w = len(u.encode("utf-8"))
    if r < 0.6:
        n = rng.choice([63 // w, 63 // w + 1, 63 // w - 1, 63, 64, 62, 40, 32, 31, 21, 22, 16, 15]) if w > 1 else rng.choice([62, 63, 64, 65, 1])
    else:
        n = rng.randint(1, 30)
    t = u * max(1, n)
    if rng.random() < 0.3:
        t = t[: len(t) // 2] + rng.choice(UNITS) + t[len(t) // 2 + 1:]
    return [1, t.encode("utf-8")]


def str_construct_cases(ctx, n):
    rng = ctx.rng
    for _ in range(n):
        r = rng.random()
        if r < 0.45:
            ls = [str_label(rng) for _ in range(rng.choice([1, 1, 2, 3]))]
        elif r < 0.85:
            # totals around 255: several ~30-character labels (characters vs octets)
            u = rng.choice(UNITS[2:7])
            k = rng.choice([3, 4, 5, 6, 8])
            ls = [[1, (u * rng.choice([20, 25, 30, 31, 15, 10])).encode("utf-8")] for _ in range(k)]
            if rng.random() < 0.5:
                ls.insert(rng.randrange(len(ls) + 1), [0, nl.gen_label(rng, 40)])
        else:
            # octet total exactly around 255 with ASCII str labels
            t = rng.choice([253, 254, 255, 256, 257])
            ls = [[rng.randrange(2), l] for l in name_total(rng, t, False) if all(c < 128 for c in l)]
        q = rng.random()
        if q < 0.55:
            ls.append([rng.randrange(2), b""])
        elif q < 0.62:
            ls.insert(rng.randrange(len(ls) + 1), [rng.randrange(2), b""])
        ctx.count("construct:str-labels")
        yield "construct_str", [37, ls]
        enc_ls = [bytes(l) for _, l in ls]
        yield "construct", [1, enc_ls]  # the same octets as bytes labels, also against the model


# ------------------------------------------------------------------ generator 7: deep suffix chains

def nested_names(rng, depth, base, maxlab=1):
    """l1.base, l2.l1.base, ... (shortest suffix first): through one compression table every name is
    one label plus a pointer to the previous name, so decoding the k-th name follows k pointers"""
    names, cur = [], list(base)
    for _ in range(depth):
        lab = rand_octets(rng, rng.randint(1, maxlab)) or b"a"
        nxt = [lab] + cur
        if not nl.fits(nxt):
            break
        cur = nxt
        names.append(cur)
    return names


def chain_wire(rng, hops, bare_prob=0.3):
    """hand-built message: a terminal name, then `hops` segments each ending in a pointer to the previous
    segment (strictly decreasing targets); a segment is a bare pointer or labels + pointer.
    Returns (message, [start offset of every segment])"""
    msg = bytearray(rand_octets(rng, rng.choice([0, 0, 3, 12])))
    starts = [len(msg)]
    msg += enc(small_labels(rng, rng.randint(0, 2), 3) + [b""])
    nlabels = 3
    for _ in range(hops):
        st = len(msg)
        if rng.random() >= bare_prob and nlabels < 120:
            msg += bytes([1, rng.choice(b"abcXYZ019")])
            nlabels += 1
        msg += ptr(starts[-1])
        starts.append(st)
    return bytes(msg), starts


def deep_chain_cases(ctx):
    rng = ctx.rng
    depths = [2, 5, 15, 16, 17, 18, 31, 64, 100, 126] if ctx.quick else [2, 5, 15, 16, 17, 18, 20, 31, 33, 64, 65, 90, 100, 120, 125, 126, 127] * 4
    for d in depths:
        base = rng.choice([[b""], [b""], [b"example", b""], [b"Ex", b"COM", b""]])
        names = nested_names(rng, d, base, rng.choice([1, 1, 1, 2]))
        if not names:
            continue
        pad = rng.choice([0, 12, 100])
        ctx.count("compress:nested-shortest-first")
        # oracle-only: write all of them through one table and decode every one at its offset
        yield "compress_rt", [33, names, None, pad]
        # against the model: the writer itself (case size bounded) ...
        yield "compress", [7, names[:40], None, pad]
        # ... and the decoder, on the message the renderer would produce (built here by hand:
        # first name plain, every later name = one label + pointer to the previous name)
        msg = bytearray(b"\0" * rng.choice([0, 12]))
        starts = []
        for k, n in enumerate(names):
            starts.append(len(msg))
            if k == 0:
                msg += enc(n)
            else:
                msg += bytes([len(n[0])]) + n[0] + ptr(starts[k - 1])
        if len(msg) <= 700:
            for k in sorted({0, 1, len(names) // 2, 15, 16, 17, len(names) - 2, len(names) - 1}):
                if 0 <= k < len(names):
                    yield "from_wire", [8, bytes(msg), starts[k]]
                    yield "from_wire_tr", [17, bytes(msg), starts[k]]
    # hand-built strictly decreasing pointer chains of length 2..200 (labels and bare pointers)
    hops_list = [2, 3, 8, 15, 16, 17, 18, 32, 63, 64, 100, 127, 128, 150, 200] if ctx.quick else list(range(2, 201, 3)) + [16, 17, 127, 128, 200]
    for h in hops_list:
        m, starts = chain_wire(rng, h, rng.choice([0.0, 0.3, 0.7, 1.0]))
        if len(m) > 700:
            continue
        ctx.count("wire:decreasing-chain")
        for k in sorted({len(starts) - 1, len(starts) // 2, min(17, len(starts) - 1)}):
            yield "from_wire", [8, m, starts[k]]
            yield "from_wire_tr", [17, m, starts[k]]
            yield "wire_chain_rt", [38, m, starts[k], k]


# ------------------------------------------------------------------ generator 8: origin totals, text under an origin

TRICKY_LAST = [b".", b"a.", b"www.", b"\\", b"a\\", b"\\.", b".\\", b"1", b"a1", b"065", b"a\\065", b"\\0", b"x\\00", b"@", b"a@", b"$",
               b" ", b"a ", b"\x00", b"a\xff", b"..", b"a.b.", b"9.", b"\\\\", b"a;", b'a"', b"a(", b"a)"]


def origin_cases(ctx, n):
    rng = ctx.rng
    # (a) relative name + absolute origin with combined encoded length 253..258, all three to_wire shapes
    for _ in range(n):
        tot = rng.choice([253, 254, 255, 255, 256, 256, 257, 258])
        wo = rng.choice([1, 2, 9, 64, 100, 128, 200])
        if tot - wo < 2:
            continue
        o = name_total(rng, wo, True) if wo > 1 else [b""]
        rel = name_total(rng, tot - wo, False)
        if not (nl.fits(o) and nl.fits(rel)):
            continue
        ctx.count("to_wire:rel+origin-total%d" % tot)
        for cn in (0, 1):
            yield "to_wire", [6, rel, o, cn]
            yield "to_wire_file", [25, rel, o, cn]
        yield "compress", [7, [rel], o, 0]
        yield "derel", [11, rel, o]
        yield "from_text", [5, nl.N(rel).to_text().encode("latin-1"), o]
    # (b) text round trip under an origin: the LAST label ends in '.', a backslash, digits, ...
    for i in range(n * 2):
        last = TRICKY_LAST[i % len(TRICKY_LAST)] if rng.random() < 0.8 else rand_octets(rng, rng.randint(1, 5))
        pre = small_labels(rng, rng.choice([0, 0, 1, 2]), 4)
        nrel = pre + [last]
        for nme in (nrel, nrel + [b""]):
            if not nl.fits(nme):
                continue
            for o in (None, [b""], [b"example", b""], gen_origin(ctx, ("abs", "rel", "empty"))):
                ctx.count("text:roundtrip-under-origin")
                yield "rt_text_origin", [39, nme, o]
                yield "from_text", [5, nl.N(nme).to_text().encode("latin-1"), o]
    for _ in range(n):
        nme = gen_valid(ctx)
        yield "rt_text_origin", [39, nme, gen_origin(ctx, ("none", "root", "abs", "abs", "rel"))]


# ------------------------------------------------------------------ generator 9: tokenizer relativization, omit_final_dot

def tok_rel_cases(ctx, n):
    """Tokenizer.get_name / as_name over origin x relativize x relativize_to, for '@', relative and
    absolute names (op 40); omit_final_dot / NameStyle round trips incl. the root and n == origin (op 41)"""
    rng = ctx.rng
    zone = [b"example", b""]
    sub = [b"sub", b"example", b""]
    origins = [None, zone, sub, [b""], [b"Sub", b"EXAMPLE", b""]]
    rtos = [None, zone, sub, [b""], [b"other", b""], []]
    names = [[], [b""], [b"www"], [b"www", b"sub"], sub, zone, [b"www"] + sub, [b"a", b"other", b""], [b"@"], [b"sub"]]
    for o in origins:
        for rto in rtos:
            for rel in (0, 1):
                for nme in names:
                    ctx.count("tokenizer:relativize-grid")
                    yield "tok_relativize", [40, nme, o, rel, rto]
    for _ in range(n):
        nme = gen_valid(ctx)
        if any(c >= 128 for l in nme for c in l):
            nme = [bytes(c & 0x7F for c in l) for l in nme]
            if not nl.fits(nme):
                continue
        o = gen_origin(ctx, ("none", "root", "abs", "abs"))
        r = rng.random()
        if r < 0.4 and o:
            rto = o[rng.randrange(len(o)):]
        elif r < 0.6:
            rto = None
        else:
            rto = gen_origin(ctx, ("abs", "root", "empty"))
        if rng.random() < 0.5 and o:
            nme = [l for l in nme if l][:2] + nl.case_variant(rng, o)
            if not nl.fits(nme):
                continue
        yield "tok_relativize", [40, nme, o, rng.randrange(2), rto]
    # omit_final_dot: absolute names, in particular the root and names equal to the origin
    fixed = [[b""], zone, sub, [b"a"] + zone, [b"@", b""], [b".", b""], [b"a.b", b"c", b""]]
    for nme in fixed:
        for o in ([b""], zone, sub, nme):
            ctx.count("text:omit_final_dot")
            yield "rt_text_omit", [41, nme, o]
    for _ in range(n):
        nme = gen_valid(ctx, absolute=True)
        o = nme[rng.randrange(len(nme)):] if rng.random() < 0.6 else gen_origin(ctx, ("root", "abs"))
        yield "rt_text_omit", [41, nme, o]

# ------------------------------------------------------------------ cases


def cases(ctx):
    rng = ctx.rng
    ctx.notes["exhaustive"] = True
    ctx.notes["exhaustive_scope"] = (
        "all 256 one-octet labels (as relative one-label names; thorough: also absolute) through to_text (op 4, against the model) "
        "and through to_text -> from_text(origin=None) (op 30) and Tokenizer.get_name (op 31); from_text (op 5, against the model) "
        "on backslash + each of the 256 octet values and on every \\DDD for DDD = 000..999 (thorough: also embedded as x\\..y.)"
    )
    # ---- exhaustive scope
    for c in range(256):
        l = bytes([c])
        yield "x_to_text", [4, [l]]
        yield "x_rt_text", [30, [l]]
        yield "x_rt_tok", [31, [l]]
        yield "x_escape", [5, b"\\" + l, None]
        if not ctx.quick:
            yield "x_to_text", [4, [l, b""]]
            yield "x_rt_text", [30, [l, b""]]
            yield "x_rt_tok", [31, [l, b""]]
            yield "x_rt_wire", [32, [l, b""], b"", b""]
            yield "x_escape", [5, b"x\\" + l + b"y.", None]
    for v in range(1000):
        yield "x_ddd", [5, b"\\%03d" % v, None]
        if not ctx.quick:
            yield "x_ddd", [5, b"x\\%03dy." % v, [b""]]

    # ---- 1. names
    for _ in range(ctx.n(80, 1700)):
        n = gen_valid(ctx)
        yield from name_cases(ctx, n)
    for n in ([], [b""], [b"@"], [b"@", b""], [b"."], [b"a.b", b"c"], [b"\\"], [b"\\", b""], [b"\x00"], [b"\xff" * 63] * 3 + [b"\xff" * 61, b""],
              [b"a"] * 127 + [b""], [b"a"] * 127, [b" "], [b"a b", b""], [b'"'], [b"$"], [b"("], [b";", b""]):
        yield from name_cases(ctx, n)
    for _ in range(ctx.n(120, 2500)):
        bad = gen_invalid(ctx)
        yield "construct_bad", [1, bad]
        yield "constructors_bad", [34, bad]
    for _ in range(ctx.n(70, 1000)):
        yield from succ_cases(ctx)

    # ---- 2. text
    yield from text_cases(ctx, ctx.n(70, 1500), ctx.n(260, 5000))

    # ---- 3. wire
    yield from wire_cases(ctx, ctx.n(70, 1300), ctx.n(260, 5200), ctx.n(4, 10))

    # ---- 9. tokenizer relativization grid, omit_final_dot / NameStyle round trips
    yield from tok_rel_cases(ctx, ctx.n(120, 2500))

    # ---- 8. totals with an origin (three to_wire call shapes), text round trip under an origin
    yield from origin_cases(ctx, ctx.n(60, 400))

    # ---- 7. deep suffix / pointer chains
    yield from deep_chain_cases(ctx)

    # ---- 6. construction from str labels (implementation only; op 1 on the encoded octets goes to the model)
    yield from str_construct_cases(ctx, ctx.n(400, 6000))

    # ---- 5. unicode / IDNA text (implementation only)
    yield from unicode_cases(ctx, ctx.n(400, 6000))

    # ---- 4. compression
    for _ in range(ctx.n(180, 3200)):
        names, origin, pad = compress_case(ctx)
        yield "compress", [7, names, origin, pad]
        yield "compress_rt", [33, names, origin, pad]


def in_model(kind, case):
    return case[0] in MODEL_OPS


# ------------------------------------------------------------------ implementation


def _labels_or_err(f):
    try:
        return nl.labels_of(f())
    except Exception as e:  # noqa
        return nl.exc_code(e)


def impl(case):
    op = case[0]
    if op < 30:
        return nl.run_impl(case)
    try:
        if op == 30:
            n = nl.N(case[1])
            t = n.to_text()
            tb = t.encode("latin-1")
            return [tb, _labels_or_err(lambda: dns.name.from_text(t, None)), _labels_or_err(lambda: dns.name.from_text(tb, None))]
        if op == 40:
            text = nl.N(case[1]).to_text()
            o, rel, rto = nl.oname(case[2]), bool(case[3]), nl.oname(case[4])
            return [_labels_or_err(lambda: dns.tokenizer.Tokenizer(text + " rest\n").get_name(o, rel, rto)),
                    _labels_or_err(lambda: (lambda tk: tk.as_name(tk.get(), o, rel, rto))(dns.tokenizer.Tokenizer(text))),
                    _labels_or_err(lambda: dns.name.from_text(text, o).choose_relativity(rto or o, rel))]
        if op == 41:
            n = nl.N(case[1])
            o = nl.N(case[2])
            ascii_only = all(c < 128 for l in case[1] for c in l) and not any(bytes(l).lower().startswith(b"xn--") for l in case[1])
            St = dns.name.NameStyle
            res = [_labels_or_err(lambda: dns.name.from_text(n.to_text(omit_final_dot=True), dns.name.root)),
                   _labels_or_err(lambda: dns.name.from_text(n.to_text(True).encode("latin-1"), dns.name.root)),
                   _labels_or_err(lambda: dns.name.from_text(n.to_styled_text(St(omit_final_dot=True)), dns.name.root)),
                   _labels_or_err(lambda: dns.name.from_text(n.to_text(style=St(omit_final_dot=True)), dns.name.root)),
                   _labels_or_err(lambda: dns.tokenizer.Tokenizer(n.to_text(True) + "\n").get_name(origin=dns.name.root)),
                   _labels_or_err(lambda: dns.name.from_text(n.to_unicode(omit_final_dot=True), dns.name.root)) if ascii_only else None]
            # relative to an origin (n == origin prints "@"), with and without the final dot
            for omit in (False, True):
                st = St(omit_final_dot=omit, origin=o, relativize=True)
                res.append(_labels_or_err(lambda: dns.name.from_text(n.to_styled_text(st), o)))
            # without any origin the text minus its final dot is the name minus its root label -
            # except for the root itself, which prints "." and reads back as the root under EVERY origin
            res.append(_labels_or_err(lambda: dns.name.from_text(n.to_text(omit_final_dot=True), None)))
            res.append(_labels_or_err(lambda: dns.name.from_text(n.to_text(omit_final_dot=True), o)) if len(n) == 1 else None)
            res.append(_labels_or_err(lambda: dns.tokenizer.Tokenizer(n.to_text(True) + "\n").get_name(origin=o)) if len(n) == 1 else None)
            return res
        if op == 39:
            n = nl.N(case[1])
            o = nl.oname(case[2])
            t = n.to_text()
            res = [_labels_or_err(lambda: dns.name.from_text(t, o)),
                   _labels_or_err(lambda: dns.name.from_text(t.encode("latin-1"), o)),
                   _labels_or_err(lambda: dns.tokenizer.Tokenizer(t + " x\n").get_name(origin=o))]
            if o is not None and o == dns.name.root:
                res.append(_labels_or_err(lambda: dns.name.from_text(t)))  # default origin = root
            return res
        if op == 38:
            n, c = dns.name.from_wire(bytes(case[1]), case[2])
            return [nl.labels_of(n), c]
        if op == 37:
            labels = [bytes(l).decode("utf-8") if k else bytes(l) for k, l in case[1]]
            n = dns.name.Name(labels)  # exceptions -> code through the outer handler
            stored = list(n.labels)
            allbytes = int(all(isinstance(x, bytes) for x in stored))
            ls = [x if isinstance(x, bytes) else str(x).encode("utf-8") for x in stored]

            def wire_rt():
                w = n.to_wire()
                back, c = dns.name.from_wire(w, 0)
                return nl.labels_of(back) + [b"consumed-ok" if c == len(w) else b"consumed-bad"]

            wire = None
            if n.is_absolute():
                try:
                    wire = wire_rt()
                except Exception as e:  # noqa
                    wire = nl.exc_code(e)
            text = _labels_or_err(lambda: dns.name.from_text(n.to_text(), None))
            return [ls, allbytes, wire, text]
        if op == 35:
            n = nl.N(case[1])
            try:
                u = n.to_unicode()
            except Exception as e:  # noqa
                return [nl.exc_code(e), None, None]
            tail = "" if u.endswith(".") or u == "@" else ""
            return [u.encode("utf-8"),
                    _labels_or_err(lambda: dns.name.from_text(u, None)),
                    _labels_or_err(lambda: dns.tokenizer.Tokenizer(u + tail + "\n").get_name(origin=None))]
        if op == 36:
            u = bytes(case[1]).decode("utf-8")
            return [_labels_or_err(lambda: dns.name.from_text(u, None)),
                    _labels_or_err(lambda: dns.tokenizer.Tokenizer(u + " 300 IN A\n").get_name(origin=None))]
        if op == 34:
            # the other constructors: unpickling (__setstate__), copy, deepcopy, canonicalize, str labels
            import copy
            import pickle

            ls = [bytes(l) for l in case[1]]

            def setstate():
                m = dns.name.Name.__new__(dns.name.Name)
                m.__setstate__({"labels": tuple(ls)})
                return m

            def via_pickle():
                return pickle.loads(pickle.dumps(nl.N(ls)))

            def via_str():
                return dns.name.Name([l.decode("ascii") for l in ls]) if all(max(l, default=0) < 128 for l in ls) else nl.N(ls)

            return [_labels_or_err(setstate), _labels_or_err(via_pickle), _labels_or_err(lambda: copy.copy(nl.N(ls))),
                    _labels_or_err(lambda: copy.deepcopy(nl.N(ls))), _labels_or_err(lambda: nl.N(ls).canonicalize()),
                    _labels_or_err(via_str)]
        if op == 31:
            n = nl.N(case[1])
            tok = dns.tokenizer.Tokenizer(n.to_text() + "\n")
            return nl.labels_of(tok.get_name(origin=None))
        if op == 32:
            n = nl.N(case[1])
            w = n.to_wire()
            pre, suf = bytes(case[2]), bytes(case[3])
            m, c = dns.name.from_wire(pre + w + suf, len(pre))
            return [nl.labels_of(m), c, len(w)]
        if op == 33:
            pad = case[3]
            f = io.BytesIO()
            f.write(b"\0" * pad)
            tbl = {}
            origin = nl.oname(case[2])
            starts = []
            for ls in case[1]:
                starts.append(f.tell())
                nl.N(ls).to_wire(f, tbl, origin)
            msg = f.getvalue()
            dec = []
            for s in starts:
                try:
                    m, c = dns.name.from_wire(msg, s)
                    dec.append([nl.labels_of(m), c])
                except Exception as e:  # noqa
                    dec.append(nl.exc_code(e))
            table = []
            for k, v in tbl.items():
                try:
                    d = nl.labels_of(dns.name.from_wire(msg, v)[0]) if 0 <= v <= len(msg) else Err(7, "offset outside message")
                except Exception as e:  # noqa
                    d = nl.exc_code(e)
                table.append([nl.labels_of(k), v, d])
            return [msg[pad:], starts, dec, table]
    except Exception as e:  # noqa
        return nl.exc_code(e)
    raise ValueError(f"bad op {op}")


# ------------------------------------------------------------------ oracle

NAME_OPS = (1, 5, 9, 10, 11, 13, 14, 15, 16)


def limit_problem(ls):
    if not is_name(ls):
        return "result is not a label list"
    if any(len(l) > 63 for l in ls):
        return "label longer than 63 octets"
    if wl(ls) > 255:
        return "encoded length over 255 octets"
    if b"" in ls[:-1]:
        return "empty label before the end"
    return None


def bad_exc(op, e):
    # 800 = some other dns.exception.DNSException subclass (inside the hierarchy)
    return (e.code >= 100 and e.code != 800) or (e.code == 12 and op != 12)


def _oracle(ctx, kind, case, out):
    F = []

    def fail(what, **kw):
        F.append({"kind": kind + ":" + what, "what": what, "impl": out, **kw})

    op = case[0]
    if isinstance(out, Err):
        if out.code < 0:
            return F  # hang: reported by lib
        if out.code == 900 and out.text == "Hang":
            # the watchdog fired inside namelib.run_impl, whose `except Exception` turned it into a code
            fail("did not terminate within the watchdog")
        elif bad_exc(op, out):
            fail("unexpected exception " + out.text)
        elif op in (30, 31):
            fail("valid name could not be converted to text and back: " + out.text)
        elif op == 32 and is_abs(case[1]):
            fail("valid absolute name could not be converted to wire and back: " + out.text)
        elif op == 38:
            # a chain of strictly decreasing pointers over well-formed labels: the only legitimate
            # failures are the name limits (NameTooLong / LabelTooLong), never BadPointer
            if out.code not in (1, 2):
                fail("a strictly decreasing pointer chain of %d hops is rejected: %s" % (case[3], out.text))
        elif op == 37:
            enc_ls = [bytes(l) for _, l in case[1]]
            ok = set()
            if any(len(l) > 63 for l in enc_ls):
                ok.add(1)
            if wl(enc_ls) > 255:
                ok.add(2)
            if b"" in enc_ls[:-1]:
                ok.add(3)
            if not ok:
                fail("legal label sequence (str labels) rejected: " + out.text)
            elif out.code not in ok:
                fail("wrong error class for an illegal label sequence (str labels): " + out.text)
        elif op == 1 and nl.fits(case[1]):
            fail("legal label sequence rejected: " + out.text)
        elif op == 1:
            ls = case[1]
            ok = set()
            if any(len(l) > 63 for l in ls):
                ok.add(1)
            if wl(ls) > 255:
                ok.add(2)
            if b"" in ls[:-1]:
                ok.add(3)
            if out.code not in ok:
                fail("wrong error class for an illegal label sequence: " + out.text)
        return F

    # limits on every produced name
    produced = []
    if op in NAME_OPS:
        produced = [out]
    elif op == 12:
        produced = list(out)
    elif op in (8, 17, 24):
        produced = [out[0]]
    elif op == 30:
        produced = [x for x in out[1:] if not isinstance(x, Err)]
    elif op == 31:
        produced = [out]
    elif op == 34:
        produced = [x for x in out if not isinstance(x, Err)]
    elif op in (39, 40, 41):
        produced = [x for x in out if x is not None and not isinstance(x, Err)]
    elif op == 38:
        produced = [out[0]]
    elif op == 37:
        produced = [out[0]]
    elif op == 35:
        produced = [x for x in out[1:] if x is not None and not isinstance(x, Err)]
    elif op == 36:
        produced = [x for x in out if not isinstance(x, Err)]
    elif op == 32:
        produced = [out[0]]
    elif op == 7:
        produced = [kv[0] for kv in out[1]]
    elif op == 33:
        produced = [d[0] for d in out[2] if not isinstance(d, Err)]
    for p in produced:
        lp = limit_problem(p)
        if lp:
            fail("produced name breaks the DNS limits: " + lp)
            break

    if op == 1:
        if not nl.fits(case[1]):
            fail("illegal label sequence accepted")
        elif out != case[1]:
            fail("constructed name differs from its labels")
    elif op == 30:
        n = case[1]
        text, back_s, back_b = out
        for how, back in (("str", back_s), ("bytes", back_b)):
            if isinstance(back, Err):
                if bad_exc(op, back):
                    fail("unexpected exception " + back.text + " parsing to_text() output (%s)" % how)
                else:
                    fail("to_text() output is rejected by from_text (%s): %s" % (how, back.text))
            elif back != n:
                fail("from_text(to_text(n)) != n (%s input)" % how)
        if back_s != back_b:
            fail("from_text disagrees between str and bytes input")
    elif op == 40:
        nme, o, rel, rto = case[1], case[2], case[3], case[4]
        tok, asn, api = out
        # reference through the labels alone: from_text(to_text(n), origin), then choose_relativity
        m = nme if (is_abs(nme) or o is None) else nme + o
        ro = rto if rto else o   # `relativize_to or origin` (the empty name is falsy)
        want = m
        if nl.fits(m) and ro:
            if rel:
                k = len(ro)
                if is_abs(m) == is_abs(ro) and len(m) >= k and [lower(x) for x in m[len(m) - k:]] == [lower(x) for x in ro]:
                    want = m[: len(m) - k]
            elif not is_abs(m):
                want = m + ro
        for how, b in (("Tokenizer.get_name", tok), ("Tokenizer.as_name", asn)):
            if isinstance(b, Err) != isinstance(api, Err) or (isinstance(b, Err) and b.code != api.code) or (not isinstance(b, Err) and b != api):
                fail(how + " differs from from_text(text, origin).choose_relativity(relativize_to or origin, relativize)")
                break
        if isinstance(api, Err):
            if nl.fits(want) and nl.fits(m):
                fail("from_text/choose_relativity rejects a printed name: " + api.text)
        elif nl.fits(m) and api != want:
            fail("relativization through the tokenizer path gives the wrong name")
    elif op == 41:
        nme = case[1]
        names = ["to_text(True)", "to_text(True) bytes", "to_styled_text(omit_final_dot)", "to_text(style=omit_final_dot)",
                 "Tokenizer.get_name", "to_unicode(True)", "NameStyle(origin, relativize)", "NameStyle(origin, relativize, omit_final_dot)"]
        names += ["to_text(True) read without origin", "to_text(True) of the root read under an origin",
                  "Tokenizer.get_name of the root's to_text(True) under an origin"]
        o = case[2]
        under = len(nme) >= len(o) and [lower(x) for x in nme[len(nme) - len(o):]] == [lower(x) for x in o]
        for how, b in zip(names, out):
            if b is None:
                continue
            if how.endswith("relativize, omit_final_dot)") and not under:
                continue  # an absolute name outside the origin printed without its dot is ambiguous by design
            want = nme[:-1] if (how == "to_text(True) read without origin" and len(nme) > 1) else nme
            if isinstance(b, Err):
                fail("text written with " + how + " is rejected: " + b.text)
            elif b != want:
                fail("text written with " + how + " does not read back as the name")
    elif op == 39:
        # from_text(to_text(n), origin) must be n made absolute with the origin (derelativize):
        # n itself when absolute or without origin, else n + origin (NameTooLong when that is too long)
        n, o = case[1], case[2]
        want = n if (is_abs(n) or o is None) else n + o
        names = ["from_text(str)", "from_text(bytes)", "Tokenizer.get_name", "from_text(default origin)"]
        for how, b in zip(names, out):
            if how == "Tokenizer.get_name" and o is not None and not is_abs(o):
                continue  # get_name derelativizes once more with a relative origin: not stated here
            if isinstance(b, Err):
                if nl.fits(want) or bad_exc(op, b) or b.code != 2:
                    fail(how + " rejects to_text(n) under an origin: " + b.text)
            elif b != want:
                fail(how + "(to_text(n), origin) is not n derelativized with the origin")
    elif op == 37:
        enc_ls = [bytes(l) for _, l in case[1]]
        ls, allbytes, wire, text = out
        if not nl.fits(enc_ls):
            fail("illegal label sequence (counted in octets) accepted from str labels")
        if not allbytes:
            fail("a stored label is not bytes")
        if ls != enc_ls:
            fail("stored labels are not the UTF-8 octets of the given labels")
        if wire is not None:
            if isinstance(wire, Err):
                fail("constructed name does not survive to_wire/from_wire: " + wire.text)
            elif wire != ls + [b"consumed-ok"]:
                fail("to_wire/from_wire of the constructed name gives different labels")
        if isinstance(text, Err):
            fail("constructed name does not survive to_text/from_text: " + text.text)
        elif text != ls:
            fail("to_text/from_text of the constructed name gives different labels")
    elif op == 35:
        ls = case[1]
        text, back, tok = out
        if isinstance(text, Err):
            fail("to_unicode raised " + text.text + " for ASCII + valid A-labels")
        else:
            for how, b in (("from_text(str)", back), ("Tokenizer.get_name", tok)):
                if isinstance(b, Err):
                    fail("to_unicode() output is rejected by " + how + ": " + b.text)
                elif b != ls:
                    fail(how + "(to_unicode(n)) != n")
    elif op == 36:
        want = case[2]
        for how, b in (("from_text(str)", out[0]), ("Tokenizer.get_name", out[1])):
            if isinstance(b, Err):
                fail("escaped unicode text is rejected by " + how + ": " + b.text)
            elif b != want:
                fail(how + " of escaped unicode text gives different labels")
    elif op == 34:
        ls = case[1]
        names = ["__setstate__", "pickle", "copy", "deepcopy", "canonicalize", "str labels"]
        for nm, x in zip(names, out):
            if nl.fits(ls):
                want = [lower(l) for l in ls] if nm == "canonicalize" else ls
                if isinstance(x, Err):
                    fail("legal label sequence rejected by " + nm + ": " + x.text)
                elif x != want:
                    fail(nm + " changed the labels")
            else:
                if not isinstance(x, Err):
                    fail("illegal label sequence accepted by " + nm)
                elif bad_exc(op, x) or x.code not in (1, 2, 3):
                    fail("wrong exception from " + nm + ": " + x.text)
    elif op == 31:
        if out != case[1]:
            fail("Tokenizer.get_name(to_text(n)) != n")
    elif op == 32:
        n = case[1]
        if is_abs(n):
            back, consumed, wlen = out
            if back != n:
                fail("from_wire(to_wire(n)) != n")
            if consumed != wlen:
                fail("from_wire consumed != len(to_wire(n))")
    elif op in (6, 25):
        # to_wire without compression (6: no file; 25: file given, no table): at most 255 octets, and it parses back to the name
        # (made absolute with the origin) byte-identically unless canonicalize lower-cased it
        n, origin, canon = case[1], case[2], case[3]
        full = n if is_abs(n) or origin is None else n + origin
        if len(out) > 255:
            fail("to_wire produced an encoding longer than 255 octets")
        else:
            try:
                back, consumed = dns.name.from_wire(bytes(out), 0)
                back = [bytes(l) for l in back.labels]
                want = [lower(l) for l in full] if canon else full
                if back != want or consumed != len(out):
                    fail("from_wire(to_wire(n, origin)) != n + origin")
            except Exception as e:  # noqa
                fail("to_wire output does not parse: " + type(e).__name__)
    elif op == 18:
        for part in out:
            if isinstance(part, Err) and (bad_exc(op, part) or part.code == 900):
                fail("unexpected exception " + part.text + " from the tokenizer")
                break
        if not isinstance(out[1], Err):
            lp = limit_problem(out[1])
            if lp:
                fail("produced name breaks the DNS limits: " + lp)
    elif op == 7:
        for k, v in out[1]:
            if v > 0x3FFF or v < 0:
                fail("compression table offset above 0x3FFF")
                break
    elif op == 33:
        names, origin, pad = case[1], case[2], case[3]
        msg, starts, dec, table = out
        full = [n if is_abs(n) or origin is None else n + origin for n in names]
        sufs = {}
        variant = False
        for fn in full:
            for i in range(len(fn)):
                s = tuple(fn[i:])
                key = tuple(lower(x) for x in s)
                if sufs.setdefault(key, s) != s:
                    variant = True
        ends = starts[1:] + [pad + len(msg)]
        for i, fn in enumerate(full):
            d = dec[i]
            if isinstance(d, Err):
                if bad_exc(op, d):
                    fail("unexpected exception " + d.text + " decoding a written name", index=i)
                else:
                    fail("written name does not decode: " + d.text, index=i)
                break
            got, consumed = d
            if not ci_eq(got, fn):
                fail("decoded name is not equal to the written name", index=i)
                break
            if not variant and got != fn:
                fail("decoded name is not byte-identical (no case variant involved)", index=i)
                break
            if consumed != ends[i] - starts[i]:
                fail("consumed != octets emitted for the name", index=i)
                break
        for key, off, d in table:
            if off > 0x3FFF or off < 0:
                fail("compression table offset above 0x3FFF")
                break
            if isinstance(d, Err):
                fail("compression table entry does not decode: " + d.text)
                break
            if not ci_eq(d, key):
                fail("compression table entry decodes to a different name")
                break
    elif op == 17:
        start = case[2]
        tr = out[2]
        prev = start
        for t in tr:
            if not t < prev:
                fail("followed pointer is not strictly earlier than the start and every earlier target")
                break
            prev = t
    return F


# ------------------------------------------------------------------ widened search


def _names_in(v, acc, depth=0):
    if is_name(v):
        acc.append(v)
    elif isinstance(v, list) and depth < 4:
        for x in v:
            _names_in(x, acc, depth + 1)


def widen(ctx, disagreements):
    rng = ctx.rng
    mod = sys.modules[__name__]
    F = []
    seen = set()

    def run(kind, case):
        case = lib.normalize(case)
        k = lib.case_key(case)
        if k in seen or len(F) >= 10:
            return None
        seen.add(k)
        out = lib.normalize(lib.safe_impl(mod, case))
        if isinstance(out, Err) and out.code == -2:
            F.append({"kind": "hang", "what": "implementation did not terminate within the watchdog", "case_kind": kind,
                      "case": case, "impl": out})
            return out
        for f in oracle(ctx, kind, case, out) or []:
            f.setdefault("case_kind", kind)
            f.setdefault("case", case)
            F.append(f)
        return out

    def roundtrips(n, tag):
        if not (is_name(n) and nl.fits(n)):
            return
        run(tag + "rt_text", [30, n])
        run(tag + "rt_tok", [31, n])
        run(tag + "construct", [1, n])
        if is_abs(n):
            run(tag + "rt_wire", [32, n, rand_octets(rng, rng.choice([0, 3])), rand_octets(rng, rng.choice([0, 2]))])
            run(tag + "compress_rt", [33, [n, nl.case_variant(rng, n), n[1:] if len(n) > 1 else n], None, rng.choice([0, 12, 0x3FFF - wl(n[:1])])])
        else:
            run(tag + "compress_rt", [33, [n], [b"example", b""], 0])

    for d in disagreements[:200]:
        case = d.get("case")
        if not isinstance(case, list) or not case:
            continue
        op = case[0]
        cand = []
        _names_in(case[1:], cand)
        for side in (d.get("impl"), d.get("model")):
            if isinstance(side, (list,)):
                _names_in(side, cand)
        if op == 1 and is_name(case[1]):
            run("w:construct", [1, case[1]])
        if op == 5 and isinstance(case[1], bytes):
            for o in (None, [b""], case[2] if len(case) > 2 else None):
                out = run("w:from_text", [5, case[1], o])
                if is_name(out):
                    cand.append(out)
        if op in (8, 17) and isinstance(case[1], bytes):
            for o in (8, 17):
                out = run("w:from_wire", [o, case[1], case[2]])
                if isinstance(out, list) and out and is_name(out[0]):
                    cand.append(out[0])
        if op in (7, 33) and isinstance(case[1], list):
            run("w:compress_rt", [33, case[1], case[2], case[3]])
            run("w:compress", [7, case[1], case[2], case[3]])
        if op in (9, 10, 11, 12, 13, 14, 15, 16, 6, 4):
            out = run("w:op%d" % op, case)
            if is_name(out):
                cand.append(out)
        for n in cand[:12]:
            roundtrips(n, "w:")
            # neighbours: the single labels and one-octet labels of the name
            for l in n[:3]:
                if l:
                    roundtrips([l], "w:")
                    for c in l[:8]:
                        roundtrips([bytes([c])], "w:")

    # fresh random search on the oracle-only round trips
    for c in range(256):
        roundtrips([bytes([c])], "w:x_")
    for _ in range(ctx.n(2000, 6000)):
        if len(F) >= 10:
            break
        roundtrips(gen_valid(ctx), "w:")
    for _ in range(ctx.n(300, 1500)):
        if len(F) >= 10:
            break
        names, origin, pad = compress_case(ctx)
        run("w:compress_rt", [33, names, origin, pad])
        m, off = wire_hostile(ctx)
        run("w:from_wire_tr", [17, m, off])
        run("w:construct_bad", [1, gen_invalid(ctx)])
    return F


# failing cases are shrunk before they are reported (see namelib.with_shrinking)
def shrink_ok(case):
    """candidates produced by the shrinker must stay inside the domain the oracle is stated for"""
    op = case[0]
    if op == 36:
        return False  # text and expected labels are coupled: not shrunk
    if op == 35:
        known = [a for _, a in idn_words()]
        ls = case[1]
        return (isinstance(ls, list) and all(isinstance(l, bytes) for l in ls) and nl.fits(ls)
                and all(max(l, default=0) < 128 for l in ls)
                and all((not l.lower().startswith(b"xn--")) or l in known for l in ls)
                and any(l in known for l in ls))
    if op in (30, 31, 32, 34) and op != 34:
        return isinstance(case[1], list) and nl.fits(case[1])
    return True


oracle = nl.with_shrinking("pC01", _oracle, ok=shrink_ok)
