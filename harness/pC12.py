"""C12 - versioned-zone writers: serialized, FIFO, deadlock-free under every schedule.

case   = [zone kind, [thread program, ...], [tid, tid, ...]]   (the schedule: which thread moves next)
program= [0, replacement, [[0,k,v] | [1,k] ...], commit]   writer: replace / delete edits, commit or rollback
       | [1, None] | [1, 0, id] | [1, 1, serial]           reader
       | [2, None | n]                                     set_max_versions
output = one view of the shared state per step (see coq/Model/WritersM.v `view`):
         [lock owner, write txn owner, write event, waiters, events set (in order), version ids,
          readers, newest content, per-thread pc, per-thread enabled, failure]

The implementation runs with real threads gated one at a time by harness/c12_sched.py; the model
(WritersM.run) replays the same schedule; both views are compared after every step.
"""
import os

from lib import Err
import c12_sched as cs
import c12_lines
import c12_astguard

ID = "C12"
COQ_IMPORTS = "From DV Require Import Model.WritersM."
COQ_RUN = "WritersM.run"
TRUSTED = [
    "model: coq/Model/WritersM.v (Zone.writer admission loop, _setup_version unlocked reads, "
    "_commit_version/_end_write/_maybe_wakeup_one_waiter_unlocked, reader/_end_read, set_pruning_policy) "
    "on top of the C11 model VersM.v",
    "CPython threading.Lock / threading.Event semantics (lock = mutual exclusion, Event.wait returns iff set); "
    "the schedule-controlled shim harness/c12_sched.py substitutes them",
    "atomicity of a critical section with respect to other critical sections is the lock's; that every access to "
    "the shared fields is inside the lock is checked by the AST guard harness/c12_astguard.py, and the two "
    "documented unlocked reads are separate model steps and are exercised by line-level preemption (sys.settrace)",
]
ASSUMPTIONS = [
    "threads run transactions that commit or roll back (no exception/cancellation inside writer())",
    "liveness is stated as: every step decreases a measure and some step is enabled while a thread is unfinished "
    "(so every maximal run ends with every writer admitted and ended); no LTL/fairness formalisation",
]
CASE_TIMEOUT = 60.0

W0 = [0, 0, [], 1]                 # commit without change = rollback path (_end_write)
W1 = [0, 0, [[0, 2, 1]], 1]
W1b = [0, 0, [[0, 3, 2]], 1]
WR = [0, 0, [[0, 2, 7]], 0]        # rollback
WX = [0, 0, [[0, 2, 8]], 2]        # exception inside the with block: must roll back and wake the next writer
WB = [0, 0, [[0, 2, 9]], 3]        # ... also when it is a BaseException (SystemExit in a worker thread)
MANY = 40                          # writers queued at once behind one holder ("any number of concurrent writers")
WREPL = [0, 1, [[0, 0, 5]], 1]     # replacement, sets a serial
R = [1, None]
RID = [1, 0, 2]
P1 = [2, 1]
PN = [2, None]

_cache = {}


def run_schedule(kind, progs, schedule=None, rng=None, prefix=(), max_steps=500):
    """run the implementation under a schedule (given, or first-enabled after `prefix`, or random);
    returns (schedule, views, enabled sets, run object)"""
    try:
        r = cs.Run(progs, kind)
    except Exception as e:  # noqa  (the zone cannot be constructed / the threads cannot reach their first gate)
        cs.dns.versioned.threading = cs.real_threading
        return [], [Err(198, "setting up the run raised " + type(e).__name__ + ": " + str(e)[:80])], [], \
            {"deadlock": False, "errors": [repr(e)], "admission": [], "arrival": [], "end_order": []}
    sched, views, choices = [], [], []
    i = 0
    try:
        while not r.all_done() and i < max_steps:
            en = r.enabled_tids()
            choices.append(en)
            if schedule is not None:
                if i >= len(schedule):
                    break
                t = schedule[i]
                if t not in en:
                    views.append(Err(4, "thread not enabled"))
                    break
            elif not en:
                break  # deadlock
            elif i < len(prefix):
                t = prefix[i]
            elif rng is not None:
                t = rng.choice(en)
            else:
                t = en[0]
            sched.append(t)
            r.step(t)
            views.append(r.view())
            i += 1
        deadlock = (not r.all_done()) and not r.enabled_tids() and (schedule is None or i >= len(schedule))
        if schedule is None and i >= max_steps and not r.all_done():
            views.append(Err(5, "the run did not finish within %d steps (livelock)" % max_steps))
    finally:
        errors = [(w.tid, repr(w.error)) for w in r.sched.workers if w.error is not None]
        r.close()
    return sched, views, choices, {"deadlock": deadlock, "errors": errors, "admission": r.admission,
                                   "arrival": r.arrival, "end_order": r.end_order}


def all_schedules(kind, progs, cap):
    """every complete schedule (lexicographic DFS by replay)"""
    prefix = []
    n = 0
    while n < cap:
        sched, views, choices, info = run_schedule(kind, progs, prefix=prefix)
        n += 1
        yield sched, views, info
        if views and isinstance(views[0], Err) and views[0].code == 198:
            return
        j = len(sched) - 1
        while j >= 0:
            en = choices[j]
            k = en.index(sched[j])
            if k + 1 < len(en):
                prefix = sched[:j] + [en[k + 1]]
                break
            j -= 1
        if j < 0:
            return


def gen_progs(rng, nthreads):
    progs = []
    for _ in range(nthreads):
        r = rng.random()
        if r < 0.62:
            edits = []
            for _ in range(rng.choice([0, 1, 1, 2, 3])):
                k = rng.choice([0, 1, 2, 2, 3])
                edits.append([1, k] if rng.random() < 0.25 else [0, k, rng.randrange(6)])
            progs.append([0, int(rng.random() < 0.15), edits, rng.choice([1, 1, 1, 1, 1, 0, 2, 3, 4, 5])])
        elif r < 0.85:
            x = rng.random()
            progs.append([1, None] if x < 0.6 else [1, 0, rng.randint(1, 4)] if x < 0.8 else [1, 1, rng.randint(0, 5)])
        else:
            progs.append([2, rng.choice([None, 1, 2, 3])])
    return progs


def cases(ctx):
    rng = ctx.rng
    configs = [[W1, W1b], [W1, WR], [WX, W1], [WB, W1b], [W0, W0, W0], [W0, W0, R], [W0, WR, P1], [WREPL, W1]]
    if not ctx.quick:
        configs += [[W1, W0, R], [W1, W1b, WR], [W1, W0, RID], [W0, W0, W0, R], [W1, WR, PN, R]]
    total = 0
    scopes = []
    nbad = [0]
    for ci, progs in enumerate(configs):
        kind = ci % 2
        cap = ctx.n(400, 1500)
        n = 0
        bad = 0
        for sched, views, info in all_schedules(kind, progs, cap):
            case = [kind, progs, sched]
            _cache[repr(case)] = (views, info)
            n += 1
            yield "exhaustive", case
            # a broken implementation makes every run long (livelock / leaked blocked threads): once a few
            # schedules of this configuration already violate the property, move on
            if oracle(ctx, "exhaustive", case, views):
                bad += 1
                nbad[0] += 1
                if bad >= 3:
                    break
        if nbad[0] >= 9:
            break
        scopes.append(f"{n}{'+' if n >= cap else ''} schedules of {len(progs)} threads {progs}")
        total += n
    # one schedule with MANY writers blocked at the same time behind one holder; they must be woken and
    # admitted one by one in arrival order
    progs = [W1] + [[0, 0, [[0, 3, t]], 1] if t % 5 else W0 for t in range(1, MANY + 1)]
    prefix = [0, 0, 0] + [t for t in range(1, MANY + 1) for _ in range(3)]
    sched, views, _, info = run_schedule(0, progs, prefix=prefix, max_steps=40 * (MANY + 2))
    case = [0, progs, sched]
    _cache[repr(case)] = (views, info)
    yield "many-waiters", case
    ctx.notes["exhaustive"] = True
    ctx.notes["exhaustive_scope"] = "every schedule (one lock/event operation per step) of: " + "; ".join(scopes)
    for i in range(ctx.n(200, 1500)):
        progs = gen_progs(rng, rng.choice([3, 4, 5, 6, 8]))
        sched, views, _, info = run_schedule(i % 2, progs, rng=rng)
        case = [i % 2, progs, sched]
        _cache[repr(case)] = (views, info)
        yield "random", case
        if nbad[0] >= 9 and oracle(ctx, "random", case, views):
            nbad[0] += 1
            if nbad[0] >= 15:
                break


def in_model(kind, case):
    return case[0] != 3


def impl(case):
    if case[0] == 3:  # replay of a line-level schedule
        fail = c12_lines.replay(case)
        return [0] if fail is None else [1, fail["what"]]
    key = repr(case)
    if key in _cache:
        return _cache.pop(key)[0]
    kind, progs, schedule = case
    _, views, _, _ = run_schedule(kind, progs, schedule=schedule)
    return views


# ---------------------------------------------------------------------------- oracle


def ref_apply(history, prog):
    """serial application of one write transaction (reference written from the documentation)"""
    _, repl, edits, commit = prog
    cont = {} if repl else dict(history[-1][1])
    changed = False
    for e in edits:
        if e[0] == 0:
            cont[e[1]] = e[2]
            changed = True
        elif e[1] in cont:
            del cont[e[1]]
            changed = True
    if commit == 1 and changed:
        history.append((history[-1][0] + 1, cont))


def oracle(ctx, kind, case, out):
    F = []

    def fail(what, step, **kw):
        F.append({"kind": "C12:" + what, "what": what, "step": step, "sig": what, **kw})

    if isinstance(out, Err):
        fail("schedule runner failed: " + out.text, -1)
        return F
    if case[0] == 3:
        if out[0]:
            fail((out[1].decode("latin-1") if isinstance(out[1], bytes) else str(out[1])) + " (line-level preemption)", -1)
        return F
    zk, progs, sched = case
    n = len(progs)
    writers = [t for t in range(n) if progs[t][0] == 0]
    arrival, admission = [], []
    reads = {}
    for i, v in enumerate(out):
        if isinstance(v, Err):
            fail(("livelock: " if v.code == 5 else "schedule could not be replayed: ") + v.text, i)
            return F
        lock, wtxn, wevent, waiters, setev, ids, readers, newest, pcs, enabled, failed = v[:11]
        codes = [p[0] for p in pcs]
        t = sched[i]
        # at most one open write transaction
        active = [x for x in writers if codes[x] in (3, 6, 7, 8, 9, 10)]
        if len(active) > 1:
            fail("two write transactions open at the same time", i, threads=active)
            return F
        # order of arrival (first critical section inside writer()) and of admission
        for x in writers:
            if codes[x] in (3, 4) and x not in arrival:
                arrival.append(x)
            if codes[x] == 3 and x not in admission:
                admission.append(x)
        if admission != arrival[: len(admission)]:
            fail("writers admitted out of arrival order", i, arrival=arrival, admission=admission)
            return F
        # the lock is only held inside a critical section, never while waiting or working
        if lock is not None and codes[lock] not in (2, 3, 4, 10, 12, 13, 16, 18, 19):
            fail("lock held outside a critical section", i, holder=lock, pc=pcs[lock])
        # every open reader's version is retained (reader registration is atomic with version selection)
        for rh, rvid in readers:
            if rvid not in ids:
                fail("version pinned by an open reader was pruned", i, reader=rh, vid=rvid, ids=ids)
        # nobody is stuck
        if not all(c == 20 for c in codes) and not any(enabled):
            fail("deadlock: unfinished threads and no step enabled", i, pcs=pcs)
            return F
        # the wake-up token and every queued event belong to a writer that is really waiting on it
        waited = {p[1] for p in pcs if p[0] in (1, 2, 4, 5) and len(p) > 1 and p[1] is not None}
        if wevent is not None and wevent not in waited:
            fail("lost wake-up: _write_event is an event no writer waits on", i, event=wevent)
            return F
        for x in writers:
            if codes[x] == 5 and pcs[x][1] not in setev and pcs[x][1] not in waiters and pcs[x][1] != wevent:
                fail("a waiting writer's event is neither queued nor the wake-up token: it can never be woken", i,
                     thread=x, event=pcs[x][1])
                return F
        stale = [e for e in waiters if e not in waited]
        if stale:
            fail("stale event in _write_waiters: no writer waits on it (its wake-up will be lost)", i, events=stale)
            return F
        # a free zone with waiters must have woken one of them
        if wtxn is None and waiters and wevent is None and lock is None:
            fail("lost wake-up: waiters queued, no transaction open, nobody woken", i)
        # readers only wait for the lock, never for the write transaction
        for x in range(n):
            if codes[x] in (11, 15) and lock is None and not enabled[x]:
                fail("reader blocked although the lock is free", i, thread=x)
            if codes[x] == 14:
                reads.setdefault(x, (i, pcs[x][1], pcs[x][2]))
        if failed is not None:
            fail("internal error in a critical section", i)
    if not out:
        return F
    last = out[-1]
    codes = [p[0] for p in last[8]]
    complete = all(c == 20 for c in codes)
    if complete:
        if sorted(admission) != sorted(writers):
            fail("a writer finished without being admitted", len(out) - 1)
        # serial equivalence: committed transactions applied one after the other in admission order
        hist = [(1, {})]
        states = [hist[0]]
        for x in admission:
            ref_apply(hist, progs[x])
        want = sorted([k, val] for k, val in hist[-1][1].items())
        if last[7] != want:
            fail("final zone differs from the serial application in admission order", len(out) - 1,
                 got=last[7], want=want, admission=admission)
        if last[5][-1] != hist[-1][0]:
            fail("final version id differs from the serial application", len(out) - 1, got=last[5], want=hist[-1][0])
        # no partial view: every reader saw exactly one of the serial states
        serial_states = {vid: sorted([k, val] for k, val in c.items()) for vid, c in hist}
        for x, (i, vid, cont) in reads.items():
            if serial_states.get(vid) != cont:
                fail("reader observed a state that is not a committed serial state", i, thread=x, vid=vid, content=cont)
    return F


def generated_obligations(ctx):
    return c12_astguard.generated_obligations(ctx)


def real_threads_smoke(ctx):
    """no shim: real threading.Lock/Event, OS scheduling with a tiny switch interval.  Writers do a
    read-modify-write of two keys that must stay equal; readers check that they never see them differ and
    that their snapshot does not move.  Lost updates = broken mutual exclusion; a hang = deadlock."""
    import sys
    import threading
    import dns.versioned as dv
    import dns.btreezone
    import pC11
    assert dv.threading is threading
    F = []
    old = sys.getswitchinterval()
    sys.setswitchinterval(1e-6)
    try:
        for Z in (dv.Zone, dns.btreezone.Zone):
            z = Z("example.")
            with z.writer() as t:
                t.replace(pC11.key_name(2), pC11.key_rdataset(2, 0))
                t.replace(pC11.key_name(3), pC11.key_rdataset(3, 0))
            nw, per = 6, ctx.n(20, 60)
            problems = []
            stop = []

            def writer():
                for _ in range(per):
                    with z.writer() as txn:
                        c = dict(map(tuple, pC11.txn_content(txn)))
                        if c.get(2) != c.get(3):
                            problems.append(("writer saw a partial state", c))
                        txn.replace(pC11.key_name(2), pC11.key_rdataset(2, c[2] + 1))
                        txn.replace(pC11.key_name(3), pC11.key_rdataset(3, c[3] + 1))

            def reader():
                while not stop:
                    with z.reader() as txn:
                        a = dict(map(tuple, pC11.txn_content(txn)))
                        b = dict(map(tuple, pC11.txn_content(txn)))
                        if a.get(2) != a.get(3) or a != b:
                            problems.append(("reader saw a partial or moving state", a, b))
                        with z._version_lock:
                            kept = any(txn.version is v for v in z._versions)
                        if not kept:
                            problems.append(("reader's version not retained", txn.version.id))

            ts = [threading.Thread(target=writer, daemon=True) for _ in range(nw)]
            rs = [threading.Thread(target=reader, daemon=True) for _ in range(2)]
            for th in ts + rs:
                th.start()
            import time as _time
            deadline = _time.time() + 20.0      # a clean run needs well under a second
            for th in ts:
                th.join(max(0.0, deadline - _time.time()))
            stop.append(1)
            for th in rs:
                th.join(max(0.5, deadline - _time.time()))
            if any(th.is_alive() for th in ts + rs):
                F.append({"kind": "C12:real-threads:deadlock", "sig": "real-deadlock",
                          "what": "real threads did not finish (deadlock / lost wake-up) on " + Z.__module__})
                continue
            final = dict(map(tuple, pC11.version_content(z._versions[-1])))
            if final.get(2) != nw * per or final.get(3) != nw * per:
                F.append({"kind": "C12:real-threads:lost update", "sig": "real-lost-update",
                          "what": f"{nw}x{per} read-modify-write transactions ended at {final} on {Z.__module__}: "
                                  "write transactions overlapped"})
            if problems:
                F.append({"kind": "C12:real-threads:inconsistent view", "sig": "real-view",
                          "what": str(problems[0])[:300] + " on " + Z.__module__})
            if z._write_txn is not None or len(z._write_waiters) or len(z._readers):
                F.append({"kind": "C12:real-threads:zone not idle", "sig": "real-idle",
                          "what": "zone not idle after all threads ended on " + Z.__module__})
            ctx.notes["real_thread_transactions"] = ctx.notes.get("real_thread_transactions", 0) + nw * per
    finally:
        sys.setswitchinterval(old)
    return F


def extra(ctx):
    import traceback
    try:
        F = c12_lines.check(ctx)
        # on an implementation that already fails above, real threads may simply hang: keep the check short
        return F if F else F + real_threads_smoke(ctx)
    except Exception:  # noqa
        return [{"kind": "C12:line-level exploration crashed", "sig": "lines crashed",
                 "what": "line-level exploration could not run: " + traceback.format_exc()[-600:],
                 "case": [0, [W1, W1b], []]}]


def widen(ctx, disagreements):
    """a proof / the AST guard / the correspondence broke and the oracle saw nothing: search wider, at lock
    granularity and with line-level preemption"""
    F = []
    rng = ctx.rng
    for i in range(1500):
        progs = gen_progs(rng, rng.choice([3, 4, 6]))
        sched, views, _, info = run_schedule(i % 2, progs, rng=rng)
        case = [i % 2, progs, sched]
        f = oracle(ctx, "widen", case, views)
        if f:
            f[0]["case"] = case
            F.append(f[0])
            break
    for i in range(3000):
        progs = gen_progs(rng, rng.choice([2, 3, 4]))
        stick = rng.choice([0.0, 0.5, 0.8, 0.95])

        def chooser(j, en, last, stick=stick):
            if last in en and rng.random() < stick:
                return last
            return rng.choice(en)

        sched, fail = c12_lines.run_line_schedule(progs, i % 2, chooser)
        if fail is not None:
            F.append({"kind": "C12:lines:" + fail["what"], "what": fail["what"] + " (line-level preemption)",
                      "sig": "lines:" + fail["what"], "case": [3, i % 2, progs, sched]})
            break
    return F
