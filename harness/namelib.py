"""Name generators and the implementation runner for the NameM model (used by C01, C06, ...)."""
import io
import struct

import dns.exception
import dns.name
import dns.tokenizer
import dns.wire
import dns.wirebase

from lib import Err

EXC = [
    (dns.name.LabelTooLong, 1),
    (dns.name.NameTooLong, 2),
    (dns.name.EmptyLabel, 3),
    (dns.name.BadEscape, 4),
    (dns.name.BadPointer, 5),
    (dns.name.BadLabelType, 6),
    (dns.name.NeedAbsoluteNameOrOrigin, 8),
    (dns.name.AbsoluteConcatenation, 9),
    (dns.name.NoParent, 10),
    (dns.name.NeedSubdomainOfOrigin, 11),
    (dns.exception.SyntaxError, 20),
    (dns.exception.UnexpectedEnd, 21),
]


def exc_code(e):
    for cls, code in EXC:
        if type(e) is cls:
            return Err(code, type(e).__name__)
    if type(e) is dns.exception.FormError:
        return Err(7, "FormError")
    if type(e) is ValueError:
        return Err(12, "ValueError")
    if isinstance(e, struct.error):
        return Err(101, "struct.error")
    if isinstance(e, IndexError):
        return Err(102, "IndexError")
    if isinstance(e, dns.exception.DNSException):
        return Err(800, type(e).__name__)
    return Err(900, type(e).__name__)


def labels_of(n):
    return [bytes(l) for l in n.labels]


def raw_name(labels):
    """A Name object carrying these labels without validation (as unpickling or internal
    slicing could produce) - only used to feed valid label lists cheaply."""
    return dns.name.Name(labels)


# ------------------------------------------------------------------ generators

INTERESTING = [0, 1, 0x1F, 0x20, 0x21, 0x22, 0x24, 0x28, 0x29, 0x2E, 0x30, 0x39, 0x3B, 0x40, 0x41, 0x5A, 0x5B, 0x5C,
               0x60, 0x61, 0x7A, 0x7B, 0x7E, 0x7F, 0x80, 0xC8, 0xFE, 0xFF]


def gen_octet(rng):
    r = rng.random()
    if r < 0.35:
        return rng.choice(INTERESTING)
    if r < 0.7:
        return rng.choice(b"abcXYZwz019-_@[")
    return rng.randrange(256)


def gen_label(rng, maxlen=63):
    r = rng.random()
    if r < 0.5:
        n = rng.randint(1, min(6, maxlen))
    elif r < 0.7:
        n = rng.choice([1, 2, min(62, maxlen), min(63, maxlen)])
    elif r < 0.8 and maxlen >= 64:
        n = rng.choice([64, 65])
    else:
        n = rng.randint(1, maxlen)
    r = rng.random()
    if r < 0.15:
        c = gen_octet(rng)
        return bytes([c]) * n
    return bytes(gen_octet(rng) for _ in range(n))


def gen_labels(rng, absolute=None, valid=True, budget=None):
    """list of labels; valid=True keeps within 63/255."""
    if absolute is None:
        absolute = rng.random() < 0.6
    r = rng.random()
    if budget is None:
        budget = 255 if r < 0.25 else rng.choice([20, 40, 100, 254, 255])
    total = 1 if absolute else 0
    out = []
    nl = rng.choice([0, 1, 1, 2, 2, 3, 4, 6, 127]) if r < 0.9 else rng.randint(0, 127)
    for _ in range(nl):
        room = budget - total - 1
        if room < 1:
            break
        l = gen_label(rng, 63 if valid else 66)
        if valid:
            l = l[: min(len(l), room)]
        out.append(l)
        total += len(l) + 1
    if absolute:
        out.append(b"")
    return out


def case_variant(rng, labels):
    out = []
    for l in labels:
        b = bytearray(l)
        for i in range(len(b)):
            if rng.random() < 0.5 and (65 <= b[i] <= 90 or 97 <= b[i] <= 122):
                b[i] ^= 0x20
        out.append(bytes(b))
    return out


def related(rng, labels):
    """a name related to `labels`: case variant, sub/super-domain, sibling, last-octet neighbour"""
    r = rng.random()
    ls = list(labels)
    if r < 0.2:
        return case_variant(rng, ls)
    if r < 0.4 and ls:
        k = rng.randrange(len(ls) + 1)
        return case_variant(rng, ls[k:]) if rng.random() < 0.5 else ls[k:]
    if r < 0.55:
        return [gen_label(rng, 5)] + ls
    if r < 0.8 and ls and ls[0]:
        i = rng.randrange(len(ls))
        if ls[i]:
            b = bytearray(ls[i])
            j = rng.randrange(len(b))
            b[j] = (b[j] + rng.choice([1, -1, 0x20, -0x20, 0x1B, -0x1B])) % 256
            ls[i] = bytes(b)
        return ls
    if r < 0.9 and ls:
        i = rng.randrange(len(ls))
        if ls[i]:
            ls[i] = ls[i][:-1] if rng.random() < 0.5 else ls[i] + bytes([gen_octet(rng)])
            if not ls[i] or len(ls[i]) > 63:
                ls[i] = b"x"
        return ls
    return gen_labels(rng)


def lower_labels(labels):
    return [bytes(c + 32 if 65 <= c <= 90 else c for c in l) for l in labels]


def fits(labels):
    return all(len(l) <= 63 for l in labels) and sum(len(l) + 1 for l in labels) <= 255 and b"" not in labels[:-1]


# ------------------------------------------------------------------ implementation runner


def N(labels):
    return dns.name.Name(labels)


def oname(o):
    return None if o is None else N(o)


def run_impl(case):
    op = case[0]
    try:
        if op == 1:
            return labels_of(N(case[1]))
        if op == 2:
            a, b = N(case[1]), N(case[2])
            r, o, nl = a.fullcompare(b)
            return [int(r), o, nl, a.is_subdomain(b), a.is_superdomain(b)]
        if op == 3:
            return N(case[1]).__hash__()
        if op == 4:
            a = N(case[1])
            return [a.to_text().encode("latin-1"), a.to_text(omit_final_dot=True).encode("latin-1")]
        if op == 5:
            return labels_of(dns.name.from_text(bytes(case[1]), oname(case[2])))
        if op == 6:
            return N(case[1]).to_wire(origin=oname(case[2]), canonicalize=bool(case[3]))
        if op == 7:
            f = io.BytesIO()
            pad = case[3]
            f.write(b"\0" * pad)
            tbl = {}
            origin = oname(case[2])
            for ls in case[1]:
                N(ls).to_wire(f, tbl, origin)
            return [f.getvalue()[pad:], [[labels_of(k), v] for k, v in tbl.items()]]
        if op == 8:
            n, c = dns.name.from_wire(bytes(case[1]), case[2])
            return [labels_of(n), c]
        if op == 9:
            return labels_of(N(case[1]).concatenate(N(case[2])))
        if op == 10:
            return labels_of(N(case[1]).relativize(N(case[2])))
        if op == 11:
            return labels_of(N(case[1]).derelativize(N(case[2])))
        if op == 12:
            p, s = N(case[1]).split(case[2])
            return [labels_of(p), labels_of(s)]
        if op == 13:
            return labels_of(N(case[1]).parent())
        if op == 14:
            return labels_of(N(case[1]).successor(N(case[2]), bool(case[3])))
        if op == 15:
            return labels_of(N(case[1]).predecessor(N(case[2]), bool(case[3])))
        if op == 16:
            return labels_of(N(case[1]).choose_relativity(oname(case[2]), bool(case[3])))
        if op == 17:
            # from_wire with the followed pointer targets recorded (Parser.seek instrumented)
            tr = []

            class TracingParser(dns.wirebase.Parser):
                def seek(self, where):
                    super().seek(where)
                    tr.append(where)

            p = TracingParser(bytes(case[1]), case[2])
            del tr[:]  # the constructor's own seek to the start offset is not a pointer
            start = p.current
            n = dns.name.from_wire_parser(p)
            return [labels_of(n), p.current - start, list(tr)]
        if op == 25:
            # Name.to_wire with a file but no compression table
            f = io.BytesIO()
            N(case[1]).to_wire(f, None, oname(case[2]), bool(case[3]))
            return f.getvalue()
        if op == 24:
            p = dns.wire.Parser(bytes(case[1]), case[2])
            start = p.current
            n = p.get_name(oname(case[3]))
            return [labels_of(n), p.current - start]
        if op == 19:
            a, b = N(case[1]), N(case[2])
            return [a == b, a != b, a < b, a <= b, a >= b, a > b, hash(a) == hash(b)]
        if op == 18:
            # Tokenizer.get() (identifier path) and Tokenizer.get_name(origin) on ASCII text
            text = bytes(case[1]).decode("latin-1")
            origin = oname(case[2])

            def ident():
                tk = dns.tokenizer.Tokenizer(text)
                t = tk.get()
                if not t.is_identifier():
                    raise NotImplementedError("not an identifier token")
                rest = (tk.ungotten_char or "") + tk.file.read()
                return [t.value.encode("latin-1"), rest.encode("latin-1")]

            def name():
                return labels_of(dns.tokenizer.Tokenizer(text).get_name(origin))

            out = []
            for f in (ident, name):
                try:
                    out.append(f())
                except Exception as e:  # noqa
                    out.append(exc_code(e))
            return out
    except Exception as e:  # noqa
        return exc_code(e)
    raise ValueError(f"bad op {op}")


# ------------------------------------------------------------------ shrinking of failing cases


def _variants(v):
    """smaller variants of a nested case value (ints / bytes / lists / None), most aggressive first"""
    if isinstance(v, (bytes, bytearray)):
        b = bytes(v)
        n = len(b)
        if n == 0:
            return
        yield b""
        if n > 1:
            yield b[: n // 2]
            yield b[n // 2:]
            yield b[:-1]
            yield b[1:]
        for i, c in enumerate(b[:64]):
            if c not in (0x61, 0):
                yield b[:i] + b"a" + b[i + 1:]
    elif isinstance(v, list):
        n = len(v)
        if n > 1:
            yield v[: n // 2]
            yield v[n // 2:]
        for i in range(min(n, 40)):
            yield v[:i] + v[i + 1:]
        for i in range(min(n, 40)):
            for x in _variants(v[i]):
                yield v[:i] + [x] + v[i + 1:]
    elif isinstance(v, int) and not isinstance(v, bool):
        if v > 0:
            yield 0
            yield v // 2
            yield v - 1


def shrink_case(case, still_fails, budget=400, seconds=3.0):
    """Greedy shrink: keep the op code (case[0]); accept a smaller variant of the arguments while
    `still_fails(candidate)` holds.  Bounded by `budget` evaluations and `seconds`."""
    import time

    t0 = time.time()
    cur = list(case)
    used = 0
    progress = True
    while progress and used < budget and time.time() - t0 < seconds:
        progress = False
        for i in range(1, len(cur)):
            for x in _variants(cur[i]):
                if used >= budget or time.time() - t0 >= seconds:
                    break
                used += 1
                cand = cur[:i] + [x] + cur[i + 1:]
                try:
                    ok = still_fails(cand)
                except Exception:  # noqa
                    ok = False
                if ok:
                    cur = cand
                    progress = True
                    break
            if progress:
                break
    return cur


_SHRUNK = [0]


def with_shrinking(mod_name, raw_oracle, max_shrinks=6, ok=None):
    """wrap an oracle: the first few failures of a run are re-run on smaller variants of the case;
    the smallest variant that still fails in the same way is stored as the failure's case
    (the replay then shows a minimal input; the original is kept as `original_case`)"""
    import lib

    def oracle(ctx, kind, case, out):
        F = raw_oracle(ctx, kind, case, out) or []
        if not F or _SHRUNK[0] >= max_shrinks:
            return F
        _SHRUNK[0] += 1
        mod = __import__(mod_name)
        what = F[0].get("what")

        def fails(cand):
            cand = lib.normalize(cand)
            if ok is not None and not ok(cand):
                return False  # outside the domain the oracle is stated for
            o = lib.normalize(lib.safe_impl(mod, cand))
            return any(f.get("what") == what for f in (raw_oracle(ctx, kind, cand, o) or []))

        small = lib.normalize(shrink_case(case, fails))
        if small != case:
            o = lib.normalize(lib.safe_impl(mod, small))
            G = [f for f in (raw_oracle(ctx, kind, small, o) or []) if f.get("what") == what]
            if G:
                g = G[0]
                g["case"] = small
                g["original_case"] = case
                return [g] + F[1:]
        return F

    return oracle
