"""C12 - deterministic scheduling of real threads through dns.versioned.Zone.

`dns.versioned.threading` is replaced by a shim whose Lock and Event hand control to a scheduler at
every lock / event operation ("gate").  Worker threads are real `threading.Thread`s but exactly one
runs at a time: the controller releases one thread, which runs until its next gate (or its end) and
hands control back.  A step of the controller therefore is one lock/event operation of the
implementation plus the straight-line code up to the next one - the step of coq/Model/WritersM.v.

Gates:  acq  (at `with self._version_lock`, enabled iff the lock is free)
        crit (lock taken, body of the `with` not yet executed)
        rel  (leaving the `with`)
        wait (Event.wait, enabled iff the event is set)
        edit / read (placed by the worker functions between transaction operations)
In line mode (sys.settrace) every source line of dns/versioned.py and of the version set-up in
dns/zone.py / dns/btreezone.py executed by a worker is a gate too.
"""
import _thread
import sys
import threading as real_threading

import dns.btreezone
import dns.name
import dns.rdataset
import dns.transaction
import dns.versioned
import dns.zone

ZONES = (dns.versioned.Zone, dns.btreezone.Zone)


class Deadlock(Exception):
    pass


class Worker:
    def __init__(self, tid, prog):
        self.tid = tid
        self.prog = prog
        self.sem = _thread.allocate_lock()   # binary semaphore, initially taken
        self.sem.acquire()
        self.gate = ("start",)
        self.done = False
        self.error = None
        self.thread = None
        self.last_event = None     # local variable `event` of writer()
        self.created = None        # event created in the current critical section
        self.result = None         # reader: [vid, content]; writer: admission index
        self.todo = 0
        self.section = None
        self.lines = 0


class Sched:
    def __init__(self, line_mode=False):
        self.ctrl = _thread.allocate_lock()
        self.ctrl.acquire()
        self.workers = []
        self.by_ident = {}
        self.events = []           # ShimEvent objects in creation order
        self.set_order = []        # indices in set() order
        self.lock = None
        self.line_mode = line_mode
        self.trace_log = None
        self.arrival = []          # writer tids in order of their first lock acquisition inside writer()

    # ---- called by worker threads
    def me(self):
        return self.by_ident.get(real_threading.get_ident())

    def gate(self, *info):
        w = self.me()
        if w is None:
            return  # the controller itself (zone construction, observation)
        w.gate = info
        self.ctrl.release()
        w.sem.acquire()

    # ---- controller side
    def enabled(self, w):
        if w.done:
            return False
        g = w.gate
        if g[0] == "acq":
            return self.lock.owner is None
        if g[0] == "wait":
            return g[1].flag
        if g[0] == "line" and len(g) > 1 and g[1] is not None:
            # blocked inside Lock.__enter__ / Event.wait in line mode
            return g[1]()
        return True

    def step(self, tid):
        w = self.workers[tid]
        assert self.enabled(w), ("scheduled a disabled thread", tid, w.gate)
        w.sem.release()
        self.ctrl.acquire()

    def start(self, fns):
        for tid, (prog, fn) in enumerate(fns):
            w = Worker(tid, prog)
            self.workers.append(w)

            def body(w=w, fn=fn):
                self.by_ident[real_threading.get_ident()] = w
                w.sem.acquire()          # wait for the first scheduling
                try:
                    if self.line_mode:
                        sys.settrace(self.tracer)
                    fn(w)
                except BaseException as e:  # noqa
                    w.error = e
                finally:
                    sys.settrace(None)
                    w.done = True
                    w.gate = ("done",)
                    self.ctrl.release()

            w.thread = _thread.start_new_thread(body, ())

    def finish(self):
        """let every thread run to its end (used after a failure, to not leak blocked threads)"""
        for _ in range(1000):
            live = [w for w in self.workers if not w.done]
            if not live:
                return True
            en = [w for w in live if self.enabled(w)]
            if not en:
                return False
            self.step(en[0].tid)
        return False

    # ---- line-level preemption
    TRACED = None

    def tracer(self, frame, event, arg):
        code = frame.f_code
        if code not in self.traced_codes():
            return None
        return self.line_tracer

    def line_tracer(self, frame, event, arg):
        if event == "line":
            w = self.me()
            if w is not None:
                w.lines += 1
                self.gate("line", None, frame.f_code.co_name, frame.f_lineno)
        return self.line_tracer

    _codes = None

    @classmethod
    def traced_codes(cls):
        if cls._codes is None:
            codes = set()
            Z = dns.versioned.Zone
            for name in ("writer", "reader", "_maybe_wakeup_one_waiter_unlocked", "_prune_versions_unlocked",
                         "_end_read", "_end_write_unlocked", "_end_write", "_commit_version_unlocked",
                         "_commit_version", "_get_next_version_id", "set_pruning_policy"):
                codes.add(getattr(Z, name).__code__)
            codes.add(dns.zone.Transaction._setup_version.__code__)
            codes.add(dns.zone.Transaction._end_transaction.__code__)
            codes.add(dns.zone.WritableVersion.__init__.__code__)
            codes.add(dns.btreezone.WritableVersion.__init__.__code__)
            cls._codes = codes
        return cls._codes


SCHED = None  # the scheduler of the run in progress


class ShimLock:
    def __init__(self):
        self.owner = None
        if SCHED is not None and SCHED.lock is None:
            SCHED.lock = self

    def __enter__(self):
        s = SCHED
        w = s.me() if s else None
        if w is None:
            return self
        if s.line_mode:
            if self.owner is not None:
                s.gate("line", lambda: self.owner is None, "Lock.__enter__", 0)
            assert self.owner is None
            self.owner = w.tid
            if section_name() == "writer" and w.tid not in s.arrival:
                s.arrival.append(w.tid)
            return self
        w.section = section_name()
        w.created = None
        s.gate("acq", w.section)
        assert self.owner is None
        self.owner = w.tid
        s.gate("crit", w.section)
        return self

    def __exit__(self, et, ev, tb):
        s = SCHED
        w = s.me() if s else None
        if w is None:
            return False
        if not s.line_mode:
            s.gate("rel", w.section, et is not None)
        assert self.owner == w.tid
        self.owner = None
        return False

    def acquire(self, *a, **k):
        self.__enter__()
        return True

    def release(self):
        self.__exit__(None, None, None)


class ShimEvent:
    def __init__(self):
        self.flag = False
        s = SCHED
        self.idx = len(s.events)
        s.events.append(self)
        w = s.me()
        if w is not None:
            w.created = self
            w.last_event = self

    def set(self):
        if not self.flag:
            SCHED.set_order.append(self.idx)
        self.flag = True

    def is_set(self):
        return self.flag

    def wait(self, timeout=None):
        """virtual clock: a wait WITH a timeout may return (False) at any scheduling point although the event
        is not set - the scheduler treats the thread as always enabled; a wait without timeout returns only
        once the event is set"""
        s = SCHED
        if s.me() is None:
            return self.flag
        timed = timeout is not None
        if s.line_mode:
            if not self.flag:
                s.gate("line", (lambda: True) if timed else (lambda: self.flag), "Event.wait", 0)
        else:
            s.gate("wait_timeout" if timed else "wait", self)
        if not timed:
            assert self.flag
        else:
            s.timeouts = getattr(s, "timeouts", 0) + (not self.flag)
        return self.flag


class ShimThreading:
    Lock = ShimLock
    Event = ShimEvent


def section_name():
    """which critical section of dns.versioned.Zone the current thread is entering"""
    f = sys._getframe(2)
    for _ in range(6):
        if f is None:
            break
        n = f.f_code.co_name
        if n in ("writer", "reader", "_end_read", "_end_write", "_commit_version", "set_pruning_policy"):
            return n
        f = f.f_back
    return "?"


# ---------------------------------------------------------------------------------- programs

import pC11  # key_name / key_rdataset / content helpers shared with C11


class Boom(Exception):
    """raised by a writer program inside its `with zone.writer()` block: must roll back"""


def writer_fn(z, prog):
    # commit: 1 = leave the with block normally, 0 = rollback(), 2 = raise an Exception,
    #         3 / 4 / 5 = leave through a BaseException that is not an Exception (SystemExit as sys.exit() in a
    #         worker thread does, KeyboardInterrupt, GeneratorExit): every exceptional exit must roll back
    _, repl, edits, commit = prog

    def fn(w):
        w.todo = len(edits)
        w.phase = "waiting"
        try:
            with z.writer(bool(repl)) as txn:
                w.phase = "body"
                w.txn = txn
                for i, e in enumerate(edits):
                    SCHED.gate("edit", len(edits) - i)
                    w.todo = len(edits) - i - 1
                    if e[0] == 0:
                        txn.replace(pC11.key_name(e[1]), pC11.key_rdataset(e[1], e[2]))
                    else:
                        pC11.delete_key(txn, e[1])
                w.phase = "ending"
                if commit == 0:
                    txn.rollback()
                elif commit == 2:
                    raise Boom()
                elif commit >= 3:
                    raise (SystemExit, KeyboardInterrupt, GeneratorExit)[commit - 3]()
        except (Boom, SystemExit, KeyboardInterrupt, GeneratorExit):
            pass
        w.phase = "ended"

    return fn


def reader_fn(z, prog):
    def fn(w):
        try:
            if prog[1] is None:
                txn = z.reader()
            elif prog[1] == 0:
                txn = z.reader(id=prog[2])
            else:
                txn = z.reader(serial=prog[2])
        except KeyError:
            w.result = "KeyError"
            return
        w.result = [txn.version.id, pC11.txn_content(txn)]
        SCHED.gate("read")
        w.result2 = [txn.version.id, pC11.txn_content(txn)]
        how = w.tid % 4
        if how == 1:
            with txn:
                pass            # Transaction.__exit__ commits a read transaction: _end_read
        elif how == 2:
            try:
                with txn:
                    raise Boom()    # ... and rolls it back on an exception: _end_read as well
            except Boom:
                pass
        elif how == 3:
            try:
                with txn:
                    raise SystemExit()
            except SystemExit:
                pass
        else:
            txn.rollback()

    return fn


def policy_fn(z, prog):
    def fn(w):
        z.set_max_versions(prog[1])

    return fn


class Run:
    """one execution of a set of thread programs over a fresh zone"""

    def __init__(self, progs, kind=0, line_mode=False):
        global SCHED
        self.progs = progs
        self.sched = SCHED = Sched(line_mode)
        dns.versioned.threading = ShimThreading
        try:
            self.z = ZONES[kind]("example.")
        finally:
            pass
        z = self.z
        fns = []
        for p in progs:
            fn = {0: writer_fn, 1: reader_fn, 2: policy_fn}[p[0]](z, p)
            fns.append((p, fn))
        self.sched.start(fns)
        # bring every thread to its first gate (nothing shared is touched before it)
        for w in self.sched.workers:
            self.sched.step(w.tid)
        self.txn_owner = {}
        self.reader_handle = {}
        self.nreaders = 0
        self.admission = []       # tids in admission order
        self.arrival = self.sched.arrival   # writer tids in order of their first critical section in writer()
        self.end_order = []       # writer tids in the order their write txn ended
        self.history = []

    def close(self):
        ok = self.sched.finish()
        dns.versioned.threading = real_threading
        return ok

    def enabled_tids(self):
        return [w.tid for w in self.sched.workers if self.sched.enabled(w)]

    def all_done(self):
        return all(w.done for w in self.sched.workers)

    def step(self, tid):
        w = self.sched.workers[tid]
        z = self.z
        before_txn = z._write_txn
        g = w.gate
        self.sched.step(tid)
        # bookkeeping of identities (controller only; reads the zone without the lock)
        if z._write_txn is not None and id(z._write_txn) not in self.txn_owner:
            self.txn_owner[id(z._write_txn)] = tid
            self.txn_keep = getattr(self, "txn_keep", []) + [z._write_txn]
            self.admission.append(tid)
        if g[0] == "crit" and g[1] == "writer" and tid not in self.arrival:
            self.arrival.append(tid)
        if before_txn is not None and z._write_txn is not before_txn:
            self.end_order.append(self.txn_owner[id(before_txn)])
        for txn in z._readers:
            if id(txn) not in self.reader_handle:
                self.reader_handle[id(txn)] = self.nreaders
                self.keep = getattr(self, "keep", []) + [txn]
                self.nreaders += 1

    def pc_code(self, w):
        if w.done:
            return [20]
        g = w.gate
        k = g[0]
        ev = None if w.last_event is None else w.last_event.idx
        if k == "start":
            p = w.prog[0]
            return [1, None] if p == 0 else [11] if p == 1 else [17]
        sec = g[1] if len(g) > 1 else None
        if k in ("acq", "crit"):
            d = 0 if k == "acq" else 1
            if sec == "writer":
                return [1 + d, ev]
            if sec in ("_commit_version", "_end_write"):
                return [9 + d, int(sec == "_commit_version")]
            if sec == "reader":
                return [11 + d]
            if sec == "_end_read":
                return [15 + d]
            if sec == "set_pruning_policy":
                return [17 + d]
        if k == "rel":
            if sec == "writer":
                if w.created is not None:
                    return [4, w.created.idx]
                return [3]
            if sec == "reader" and not g[2]:
                return [13]
            return [19]
        if k in ("wait", "wait_timeout"):
            return [5, g[1].idx]
        if k == "edit":
            return [8, g[1]]
        if k == "read":
            return [14] + w.result
        return [99, repr(g)]

    def view(self):
        z = self.z
        s = self.sched
        ws = s.workers
        rs = sorted([self.reader_handle[id(t)], t.version.id] for t in z._readers)
        return [
            s.lock.owner,
            None if z._write_txn is None else self.txn_owner[id(z._write_txn)],
            None if z._write_event is None else z._write_event.idx,
            [e.idx for e in z._write_waiters],
            list(s.set_order),
            [v.id for v in z._versions],
            rs,
            pC11.version_content(z._versions[-1]),
            [self.pc_code(w) for w in ws],
            [int(s.enabled(w)) for w in ws],
            None,
            list(self.arrival),
            list(self.admission),
            list(self.end_order),
        ]
