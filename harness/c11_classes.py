"""C11 - "... or of the version requested by id or serial", for zones of every rdata class.

Deterministic family (both tiers, no random stream): for dns.versioned.Zone and dns.btreezone.Zone x rdclass in
(IN, CH, HS) x relativize in (True, False): a zone keeping the last 4 versions; 8 commits, each with a new SOA
serial and a changed TXT; one reader pinned (opened BY SERIAL) across the later commits.  After every commit:
  * for every retained version: reader(id=its id) and reader(serial=its serial) both open exactly that version
    and read exactly the content it had when it was committed;
  * for every pruned id / pruned serial / a serial that never existed: KeyError;
  * reader() opens the newest version;
  * the pinned reader still reads what it read when it was opened, and its version is retained.
"""
import dns.btreezone
import dns.name
import dns.rdataclass
import dns.rdataset
import dns.rdatatype
import dns.versioned

ZONES = (dns.versioned.Zone, dns.btreezone.Zone)
CLASSES = ("IN", "CH", "HS")


def content(txn):
    return sorted((name.to_text(), int(rds.rdclass), int(rds.rdtype), rds.ttl, tuple(sorted(r.to_text() for r in rds)))
                  for name, rds in txn.iterate_rdatasets())


def run(kind, cls, relativize, ncommits=8, keep=4):
    """returns a failure dict or None"""
    Z = ZONES[kind]
    rdclass = dns.rdataclass.from_text(cls)
    z = Z("example.", rdclass=rdclass, relativize=relativize)
    z.set_max_versions(keep)
    where = {"zone": Z.__module__ + ".Zone", "rdclass": cls, "relativize": relativize}
    recorded = {}     # version id -> (serial, content)
    pinned = None

    def fail(what, **kw):
        return {"what": what, **where, **kw}

    for c in range(ncommits):
        serial = 100 + 7 * c
        with z.writer() as txn:
            txn.replace(dns.name.empty if relativize else dns.name.from_text("example."),
                        dns.rdataset.from_text(cls, "SOA", 300, "ns hostmaster %d 7200 900 1209600 300" % serial))
            txn.replace("t", dns.rdataset.from_text(cls, "TXT", 300, '"round %d"' % c))
            if c % 3 == 0:
                txn.replace("u%d" % c, dns.rdataset.from_text(cls, "TXT", 60, '"x"'))
        with z.reader() as txn:
            newest = txn.version.id
            if newest in recorded:
                return fail("a commit did not create a new version", commit=c)
            recorded[newest] = (serial, content(txn))
        retained = [v.id for v in z._versions]
        if retained[-1] != newest:
            return fail("reader() did not open the newest version", commit=c, retained=retained, opened=newest)
        for vid, (ser, cont) in recorded.items():
            if vid in retained:
                for how, kw in (("id", {"id": vid}), ("serial", {"serial": ser})):
                    try:
                        txn = z.reader(**kw)
                    except KeyError as e:
                        return fail(f"reader({how}=) refused a retained version", commit=c, version=vid, serial=ser,
                                    retained=retained, error=str(e))
                    try:
                        if txn.version.id != vid:
                            return fail(f"reader({how}=) opened the wrong version", commit=c, want=vid, got=txn.version.id)
                        if content(txn) != cont:
                            return fail(f"reader({how}=) does not read the content the version was committed with",
                                        commit=c, version=vid)
                    finally:
                        txn.rollback()
            else:
                for how, kw in (("id", {"id": vid}), ("serial", {"serial": ser})):
                    try:
                        z.reader(**kw).rollback()
                        return fail(f"reader({how}=) opened a version that is not retained", commit=c, version=vid)
                    except KeyError:
                        pass
        for kw in ({"serial": 5}, {"serial": 100 + 7 * c + 1}, {"id": newest + 1}, {"id": 0}):
            try:
                z.reader(**kw).rollback()
                return fail("reader() opened a version that never existed", commit=c, request=kw)
            except KeyError:
                pass
        if c == 1:
            pinned = (z.reader(serial=serial), newest, recorded[newest][1])
        if pinned is not None:
            txn, vid, cont = pinned
            if content(txn) != cont or txn.version.id != vid:
                return fail("snapshot changed under a reader opened by serial", commit=c, version=vid)
            if vid not in retained:
                return fail("version pinned by a reader opened by serial was pruned", commit=c, version=vid, retained=retained)
        if c == ncommits - 2 and pinned is not None:
            pinned[0].rollback()
            pinned = None
    if len(z._versions) != keep:
        return fail("retention differs from set_max_versions after the pinned reader closed",
                    retained=[v.id for v in z._versions], keep=keep)
    if len(z._readers):
        return fail("readers left registered")
    return None


def check(ctx):
    F = []
    runs = 0
    for kind in (0, 1):
        for ci, cls in enumerate(CLASSES):
            for relativize in (True, False):
                runs += 1
                try:
                    f = run(kind, cls, relativize)
                except Exception as e:  # noqa
                    import traceback
                    f = {"what": "the rdata-class family raised " + type(e).__name__, "zone": ZONES[kind].__module__ + ".Zone",
                         "rdclass": cls, "relativize": relativize, "text": traceback.format_exc()[-500:]}
                if f is not None:
                    F.append({"kind": "C11:rdclass:" + f["what"], "sig": "rdclass:" + f["what"], **f,
                              "case": [106, kind, ci, int(relativize)]})
    ctx.notes["extra_evaluations"] = ctx.notes.get("extra_evaluations", 0) + runs
    ctx.notes["extra_nontrivial"] = ctx.notes.get("extra_nontrivial", 0) + runs
    ctx.notes["rdclass_family"] = f"{runs} zones: 2 zone classes x rdclass IN/CH/HS x relativize, 8 commits each, id and serial lookups of every retained and pruned version after every commit"
    seen, out = set(), []
    for f in F:
        if f["sig"] not in seen:
            seen.add(f["sig"])
            out.append(f)
    return out


def replay(case):
    _, kind, ci, rel = case
    return run(kind, CLASSES[ci], bool(rel))
