"""C17 - fail-closed reader of the cache classes of dns/resolver.py (python ast).

For CacheStatistics, CacheBase, Cache, LRUCacheNode, LRUCache it produces
  * the list of methods of each class (public ones mapped to the model's method names),
  * per public method whether its body is exactly [docstring] + one `with self.lock:` block,
  * the statement skeleton of every method: one line per statement,
        "<depth> <kind> <normalised source of the header>"
    (docstrings and comments dropped, expressions printed by ast.unparse).
Anything outside the recognised statement kinds, an unknown public method, a missing one, a
changed base class: reported as an error (the run then fails a named obligation)."""
import ast
import os

CLASSES = ["CacheStatistics", "CacheBase", "Cache", "LRUCacheNode", "LRUCache"]

# public method -> constructor of `meth` in coq/Proofs/CacheGuard.v
METH = {
    "get": "MGet", "put": "MPut", "flush": "MFlush", "set_max_size": "MSetMax",
    "get_hits_for_key": "MHitsFor", "hits": "MHits", "misses": "MMisses",
    "get_statistics_snapshot": "MSnapshot", "reset_statistics": "MReset",
}
PUBLIC = {
    "CacheBase": ["reset_statistics", "hits", "misses", "get_statistics_snapshot"],
    "Cache": ["get", "put", "flush"],
    "LRUCache": ["set_max_size", "get", "get_hits_for_key", "put", "flush"],
}
PRIVATE = {
    "CacheStatistics": ["__init__", "reset", "clone"],
    "CacheBase": ["__init__"],
    "Cache": ["__init__", "_maybe_clean"],
    "LRUCacheNode": ["__init__", "link_after", "unlink"],
    "LRUCache": ["__init__"],
}
BASES = {"CacheStatistics": [], "CacheBase": [], "Cache": ["CacheBase"], "LRUCacheNode": [], "LRUCache": ["CacheBase"]}


def strip_doc(body):
    body = list(body)
    if body and isinstance(body[0], ast.Expr) and isinstance(getattr(body[0], "value", None), ast.Constant) \
            and isinstance(body[0].value.value, str):
        body = body[1:]
    return body


def skeleton(stmts, depth, out, errors, where):
    for s in stmts:
        if isinstance(s, ast.With):
            out.append(f"{depth} with " + ", ".join(ast.unparse(i.context_expr) + (" as " + ast.unparse(i.optional_vars) if i.optional_vars else "") for i in s.items))
            skeleton(s.body, depth + 1, out, errors, where)
        elif isinstance(s, ast.If):
            out.append(f"{depth} if {ast.unparse(s.test)}")
            skeleton(s.body, depth + 1, out, errors, where)
            if s.orelse:
                out.append(f"{depth} else")
                skeleton(s.orelse, depth + 1, out, errors, where)
        elif isinstance(s, ast.While):
            out.append(f"{depth} while {ast.unparse(s.test)}")
            skeleton(s.body, depth + 1, out, errors, where)
            if s.orelse:
                errors.append(f"{where}: while/else")
        elif isinstance(s, ast.For):
            out.append(f"{depth} for {ast.unparse(s.target)} in {ast.unparse(s.iter)}")
            skeleton(s.body, depth + 1, out, errors, where)
            if s.orelse:
                errors.append(f"{where}: for/else")
        elif isinstance(s, ast.Return):
            out.append(f"{depth} return " + (ast.unparse(s.value) if s.value is not None else ""))
        elif isinstance(s, ast.Assign):
            out.append(f"{depth} set " + " = ".join(ast.unparse(t) for t in s.targets) + " = " + ast.unparse(s.value))
        elif isinstance(s, ast.AnnAssign):
            out.append(f"{depth} set {ast.unparse(s.target)} = " + (ast.unparse(s.value) if s.value is not None else ""))
        elif isinstance(s, ast.AugAssign):
            out.append(f"{depth} aug {ast.unparse(s)}")
        elif isinstance(s, ast.Delete):
            out.append(f"{depth} del " + ", ".join(ast.unparse(t) for t in s.targets))
        elif isinstance(s, ast.Expr) and isinstance(s.value, ast.Call):
            out.append(f"{depth} call {ast.unparse(s.value)}")
        elif isinstance(s, ast.Pass):
            out.append(f"{depth} pass")
        else:
            errors.append(f"{where}: statement kind {type(s).__name__} is outside the recognised set")
            out.append(f"{depth} ?{type(s).__name__}")


def is_single_lock_block(fn):
    body = strip_doc(fn.body)
    return (len(body) == 1 and isinstance(body[0], ast.With) and len(body[0].items) == 1
            and body[0].items[0].optional_vars is None
            and ast.unparse(body[0].items[0].context_expr) == "self.lock")


def read(repo):
    """-> dict(errors, atomic {class: {meth: bool}}, skeletons {"Class.method": [lines]}, methods {class: [names]})"""
    path = os.path.join(repo, "dns", "resolver.py")
    errors = []
    res = {"errors": errors, "atomic": {}, "skeletons": {}, "methods": {}, "unknown": []}
    try:
        tree = ast.parse(open(path, encoding="utf-8").read())
    except Exception as e:  # noqa
        errors.append(f"dns/resolver.py does not parse: {e}")
        return res
    found = {c.name: c for c in tree.body if isinstance(c, ast.ClassDef) and c.name in CLASSES}
    for cname in CLASSES:
        cls = found.get(cname)
        if cls is None:
            errors.append(f"class {cname} not found")
            continue
        bases = [ast.unparse(b) for b in cls.bases]
        if bases != BASES[cname]:
            errors.append(f"{cname}: bases are {bases}, the model assumes {BASES[cname]}")
        names = []
        for item in cls.body:
            if isinstance(item, (ast.FunctionDef, ast.AsyncFunctionDef)):
                names.append(item.name)
                where = f"{cname}.{item.name}"
                if isinstance(item, ast.AsyncFunctionDef) or item.decorator_list:
                    errors.append(f"{where}: async or decorated")
                lines = []
                skeleton(strip_doc(item.body), 0, lines, errors, where)
                res["skeletons"][where] = lines
                if not item.name.startswith("_") and cname in PUBLIC:
                    if item.name not in PUBLIC.get(cname, []):
                        res["unknown"].append(where)
                        errors.append(f"{where}: public method the model does not know")
                    else:
                        res["atomic"].setdefault(cname, {})[item.name] = is_single_lock_block(item)
                elif item.name not in PRIVATE.get(cname, []):
                    res["unknown"].append(where)
                    errors.append(f"{where}: helper method the model does not know")
            elif isinstance(item, (ast.Expr, ast.Pass)) and (isinstance(item, ast.Pass) or isinstance(item.value, ast.Constant)):
                continue
            else:
                errors.append(f"{cname}: class-level statement {type(item).__name__}")
        res["methods"][cname] = names
        for want in PUBLIC.get(cname, []) + PRIVATE.get(cname, []):
            if want not in names:
                errors.append(f"{cname}.{want}: method of the model is missing from the source")
    # Answer.__init__ : the expiration line
    ans = next((c for c in tree.body if isinstance(c, ast.ClassDef) and c.name == "Answer"), None)
    init = next((f for f in (ans.body if ans else []) if isinstance(f, ast.FunctionDef) and f.name == "__init__"), None)
    exp = [ast.unparse(s) for s in (init.body if init else []) if isinstance(s, ast.Assign)
           and ast.unparse(s.targets[0]) in ("self.expiration", "self.chaining_result")]
    res["skeletons"]["Answer.__init__"] = ["0 set " + e for e in exp]
    return res


def coq_string(s):
    return '"' + s.replace('"', '""') + '"'


def coq_skeleton(lines):
    return "[" + "; ".join(coq_string(l) for l in lines) + "]%string"


if __name__ == "__main__":
    import sys
    r = read(sys.argv[1] if len(sys.argv) > 1 else "/repo")
    print(r["errors"])
    for k, v in r["skeletons"].items():
        print(k)
        for l in v:
            print("   ", l)
    print(r["atomic"])
