"""C11, second half of the statement: everything reachable from a snapshot is immutable - every
mutating call raises and changes nothing.

Finite enumeration on the implementation.  For every object reachable from an open read transaction
(the transaction, its version, the node map, the B-tree, the delegation index, nodes, rdatasets, their
item maps) and for every public callable in dir() (plus the operator/container protocol dunders and
attribute assignment) and every argument tuple of a role-specific pool:

  * the same call is made on a *mutable twin* of the object (plain Rdataset / Node / dict / COW copy of
    the B-tree); if the twin's content changes, the call is a mutating call;
  * on the snapshot object a mutating call must raise, and after every call (mutating or not, raising
    or not) a deep dump of the whole snapshot must be unchanged.
"""
import dns.btree
import dns.btreezone
import dns.immutable
import dns.name
import dns.node
import dns.rdata
import dns.rdataclass
import dns.rdataset
import dns.rdatatype
import dns.transaction
import dns.versioned
import dns.zone

IN = dns.rdataclass.IN
T = dns.rdatatype
NONE = T.NONE

DUNDERS = [
    "__setitem__", "__delitem__", "__iadd__", "__ior__", "__iand__", "__isub__", "__ixor__", "__imul__",
]


def N(s):
    return dns.name.from_text(s, None)


def rds(rdtype, ttl, *texts):
    return dns.rdataset.from_text_list("IN", rdtype, ttl, list(texts))


def build(kind):
    """a zone with six committed versions, all retained: nodes last touched in different versions, and - for the
    B-tree zone - delegation points added and removed ABOVE already committed descendants, so that nodes are
    copied only to set / clear the GLUE flag; deletes of names and of rdatasets"""
    Z = (dns.versioned.Zone, dns.btreezone.Zone)[kind]
    z = Z("example.")
    z.set_max_versions(None)
    inputs = [rds("NS", 300, "ns", "ns2"), rds("A", 300, "10.0.0.1", "10.0.0.2"), rds("MX", 300, "10 a", "20 b")]
    z.c11_inputs = inputs   # the caller keeps these objects; mutating them later must not reach a snapshot
    with z.writer(True) as t:
        t.replace("@", rds("SOA", 300, "ns hostmaster 1 7200 900 1209600 300"))
        t.replace("@", inputs[0])
        t.replace("a", inputs[1])
        t.replace("a", rds("AAAA", 60, "::1"))
        t.replace("w", inputs[2])
        t.replace("x.sub", rds("A", 300, "10.0.2.1"))
        t.replace("y.x.sub", rds("A", 300, "10.0.2.2"))
        t.replace("y.x.sub", rds("TXT", 300, '"deep"'))
    with z.writer() as t:
        t.replace("sub", rds("NS", 300, "ns.sub"))      # delegation above x.sub, y.x.sub: glue-flag copies
        t.replace("ns.sub", rds("A", 300, "10.0.1.1"))
        t.update_serial()
    with z.writer() as t:
        t.replace("b", rds("TXT", 300, '"hello" "world"'))
        t.add("a", 300, dns.rdata.from_text("IN", "A", "10.0.0.3"))
        t.update_serial()
    with z.writer() as t:
        t.delete("sub", "NS")                             # un-delegate: flags cleared on the descendants
        t.replace("x.sub", rds("NS", 300, "ns.x.sub"))   # nested: x.sub becomes the delegation point
        t.update_serial()
    with z.writer() as t:
        t.delete("w")
        t.replace("a", rds("AAAA", 60, "::2"))
        t.delete("x.sub", "NS")
        t.update_serial()
    return z


def dump_rds(r):
    return (int(r.rdclass), int(r.rdtype), int(r.covers), r.ttl, tuple(rd.to_text() for rd in r))


def dump_node(n):
    return (getattr(n, "id", None), int(getattr(n, "flags", 0)), tuple(dump_rds(r) for r in n.rdatasets))


def dump_version(v):
    out = [v.id, str(v.origin), type(v).__name__]
    out.append(tuple((k.to_text(), dump_node(n)) for k, n in v.nodes.items()))
    if hasattr(v, "delegations"):
        out.append(tuple(k.to_text() for k in v.delegations))
    return tuple(out)


def dump_zone(z):
    try:
        return tuple(dump_version(v) for v in z._versions)
    except Exception as e:  # noqa  (a snapshot damaged so badly that it cannot be read any more)
        return ("unreadable", type(e).__name__, str(e)[:80])


# ---- twins: a mutable object with the same content ------------------------------------------------


def twin_rdataset(r):
    t = dns.rdataset.Rdataset(r.rdclass, r.rdtype, r.covers, r.ttl)
    for rd in r:
        t.add(rd)
    return t


def twin_node(n):
    if isinstance(n, dns.btreezone.Node):
        t = dns.btreezone.Node(n.flags)
        t.id = n.id
    elif isinstance(n, dns.zone.VersionedNode):
        t = dns.zone.VersionedNode()
        t.id = n.id
    else:
        t = dns.node.Node()
    t.rdatasets = [twin_rdataset(r) for r in n.rdatasets]
    return t


def twin_map(m):
    if isinstance(m, dns.btree.BTreeDict):
        return dns.btree.BTreeDict(original=m)
    return dict(m)


def twin_set(s):
    return dns.btreezone.Delegations(original=s)


def kt(k):
    return k.to_text() if isinstance(k, dns.name.Name) else repr(k)


def dump_map(m):
    try:
        return tuple((kt(k), id(v)) for k, v in m.items())
    except Exception as e:  # noqa  (a twin corrupted by ill-typed arguments: still "changed")
        return ("corrupt", type(e).__name__)


def dump_set(s):
    try:
        return tuple(kt(k) for k in s)
    except Exception as e:  # noqa
        return ("corrupt", type(e).__name__)


def dump_items(d):
    return tuple(repr(k) for k in d)


class Attrs:
    """twin for attribute assignment: any assignment/deletion of an existing public attribute mutates"""


# ---- argument pools --------------------------------------------------------------------------------


def pool_rdataset(r):
    new = {
        T.A: "10.9.9.9", T.AAAA: "::9", T.MX: "99 zz", T.NS: "zz", T.TXT: '"zz"',
        T.SOA: "zz zz 99 7200 900 1209600 300",
    }[r.rdtype]
    rd_new = dns.rdata.from_text(IN, r.rdtype, new)
    rd_old = r[0]
    other_new = dns.rdataset.Rdataset(r.rdclass, r.rdtype, r.covers, 5)
    other_new.add(rd_new)
    other_old = dns.rdataset.Rdataset(r.rdclass, r.rdtype, r.covers, 5)
    other_old.add(rd_old)
    both = dns.rdataset.Rdataset(r.rdclass, r.rdtype, r.covers, 5)
    both.add(rd_old)
    both.add(rd_new)
    empty = dns.rdataset.Rdataset(r.rdclass, r.rdtype, r.covers)
    return [
        (), (rd_new,), (rd_old,), (rd_new, 7), (rd_old, 7), (other_new,), (other_old,), (both,), (empty,),
        (0,), (7,), (-1,), (r,), ([rd_new],), ([rd_old],), (slice(0, 1),), (0, rd_new),
    ]


def pool_node(n):
    have = n.rdatasets[0]
    other = T.MX if have.rdtype != T.MX else T.TXT
    repl_same = dns.rdataset.from_text("IN", T.to_text(have.rdtype), 9,
                                       {T.A: "10.9.9.9", T.AAAA: "::9", T.MX: "99 zz", T.NS: "zz", T.TXT: '"zz"',
                                        T.SOA: "zz zz 99 7200 900 1209600 300"}[have.rdtype])
    repl_other = dns.rdataset.from_text("IN", T.to_text(other), 9, "99 zz" if other == T.MX else '"zz"')
    return [
        (), (IN, have.rdtype), (IN, have.rdtype, NONE), (IN, have.rdtype, NONE, True), (IN, other),
        (IN, other, NONE), (IN, other, NONE, True), (repl_same,), (repl_other,), (have,), (0,), (0, repl_same),
    ]


def pool_map(m, some_node):
    k_old = next(iter(m.keys()))
    k_new = N("zzz-new")
    pool = [
        (), (k_old,), (k_new,), (k_old, some_node), (k_new, some_node), (k_old, None), (k_new, None),
        ({k_new: some_node},), ([(k_new, some_node)],), ({k_old: some_node},),
    ]
    if isinstance(m, dns.btree.BTreeDict):
        pool += [
            (dns.btree.KV(k_new, some_node),), (dns.btree.KV(k_old, some_node),),
            (dns.btree.KV(k_new, some_node), True), (m.get_element(k_old),),
        ]
    return pool


def pool_set(s):
    ks = list(s)
    k_old = ks[0] if ks else N("sub")
    k_new = N("zzz-new")
    return [(), (k_old,), (k_new,), (dns.btree.Member(k_new),), (dns.btree.Member(k_old),),
            (dns.btree.Member(k_new), True), (s.get_element(k_old),) if ks else (k_old,)]


# ---- the enumeration -------------------------------------------------------------------------------


def public_callables(*objs):
    names = set()
    for o in objs:
        for n in dir(o):
            if n.startswith("_") and n not in DUNDERS:
                continue
            try:
                if callable(getattr(o, n)):
                    names.add(n)
            except Exception:  # noqa
                pass
    return sorted(names)


def call(o, name, args):
    try:
        f = getattr(o, name)
    except AttributeError:
        return True
    try:
        res = f(*args)
        # generators do nothing until consumed
        if hasattr(res, "__next__"):
            for _ in res:
                pass
        return False
    except Exception:  # noqa
        return True


def short(x):
    s = repr(x)
    return s if len(s) < 90 else s[:87] + "..."


class Enough(Exception):
    pass


class Enum:
    def __init__(self, ctx, kind, only=None):
        self.ctx = ctx
        self.kind = kind
        self.only = only  # (role, callable) when replaying one reported call
        self.fails = []
        self.evals = 0
        self.mutating = 0
        self.fresh()

    def fresh(self):
        self.z = build(self.kind)
        self.r = self.z.reader()
        self.readers = {}
        self.base = dump_zone(self.z)

    def reader_for(self, vi):
        if vi not in self.readers:
            self.readers[vi] = self.z.reader(id=self.z._versions[vi].id)
        return self.readers[vi]

    def fail(self, what, role, name, args, **kw):
        self.fails.append({
            "kind": "C11:immutability:" + what, "what": what, "sig": (what, role, name),
            "zone": ("dns.versioned.Zone", "dns.btreezone.Zone")[self.kind],
            "object": role, "callable": name, "args": [short(a) for a in args],
            "case": [102, self.kind, role, name], **kw,
        })
        if len(self.fails) >= 10 and not self.only:
            raise Enough()

    def sweep(self, role, get, make_twin, dump_twin, pool, names=None):
        """get() -> the snapshot object (re-fetched after a rebuild)"""
        if self.only and self.only[0] != role:
            return
        o = get()
        tw = make_twin(o)
        for name in names or public_callables(o, tw):
            if self.only and self.only[1] != name:
                continue
            for args in pool:
                t = make_twin(get())
                before = dump_twin(t)
                call(t, name, args)
                mutated = dump_twin(t) != before
                local = dump_twin(get())
                raised = call(get(), name, args)
                self.evals += 1
                self.mutating += mutated
                # cheap check after every call: the object itself; the deep dump of every retained version
                # is compared once per callable (below) and immediately when the object changed
                if dump_twin(get()) != local or (self.only and dump_zone(self.z) != self.base):
                    self.fail("a call changed the snapshot", role, name, args, raised=raised)
                    self.fresh()
                elif mutated and not raised:
                    self.fail("a mutating call did not raise", role, name, args)
            if dump_zone(self.z) != self.base:
                self.fail("a call changed the snapshot", role, name, ("<one of the argument pool>",))
                self.fresh()

    def setattrs(self, role, get, names):
        sentinel = ()
        if self.only and self.only[0] != role:
            return
        for n in names:
            o = get()
            if not hasattr(o, n):
                continue
            for what, f in (("setattr", lambda: setattr(get(), n, sentinel)), ("delattr", lambda: delattr(get(), n))):
                self.evals += 1
                self.mutating += 1
                try:
                    f()
                    raised = False
                except Exception:  # noqa
                    raised = True
                if dump_zone(self.z) != self.base:
                    self.fail("attribute assignment changed the snapshot", role, what, (n,))
                    self.fresh()
                elif not raised:
                    self.fail("attribute assignment did not raise", role, what, (n,))
                    self.fresh()

    def run(self, thorough):
        kind = self.kind
        # --- objects the caller handed to the transaction stay the caller's: mutating them afterwards
        #     must not change any committed version
        if not self.only or self.only[0] == "caller's rdataset":
            for i, r_ in enumerate(self.z.c11_inputs):
                extra = {T.NS: "zz", T.A: "10.9.9.9", T.MX: "99 zz"}[r_.rdtype]
                for name, f in (("add", lambda: r_.add(dns.rdata.from_text(IN, r_.rdtype, extra))),
                                ("update_ttl", lambda: r_.update_ttl(1)), ("clear", lambda: r_.clear())):
                    if self.only and self.only[1] != name:
                        continue
                    f()
                    self.evals += 1
                    self.mutating += 1
                    if dump_zone(self.z) != self.base:
                        self.fail("a call changed the snapshot", "caller's rdataset", name, (short(r_),))
                        self.fresh()
        # --- the read transaction
        for name, args in [
            ("add", ("a", 300, dns.rdata.from_text("IN", "A", "10.9.9.9"))),
            ("replace", ("a", rds("A", 300, "10.9.9.9"))),
            ("delete", ("a",)), ("delete", ("a", "A")), ("delete_exact", ("a", "A")),
            ("update_serial", ()), ("update_serial", (5, False)),
        ]:
            if self.only and self.only != ("read transaction", name):
                continue
            raised = call(self.r, name, args)
            self.evals += 1
            self.mutating += 1
            if dump_zone(self.z) != self.base:
                self.fail("a call changed the snapshot", "read transaction", name, args)
                self.fresh()
            elif not raised:
                self.fail("a mutating call did not raise", "read transaction", name, args)
        # --- every retained version; every node through every access path; every rdataset
        nver = len(self.z._versions)
        seen_nodes, seen_rds = set(), set()
        for vi in range(nver):
            gv = (lambda vi: lambda: self.z._versions[vi])(vi)
            self.setattrs(f"version[{vi}]", gv, ["id", "nodes", "origin", "zone", "delegations", "changed", "zzz"])
            some_node = dns.zone.VersionedNode()
            if thorough or vi in (0, nver - 1):
                self.sweep(f"version[{vi}].nodes", lambda: gv().nodes, twin_map, dump_map,
                           pool_map(gv().nodes, some_node) if len(gv().nodes) else [()])
                if not isinstance(gv().nodes, dns.btree.BTreeDict):
                    self.setattrs(f"version[{vi}].nodes", lambda: gv().nodes, ["_odict", "_hash", "zzz"])
                if kind == 1 and hasattr(gv(), "delegations"):
                    self.sweep(f"version[{vi}].delegations", lambda: gv().delegations, twin_set,
                               dump_set, pool_set(gv().delegations))
                # version's own public callables: none may change anything
                v = gv()
                for name in public_callables(v):
                    if self.only and self.only != (f"version[{vi}]", name):
                        continue
                    for args in [(), (N("a"),), (N("a"), T.A, NONE), ("a",), (N("zzz"),)]:
                        call(gv(), name, args)
                        self.evals += 1
                        if dump_zone(self.z) != self.base:
                            self.fail("a call changed the snapshot", f"version[{vi}]", name, args)
                            self.fresh()
            newest = vi == nver - 1
            for nm in list(gv().nodes.keys()):
                paths = [
                    ("nodes[]", lambda nm=nm: gv().nodes[nm]),
                    ("nodes.get", lambda nm=nm: gv().nodes.get(nm)),
                    ("get_node", lambda nm=nm: gv().get_node(nm)),
                    ("nodes.items", lambda nm=nm: dict(gv().nodes.items())[nm]),
                    ("items", lambda nm=nm: dict(gv().items())[nm]),
                    ("reader(id).get_node", lambda nm=nm: self.reader_for(vi).get_node(nm)),
                ]
                if newest:
                    paths += [
                        ("zone.nodes[]", lambda nm=nm: self.z.nodes[nm]),
                        ("zone.find_node", lambda nm=nm: self.z.find_node(nm)),
                        ("zone.get_node", lambda nm=nm: self.z.get_node(nm)),
                        ("zone[]", lambda nm=nm: self.z[nm]),
                        ("txn.get_node", lambda nm=nm: self.r.get_node(nm)),
                    ]
                for pname, gn in paths:
                    node = gn()
                    if id(node) in seen_nodes and not self.only:
                        continue
                    seen_nodes.add(id(node))
                    role = f"version[{vi}] node {nm.to_text()} via {pname}"
                    if not node.is_immutable():
                        self.fail("a mutating call did not raise", role, "is_immutable", ("-> False",))
                    self.setattrs(role, gn, ["rdatasets", "id", "flags", "zzz"])
                    self.sweep(role, gn, twin_node, dump_node, pool_node(gn()))
                    some = gn().rdatasets[0]
                    self.sweep(role + " .rdatasets", lambda: gn().rdatasets, list, tuple,
                               [(), (some,), (0,), (0, some), ([some],), (slice(0, 1),)])
                    for ri in range(len(gn().rdatasets)):
                        gr = (lambda ri: lambda: gn().rdatasets[ri])(ri)
                        if id(gr()) in seen_rds and not self.only:
                            continue
                        seen_rds.add(id(gr()))
                        rrole = role + " rdataset " + T.to_text(gr().rdtype)
                        self.setattrs(rrole, gr, ["items", "ttl", "rdclass", "rdtype", "covers", "zzz"])
                        self.sweep(rrole, gr, twin_rdataset, dump_rds, pool_rdataset(gr()))
                        self.sweep(rrole + " .items", lambda: gr().items, dict, dump_items,
                                   [(), (gr()[0],), (gr()[0], None), ({1: 2},)])
                        for rdi in range(len(gr())):
                            rd = (lambda rdi: lambda: gr()[rdi])(rdi)
                            slots = [s for c in type(rd()).__mro__ for s in getattr(c, "__slots__", ())]
                            self.setattrs(rrole + " rdata", rd, slots[:6] + ["zzz"])
        # --- what the transaction API hands out
        for nm in ("a", "@", "sub"):
            node = self.r.get_node(N(nm))
            if node is None:
                continue
            if node is not self.r.version.nodes.get(N(nm)):
                self.sweep(f"txn.get_node({nm})", lambda: self.r.get_node(N(nm)), twin_node, dump_node, pool_node(node))
            for r_ in node.rdatasets:
                g = self.r.get(N(nm), r_.rdtype)
                if g is not r_:
                    self.sweep(f"txn.get({nm},{T.to_text(r_.rdtype)})", lambda: self.r.get(N(nm), r_.rdtype),
                               twin_rdataset, dump_rds, pool_rdataset(r_))
        for name, r_ in [] if self.only else list(self.r.iterate_rdatasets())[:4]:
            if not isinstance(r_, dns.rdataset.ImmutableRdataset):
                self.fail("a mutating call did not raise", "txn.iterate_rdatasets()", "<type>", (short(r_),))
        # --- the zone's own read accessors
        z = self.z
        for nm, ty in (("a", T.A), ("@", T.SOA)):
            self.sweep(f"zone.get_rdataset({nm})", lambda: z.get_rdataset(nm, ty), twin_rdataset, dump_rds,
                       pool_rdataset(z.get_rdataset(nm, ty)))
            self.sweep(f"zone.find_node({nm})", lambda: z.find_node(nm), twin_node, dump_node, pool_node(z.find_node(nm)))
        for name, args in [
            ("find_node", ("a", True)), ("find_node", ("zzz", True)), ("get_node", ("zzz", True)),
            ("delete_node", ("a",)),
            ("find_rdataset", ("a", "MX", NONE, True)), ("get_rdataset", ("a", "MX", NONE, True)),
            ("delete_rdataset", ("a", "A")), ("replace_rdataset", ("a", rds("A", 300, "10.9.9.9"))),
            ("__setitem__", (N("a"), dns.zone.VersionedNode())), ("__delitem__", (N("a"),)),
        ]:
            if self.only and self.only != ("zone", name):
                continue
            raised = call(z, name, args)
            self.evals += 1
            self.mutating += 1
            if dump_zone(z) != self.base:
                self.fail("a call changed the snapshot", "zone", name, args)
                self.fresh()
            elif not raised:
                self.fail("a mutating call did not raise", "zone", name, args)


def replay(case):
    """re-run the calls of one reported (object role, callable) pair; returns the failures found"""
    _, kind, role, name = case
    role = role.decode("latin-1") if isinstance(role, bytes) else role
    name = name.decode("latin-1") if isinstance(name, bytes) else name
    e = Enum(None, kind, only=(role, name))
    e.run(True)
    return e.fails


def big_snapshots(ctx):
    """snapshot isolation on zones large enough for a multi-level B-tree (t = 127): readers opened at
    different versions must keep reading exactly what they read when opened while later transactions add,
    replace and delete hundreds of names (node splits, merges and copy-on-write below the root)"""
    fails = []
    rng = ctx.rng
    n0 = ctx.n(600, 1500)
    for kind in (0, 1):
        Z = (dns.versioned.Zone, dns.btreezone.Zone)[kind]
        z = Z("example.")
        names = [N("h%04d" % i) for i in range(n0)]
        with z.writer(True) as t:
            t.replace("@", rds("SOA", 300, "ns hostmaster 1 7200 900 1209600 300"))
            for i, nm in enumerate(names):
                t.replace(nm, rds("A", 300, "10.1.%d.%d" % (i >> 8, i & 255)))
        held = []

        def snap(txn):
            return tuple((nm.to_text(), dump_rds(r)) for nm, r in sorted(txn.iterate_rdatasets(), key=lambda x: x[0]))

        live = list(names)
        for rnd in range(ctx.n(5, 10)):
            txn = z.reader()
            held.append((txn, snap(txn), z._versions[-1].id))
            with z.writer() as t:
                rng.shuffle(live)
                gone, live = live[: len(live) // 3], live[len(live) // 3:]
                for nm in gone:
                    t.delete(nm)
                for nm in live[: len(live) // 4]:
                    t.replace(nm, rds("A", 300, "10.2.%d.%d" % (rnd, rng.randrange(256))))
                fresh = [N("g%d-%04d" % (rnd, i)) for i in range(n0 // 3)]
                for nm in fresh:
                    t.replace(nm, rds("A", 300, "10.3.0.1"))
                live += fresh
                t.update_serial()
            for txn_, s0, vid in held:
                if snap(txn_) != s0:
                    fails.append({
                        "kind": "C11:snapshot-isolation:large zone", "sig": "big-snapshot",
                        "what": "a reader's snapshot changed after a later commit on a large zone",
                        "zone": Z.__module__ + ".Zone", "reader_version": vid, "after_round": rnd, "names": len(live),
                    })
                    return fails
            if len(held) > 2 and rng.random() < 0.6:
                held.pop(rng.randrange(len(held)))[0].rollback()
        ctx.notes["big_snapshot_rounds"] = ctx.notes.get("big_snapshot_rounds", 0) + rnd + 1
    return fails


# ---------------------------------------------------------------------------------------------------
# snapshot isolation of B-tree zones under many small commits (copy-on-write of FULL nodes that are
# still shared with older versions: splits, steals, merges), node map AND delegation index

_SMALL = {}


def small_zone_classes(t):
    """dns.btreezone.Zone (t = 0: the default t = 127) or a subclass whose node map and whose delegation index
    are B-trees with a small t, so that full nodes and multi-level trees occur after a handful of inserts"""
    if t == 0:
        return dns.btreezone.Zone, dns.btreezone.Delegations
    if t not in _SMALL:
        base = dns.btreezone.Delegations

        class SmallDelegations(base):
            def __init__(self, *, original=None, **kw):
                if original is not None:
                    super().__init__(original=original)
                else:
                    super().__init__(t=t)

        def mf():
            return dns.btree.BTreeDict(t=t)

        class SmallZone(dns.btreezone.Zone):
            map_factory = staticmethod(mf)

        _SMALL[t] = (SmallZone, SmallDelegations)
    return _SMALL[t]


def version_snapshot(v, sample):
    """everything a reader of version v can learn: every node (flags, rdatasets), the delegation index, and
    what bounds() answers for a sample of names"""
    nodes = tuple((k.to_text(), dump_node(n)) for k, n in v.nodes.items())
    dels = tuple(k.to_text() for k in v.delegations)
    bounds = []
    for nm in sample:
        try:
            b = v.bounds(nm)
            bounds.append((nm.to_text(), b.is_delegation, b.is_equal, b.left.to_text(),
                           None if b.right is None else b.right.to_text(), b.closest_encloser.to_text()))
        except Exception as e:  # noqa
            bounds.append((nm.to_text(), "raised " + type(e).__name__))
    # the indexes must also still be consistent with each other
    cuts = tuple(k.to_text() for k, n in v.nodes.items() if n.is_delegation())
    return (nodes, dels, tuple(bounds), cuts)


def btree_isolation(t, seed, ncommits, window, mode="mixed"):
    """grow / shrink a B-tree zone by single-operation commits; after EVERY commit every retained version must
    still give exactly the snapshot it gave when it was committed.  Returns a failure dict or None."""
    import random
    rng = random.Random(seed)
    zcls, dcls = small_zone_classes(t)
    saved = dns.btreezone.Delegations
    dns.btreezone.Delegations = dcls
    try:
        z = zcls("example.")
        z.set_max_versions(window)
        delegs, plain = [], []
        counter = [0]
        with z.writer() as txn:
            txn.replace("@", rds("SOA", 300, "ns hostmaster 1 7200 900 1209600 300"))
            txn.replace("@", rds("NS", 300, "ns"))
            if mode == "ascending":
                # the integrator's shape: a first transaction loads delegations in ascending order
                for i in range(250 if t == 0 else 4 * t):
                    nm = N("d%05d" % i)
                    txn.replace(nm, rds("NS", 300, "ns1.d%05d" % i))
                    delegs.append(nm)
                counter[0] = len(delegs)
        recorded = {}

        def sample_names():
            out = []
            for nm in (delegs[-12:] + delegs[:: max(1, len(delegs) // 12)])[:24]:
                out.append(nm)
                out.append(N("www." + nm.to_text()))
            out += plain[-4:]
            return out

        for c in range(ncommits):
            with z.writer() as txn:
                for _ in range(1 if rng.random() < 0.8 else rng.choice([2, 3])):
                    r = rng.random()
                    if mode == "ascending" or r < 0.55 or not delegs:
                        i = counter[0]
                        counter[0] += 1
                        # ascending names fill the right-most leaf; random ones hit interior full nodes
                        nm = N("d%05d" % i) if (mode == "ascending" or rng.random() < 0.5) else \
                            N("d%05d" % rng.randrange(100000))
                        if nm not in delegs:
                            txn.replace(nm, rds("NS", 300, "ns1." + nm.to_text()))
                            delegs.append(nm)
                    elif r < 0.70:
                        nm = N("p%04d" % rng.randrange(10000))
                        txn.replace(nm, rds("A", 300, "10.5.0.1"))
                        if nm not in plain:
                            plain.append(nm)
                    elif r < 0.80:
                        d = rng.choice(delegs)
                        txn.replace(N("g%d." % rng.randrange(3) + d.to_text()), rds("A", 300, "10.6.0.1"))
                    elif r < 0.90:
                        d = delegs.pop(rng.randrange(len(delegs)))
                        if rng.random() < 0.5:
                            txn.delete(d)
                        else:
                            txn.delete(d, "NS")
                    elif plain:
                        txn.delete(plain.pop(rng.randrange(len(plain))))
                txn.update_serial()
            sample = sample_names()
            newest = z._versions[-1]
            recorded[newest.id] = (sample, version_snapshot(newest, sample))
            for v in z._versions:
                if v.id not in recorded:
                    continue
                smp, snap = recorded[v.id]
                now = version_snapshot(v, smp)
                if now != snap:
                    part = ["nodes", "delegation index", "bounds()", "delegation flags"][
                        next(i for i in range(4) if now[i] != snap[i])]
                    detail = None
                    if part == "delegation index":
                        detail = {"lost": sorted(set(snap[1]) - set(now[1]))[:5], "n_lost": len(set(snap[1]) - set(now[1]))}
                    elif part == "bounds()":
                        detail = [(a, b) for a, b in zip(snap[2], now[2]) if a != b][:2]
                    return {"what": "a committed version changed after a later commit (" + part + ")",
                            "version": v.id, "after_commit": c, "newest": newest.id, "t": t or 127,
                            "delegations": len(delegs), "detail": detail}
            for vid in [k for k in recorded if k < z._versions[0].id]:
                del recorded[vid]
        return None
    finally:
        dns.btreezone.Delegations = saved


def btree_isolation_check(ctx):
    fails = []
    runs = []
    if ctx.quick:
        plan = [(3, 11, 110, 6, "mixed"), (4, 12, 90, 6, "mixed"), (3, 13, 45, 5, "ascending")]
    else:
        plan = [(3, 11, 400, 12, "mixed"), (4, 12, 400, 12, "mixed"), (5, 14, 400, 12, "mixed"),
                (3, 13, 150, 8, "ascending"), (4, 15, 150, 8, "ascending"),
                (0, 16, 140, 3, "ascending")]   # default t = 127: 250 delegations, then one per commit
    for t, seed, n, window, mode in plan:
        seed = seed + 100 * ctx.seed
        f = btree_isolation(t, seed, n, window, mode)
        runs.append(f"t={t or 127} {mode} {n} commits, last {window} versions compared after every commit")
        if f is not None:
            fails.append({"kind": "C11:snapshot-isolation:" + f["what"], "sig": "btree-isolation", **f,
                          "zone": "dns.btreezone.Zone", "case": [103, t, seed, n, window, mode]})
            break
    ctx.notes["btree_isolation_runs"] = runs
    return fails


def replay_isolation(case):
    _, t, seed, n, window, mode = case
    mode = mode.decode("latin-1") if isinstance(mode, bytes) else mode
    return btree_isolation(t, seed, n, window, mode)


def check(ctx):
    fails = []
    evals = mut = 0
    for kind in (0, 1):
        try:
            e = Enum(ctx, kind)
        except Exception as ex:  # noqa
            import traceback
            fails.append({"kind": "C11:immutability:building the zone raised", "what": "building a versioned zone raised",
                          "sig": "build", "text": traceback.format_exc()[-1500:]})
            continue
        try:
            e.run(not ctx.quick)
        except Enough:
            pass
        except Exception as ex:  # noqa
            import traceback
            e.fails.append({"kind": "C11:immutability:enumeration crashed", "what": "enumeration crashed",
                            "sig": "crash", "text": traceback.format_exc()[-1500:]})
        fails += e.fails
        evals += e.evals
        mut += e.mutating
    try:
        fails += big_snapshots(ctx)
        fails += btree_isolation_check(ctx)
    except Exception as ex:  # noqa
        import traceback
        fails.append({"kind": "C11:snapshot-isolation:crashed", "what": "large-zone snapshot check crashed",
                      "sig": "big-crash", "text": traceback.format_exc()[-1500:]})
    ctx.notes["extra_evaluations"] = ctx.notes.get("extra_evaluations", 0) + evals
    ctx.notes["extra_nontrivial"] = ctx.notes.get("extra_nontrivial", 0) + mut
    ctx.notes["immutability_calls"] = evals
    ctx.notes["immutability_mutating_calls"] = mut
    # report one failure per (what, role-type, callable)
    seen = set()
    out = []
    for f in fails:
        obj = f.get("object", "")
        shape = "rdataset" if " rdataset " in obj else "node" if " node " in obj else obj.split("[")[0]
        key = (f.get("what"), f.get("callable"), shape, f.get("zone"))
        if key in seen:
            continue
        seen.add(key)
        f["sig"] = repr(key)
        out.append(f)
    return out
