"""C11, second half of the statement: everything reachable from a snapshot is immutable - every
mutating call raises and changes nothing.

Finite enumeration on the implementation.  For every object reachable from an open read transaction
(the transaction, its version, the node map, the B-tree, the delegation index, nodes, rdatasets, their
item maps) and for every public callable in dir() (plus the operator/container protocol dunders and
attribute assignment) and every argument tuple of a role-specific pool:

  * the same call is made on a *mutable twin* of the object (plain Rdataset / Node / dict / COW copy of
    the B-tree); if the twin's content changes, the call is a mutating call;
  * on the snapshot object a mutating call must raise, and after every call (mutating or not, raising
    or not) a deep dump of the whole snapshot must be unchanged.
"""
import dns.btree
import dns.btreezone
import dns.immutable
import dns.name
import dns.node
import dns.rdata
import dns.rdataclass
import dns.rdataset
import dns.rdatatype
import dns.transaction
import dns.versioned
import dns.zone

IN = dns.rdataclass.IN
T = dns.rdatatype
NONE = T.NONE

DUNDERS = [
    "__setitem__", "__delitem__", "__iadd__", "__ior__", "__iand__", "__isub__", "__ixor__", "__imul__",
]


def N(s):
    return dns.name.from_text(s, None)


def rds(rdtype, ttl, *texts):
    return dns.rdataset.from_text_list("IN", rdtype, ttl, list(texts))


def build(kind):
    """a zone with four committed versions; nodes last touched in different versions"""
    Z = (dns.versioned.Zone, dns.btreezone.Zone)[kind]
    z = Z("example.")
    z.set_max_versions(None)
    with z.writer(True) as t:
        t.replace("@", rds("SOA", 300, "ns hostmaster 1 7200 900 1209600 300"))
        t.replace("@", rds("NS", 300, "ns", "ns2"))
        t.replace("a", rds("A", 300, "10.0.0.1", "10.0.0.2"))
        t.replace("a", rds("AAAA", 60, "::1"))
        t.replace("w", rds("MX", 300, "10 a", "20 b"))
    with z.writer() as t:
        t.replace("sub", rds("NS", 300, "ns.sub"))
        t.replace("ns.sub", rds("A", 300, "10.0.1.1"))
        t.update_serial()
    with z.writer() as t:
        t.replace("b", rds("TXT", 300, '"hello" "world"'))
        t.add("a", 300, dns.rdata.from_text("IN", "A", "10.0.0.3"))
        t.update_serial()
    return z


def dump_rds(r):
    return (int(r.rdclass), int(r.rdtype), int(r.covers), r.ttl, tuple(rd.to_text() for rd in r))


def dump_node(n):
    return (getattr(n, "id", None), int(getattr(n, "flags", 0)), tuple(dump_rds(r) for r in n.rdatasets))


def dump_version(v):
    out = [v.id, str(v.origin), type(v).__name__]
    out.append(tuple((k.to_text(), dump_node(n)) for k, n in v.nodes.items()))
    if hasattr(v, "delegations"):
        out.append(tuple(k.to_text() for k in v.delegations))
    return tuple(out)


def dump_zone(z):
    try:
        return tuple(dump_version(v) for v in z._versions)
    except Exception as e:  # noqa  (a snapshot damaged so badly that it cannot be read any more)
        return ("unreadable", type(e).__name__, str(e)[:80])


# ---- twins: a mutable object with the same content ------------------------------------------------


def twin_rdataset(r):
    t = dns.rdataset.Rdataset(r.rdclass, r.rdtype, r.covers, r.ttl)
    for rd in r:
        t.add(rd)
    return t


def twin_node(n):
    if isinstance(n, dns.btreezone.Node):
        t = dns.btreezone.Node(n.flags)
        t.id = n.id
    elif isinstance(n, dns.zone.VersionedNode):
        t = dns.zone.VersionedNode()
        t.id = n.id
    else:
        t = dns.node.Node()
    t.rdatasets = [twin_rdataset(r) for r in n.rdatasets]
    return t


def twin_map(m):
    if isinstance(m, dns.btree.BTreeDict):
        return dns.btree.BTreeDict(original=m)
    return dict(m)


def twin_set(s):
    return dns.btreezone.Delegations(original=s)


def kt(k):
    return k.to_text() if isinstance(k, dns.name.Name) else repr(k)


def dump_map(m):
    try:
        return tuple((kt(k), id(v)) for k, v in m.items())
    except Exception as e:  # noqa  (a twin corrupted by ill-typed arguments: still "changed")
        return ("corrupt", type(e).__name__)


def dump_set(s):
    try:
        return tuple(kt(k) for k in s)
    except Exception as e:  # noqa
        return ("corrupt", type(e).__name__)


def dump_items(d):
    return tuple(repr(k) for k in d)


class Attrs:
    """twin for attribute assignment: any assignment/deletion of an existing public attribute mutates"""


# ---- argument pools --------------------------------------------------------------------------------


def pool_rdataset(r):
    new = {
        T.A: "10.9.9.9", T.AAAA: "::9", T.MX: "99 zz", T.NS: "zz", T.TXT: '"zz"',
        T.SOA: "zz zz 99 7200 900 1209600 300",
    }[r.rdtype]
    rd_new = dns.rdata.from_text(IN, r.rdtype, new)
    rd_old = r[0]
    other_new = dns.rdataset.Rdataset(r.rdclass, r.rdtype, r.covers, 5)
    other_new.add(rd_new)
    other_old = dns.rdataset.Rdataset(r.rdclass, r.rdtype, r.covers, 5)
    other_old.add(rd_old)
    both = dns.rdataset.Rdataset(r.rdclass, r.rdtype, r.covers, 5)
    both.add(rd_old)
    both.add(rd_new)
    empty = dns.rdataset.Rdataset(r.rdclass, r.rdtype, r.covers)
    return [
        (), (rd_new,), (rd_old,), (rd_new, 7), (rd_old, 7), (other_new,), (other_old,), (both,), (empty,),
        (0,), (7,), (-1,), (r,), ([rd_new],), ([rd_old],), (slice(0, 1),), (0, rd_new),
    ]


def pool_node(n):
    have = n.rdatasets[0]
    other = T.MX if have.rdtype != T.MX else T.TXT
    repl_same = dns.rdataset.from_text("IN", T.to_text(have.rdtype), 9,
                                       {T.A: "10.9.9.9", T.AAAA: "::9", T.MX: "99 zz", T.NS: "zz", T.TXT: '"zz"',
                                        T.SOA: "zz zz 99 7200 900 1209600 300"}[have.rdtype])
    repl_other = dns.rdataset.from_text("IN", T.to_text(other), 9, "99 zz" if other == T.MX else '"zz"')
    return [
        (), (IN, have.rdtype), (IN, have.rdtype, NONE), (IN, have.rdtype, NONE, True), (IN, other),
        (IN, other, NONE), (IN, other, NONE, True), (repl_same,), (repl_other,), (have,), (0,), (0, repl_same),
    ]


def pool_map(m, some_node):
    k_old = next(iter(m.keys()))
    k_new = N("zzz-new")
    pool = [
        (), (k_old,), (k_new,), (k_old, some_node), (k_new, some_node), (k_old, None), (k_new, None),
        ({k_new: some_node},), ([(k_new, some_node)],), ({k_old: some_node},),
    ]
    if isinstance(m, dns.btree.BTreeDict):
        pool += [
            (dns.btree.KV(k_new, some_node),), (dns.btree.KV(k_old, some_node),),
            (dns.btree.KV(k_new, some_node), True), (m.get_element(k_old),),
        ]
    return pool


def pool_set(s):
    ks = list(s)
    k_old = ks[0] if ks else N("sub")
    k_new = N("zzz-new")
    return [(), (k_old,), (k_new,), (dns.btree.Member(k_new),), (dns.btree.Member(k_old),),
            (dns.btree.Member(k_new), True), (s.get_element(k_old),) if ks else (k_old,)]


# ---- the enumeration -------------------------------------------------------------------------------


def public_callables(*objs):
    names = set()
    for o in objs:
        for n in dir(o):
            if n.startswith("_") and n not in DUNDERS:
                continue
            try:
                if callable(getattr(o, n)):
                    names.add(n)
            except Exception:  # noqa
                pass
    return sorted(names)


def call(o, name, args):
    try:
        f = getattr(o, name)
    except AttributeError:
        return True
    try:
        res = f(*args)
        # generators do nothing until consumed
        if hasattr(res, "__next__"):
            for _ in res:
                pass
        return False
    except Exception:  # noqa
        return True


def short(x):
    s = repr(x)
    return s if len(s) < 90 else s[:87] + "..."


class Enum:
    def __init__(self, ctx, kind, only=None):
        self.ctx = ctx
        self.kind = kind
        self.only = only  # (role, callable) when replaying one reported call
        self.fails = []
        self.evals = 0
        self.mutating = 0
        self.fresh()

    def fresh(self):
        self.z = build(self.kind)
        self.r = self.z.reader()
        self.base = dump_zone(self.z)

    def fail(self, what, role, name, args, **kw):
        self.fails.append({
            "kind": "C11:immutability:" + what, "what": what, "sig": (what, role, name),
            "zone": ("dns.versioned.Zone", "dns.btreezone.Zone")[self.kind],
            "object": role, "callable": name, "args": [short(a) for a in args],
            "case": [2, self.kind, role, name], **kw,
        })

    def sweep(self, role, get, make_twin, dump_twin, pool, names=None):
        """get() -> the snapshot object (re-fetched after a rebuild)"""
        if self.only and self.only[0] != role:
            return
        o = get()
        tw = make_twin(o)
        for name in names or public_callables(o, tw):
            if self.only and self.only[1] != name:
                continue
            for args in pool:
                t = make_twin(get())
                before = dump_twin(t)
                call(t, name, args)
                mutated = dump_twin(t) != before
                raised = call(get(), name, args)
                self.evals += 1
                self.mutating += mutated
                if dump_zone(self.z) != self.base:
                    self.fail("a call changed the snapshot", role, name, args, raised=raised)
                    self.fresh()
                elif mutated and not raised:
                    self.fail("a mutating call did not raise", role, name, args)

    def setattrs(self, role, get, names):
        sentinel = ()
        if self.only and self.only[0] != role:
            return
        for n in names:
            o = get()
            if not hasattr(o, n):
                continue
            for what, f in (("setattr", lambda: setattr(get(), n, sentinel)), ("delattr", lambda: delattr(get(), n))):
                self.evals += 1
                self.mutating += 1
                try:
                    f()
                    raised = False
                except Exception:  # noqa
                    raised = True
                if dump_zone(self.z) != self.base:
                    self.fail("attribute assignment changed the snapshot", role, what, (n,))
                    self.fresh()
                elif not raised:
                    self.fail("attribute assignment did not raise", role, what, (n,))
                    self.fresh()

    def run(self, thorough):
        kind = self.kind
        # --- the read transaction
        for name, args in [
            ("add", ("a", 300, dns.rdata.from_text("IN", "A", "10.9.9.9"))),
            ("replace", ("a", rds("A", 300, "10.9.9.9"))),
            ("delete", ("a",)), ("delete", ("a", "A")), ("delete_exact", ("a", "A")),
            ("update_serial", ()), ("update_serial", (5, False)),
        ]:
            if self.only and self.only != ("read transaction", name):
                continue
            raised = call(self.r, name, args)
            self.evals += 1
            self.mutating += 1
            if dump_zone(self.z) != self.base:
                self.fail("a call changed the snapshot", "read transaction", name, args)
                self.fresh()
            elif not raised:
                self.fail("a mutating call did not raise", "read transaction", name, args)
        # --- every retained version (the reader's and the older ones), the zone's view
        nver = len(self.z._versions)
        for vi in range(nver) if thorough else (nver - 1, 0):
            gv = (lambda vi: lambda: self.z._versions[vi])(vi)
            self.setattrs(f"version[{vi}]", gv, ["id", "nodes", "origin", "zone", "delegations", "changed", "zzz"])
            some_node = dns.zone.VersionedNode()
            self.sweep(f"version[{vi}].nodes", lambda: gv().nodes, twin_map, dump_map,
                       pool_map(gv().nodes, some_node) if len(gv().nodes) else [()])
            if not isinstance(gv().nodes, dns.btree.BTreeDict):
                self.setattrs(f"version[{vi}].nodes", lambda: gv().nodes, ["_odict", "_hash", "zzz"])
            if kind == 1 and hasattr(gv(), "delegations"):
                self.sweep(f"version[{vi}].delegations", lambda: gv().delegations, twin_set,
                           dump_set, pool_set(gv().delegations))
            # version's own public callables: none may change anything
            v = gv()
            for name in public_callables(v):
                if self.only and self.only != (f"version[{vi}]", name):
                    continue
                for args in [(), (N("a"),), (N("a"), T.A, NONE), ("a",), (N("zzz"),)]:
                    call(gv(), name, args)
                    self.evals += 1
                    if dump_zone(self.z) != self.base:
                        self.fail("a call changed the snapshot", f"version[{vi}]", name, args)
                        self.fresh()
            names = list(gv().nodes.keys())
            for nm in names if thorough else names[:3]:
                gn = (lambda nm: lambda: gv().nodes[nm])(nm)
                role = f"version[{vi}] node {nm.to_text()}"
                self.setattrs(role, gn, ["rdatasets", "id", "flags", "zzz"])
                self.sweep(role, gn, twin_node, dump_node, pool_node(gn()))
                for ri in range(len(gn().rdatasets)):
                    gr = (lambda ri: lambda: gn().rdatasets[ri])(ri)
                    rrole = role + " rdataset " + T.to_text(gr().rdtype)
                    self.setattrs(rrole, gr, ["items", "ttl", "rdclass", "rdtype", "covers", "zzz"])
                    self.sweep(rrole, gr, twin_rdataset, dump_rds, pool_rdataset(gr()))
                    self.sweep(rrole + " .items", lambda: gr().items, dict, dump_items,
                               [(), (gr()[0],), (gr()[0], None), ({1: 2},)])
                    for rdi in range(len(gr())):
                        rd = (lambda rdi: lambda: gr()[rdi])(rdi)
                        slots = [s for c in type(rd()).__mro__ for s in getattr(c, "__slots__", ())]
                        self.setattrs(rrole + " rdata", rd, slots[:6] + ["zzz"])
        # --- what the transaction API hands out
        for nm in ("a", "@", "sub"):
            node = self.r.get_node(N(nm))
            if node is None:
                continue
            if node is not self.r.version.nodes.get(N(nm)):
                self.sweep(f"txn.get_node({nm})", lambda: self.r.get_node(N(nm)), twin_node, dump_node, pool_node(node))
            for r_ in node.rdatasets:
                g = self.r.get(N(nm), r_.rdtype)
                if g is not r_:
                    self.sweep(f"txn.get({nm},{T.to_text(r_.rdtype)})", lambda: self.r.get(N(nm), r_.rdtype),
                               twin_rdataset, dump_rds, pool_rdataset(r_))
        for name, r_ in [] if self.only else list(self.r.iterate_rdatasets())[:4]:
            if not isinstance(r_, dns.rdataset.ImmutableRdataset):
                self.fail("a mutating call did not raise", "txn.iterate_rdatasets()", "<type>", (short(r_),))
        # --- the zone's own read accessors
        z = self.z
        for nm, ty in (("a", T.A), ("@", T.SOA)):
            self.sweep(f"zone.get_rdataset({nm})", lambda: z.get_rdataset(nm, ty), twin_rdataset, dump_rds,
                       pool_rdataset(z.get_rdataset(nm, ty)))
            self.sweep(f"zone.find_node({nm})", lambda: z.find_node(nm), twin_node, dump_node, pool_node(z.find_node(nm)))
        for name, args in [
            ("find_node", ("a", True)), ("find_node", ("zzz", True)), ("delete_node", ("a",)),
            ("find_rdataset", ("a", "MX", NONE, True)), ("get_rdataset", ("a", "MX", NONE, True)),
            ("delete_rdataset", ("a", "A")), ("replace_rdataset", ("a", rds("A", 300, "10.9.9.9"))),
            ("__setitem__", (N("a"), dns.zone.VersionedNode())), ("__delitem__", (N("a"),)),
        ]:
            if self.only and self.only != ("zone", name):
                continue
            raised = call(z, name, args)
            self.evals += 1
            self.mutating += 1
            if dump_zone(z) != self.base:
                self.fail("a call changed the snapshot", "zone", name, args)
                self.fresh()
            elif not raised:
                self.fail("a mutating call did not raise", "zone", name, args)


def replay(case):
    """re-run the calls of one reported (object role, callable) pair; returns the failures found"""
    _, kind, role, name = case
    role = role.decode("latin-1") if isinstance(role, bytes) else role
    name = name.decode("latin-1") if isinstance(name, bytes) else name
    e = Enum(None, kind, only=(role, name))
    e.run(True)
    return e.fails


def check(ctx):
    fails = []
    evals = mut = 0
    for kind in (0, 1):
        try:
            e = Enum(ctx, kind)
        except Exception as ex:  # noqa
            import traceback
            fails.append({"kind": "C11:immutability:building the zone raised", "what": "building a versioned zone raised",
                          "sig": "build", "text": traceback.format_exc()[-1500:]})
            continue
        try:
            e.run(not ctx.quick)
        except Exception as ex:  # noqa
            import traceback
            e.fails.append({"kind": "C11:immutability:enumeration crashed", "what": "enumeration crashed",
                            "sig": "crash", "text": traceback.format_exc()[-1500:]})
        fails += e.fails
        evals += e.evals
        mut += e.mutating
    ctx.notes["extra_evaluations"] = ctx.notes.get("extra_evaluations", 0) + evals
    ctx.notes["extra_nontrivial"] = ctx.notes.get("extra_nontrivial", 0) + mut
    ctx.notes["immutability_calls"] = evals
    ctx.notes["immutability_mutating_calls"] = mut
    # report one failure per (what, role-type, callable)
    seen = set()
    out = []
    for f in fails:
        key = (f.get("what"), f.get("callable"), f.get("object", "").split(" ")[0], f.get("zone"))
        if key in seen:
            continue
        seen.add(key)
        f["sig"] = repr(key)
        out.append(f)
    return out
