def check(ctx):
    return []
