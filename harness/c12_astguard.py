"""C12 - structural premise of the model, re-read from the source on every run (fail closed):

every access to the shared fields of dns.versioned.Zone
    _versions  _readers  _write_txn  _write_event  _write_waiters  _pruning_policy
is (a) lexically inside `with self._version_lock:`, or (b) inside a method named *_unlocked all of whose
call sites satisfy (a)/(b)/(c), or (c) inside __init__ (the object is not shared yet), or one of the
documented lock-free reads, which the model has as separate steps / which only the admitted writer makes:
    Zone._get_next_version_id                 reads  self._versions
    dns.btreezone.WritableVersion.__init__    reads  zone._versions[-1]
    Zone.writer, after the admission loop     reads  self._write_txn  (its own transaction)
    the policy closure of set_max_versions    reads  zone._versions   (only ever called by the prune loop)
and no Event.wait() happens inside a `with self._version_lock:` block; the only wait is `event.wait()` in
writer(), without a timeout.

The lock-free reads are pinned to their exact SHAPE: the model's argument (`latest_stable_for_writer`) is that
only the admitted writer appends and pruning never removes the newest version, so a lock-free read is safe only
if it reads the NEWEST version in one indexing operation.  Outside the lock `_versions` may therefore only occur
as `<zone>._versions[-1]` or as `len(<zone>._versions) > 0` (emptiness test); any other use - a stored length,
index arithmetic, iteration, slicing - is a guard failure.
"""
import ast
import os

FIELDS = {"_versions", "_readers", "_write_txn", "_write_event", "_write_waiters", "_pruning_policy"}


def repo():
    return os.environ.get("VERIF_REPO", "/repo")


def is_lock_with(node):
    if not isinstance(node, ast.With):
        return False
    for item in node.items:
        e = item.context_expr
        if isinstance(e, ast.Attribute) and e.attr == "_version_lock":
            return True
    return False


def lockfree_shape_ok(node, parents):
    """node: an ast.Attribute `x._versions` read outside the lock"""
    par = parents.get(id(node))
    # x._versions[-1]
    if isinstance(par, ast.Subscript) and par.value is node and isinstance(par.ctx, ast.Load):
        sl = par.slice
        if isinstance(sl, ast.UnaryOp) and isinstance(sl.op, ast.USub) and isinstance(sl.operand, ast.Constant) \
                and sl.operand.value == 1:
            return True
        return False
    # len(x._versions) > 0   /   len(x._versions) > <name>   only directly as a comparison operand
    if isinstance(par, ast.Call) and isinstance(par.func, ast.Name) and par.func.id == "len" and par.args == [node]:
        gp = parents.get(id(par))
        if isinstance(gp, ast.Compare) and gp.left is par and len(gp.ops) == 1 and isinstance(gp.ops[0], ast.Gt):
            return True
    return False


class Visitor(ast.NodeVisitor):
    def __init__(self, fname):
        self.fname = fname
        self.nodes = {}
        self.stack = []        # enclosing function names
        self.lock_depth = 0
        self.cls = []
        self.accesses = []     # (field, func path, lineno, locked, store, base name)
        self.unlocked_calls = []  # (callee, func path, lineno, locked)
        self.waits_under_lock = []
        self.timed_waits = []

    def visit_ClassDef(self, node):
        self.cls.append(node.name)
        self.generic_visit(node)
        self.cls.pop()

    def visit_FunctionDef(self, node):
        self.stack.append(node.name)
        saved = self.lock_depth
        if len(self.stack) > 1:
            # a nested function does not run where it is defined
            self.lock_depth = 0
        self.generic_visit(node)
        self.lock_depth = saved
        self.stack.pop()

    visit_AsyncFunctionDef = visit_FunctionDef

    def visit_Lambda(self, node):
        self.stack.append("<lambda>")
        saved = self.lock_depth
        self.lock_depth = 0
        self.generic_visit(node)
        self.lock_depth = saved
        self.stack.pop()

    def visit_With(self, node):
        if is_lock_with(node):
            for item in node.items:
                self.visit(item)
            self.lock_depth += 1
            for b in node.body:
                self.visit(b)
            self.lock_depth -= 1
        else:
            self.generic_visit(node)

    def visit_Attribute(self, node):
        if node.attr in FIELDS:
            base = node.value.id if isinstance(node.value, ast.Name) else "?"
            self.accesses.append((node.attr, tuple(self.cls), tuple(self.stack), node.lineno, self.lock_depth > 0,
                                  isinstance(node.ctx, (ast.Store, ast.Del)), base))
            self.nodes[(node.lineno, node.col_offset)] = node
        self.generic_visit(node)

    def visit_Call(self, node):
        f = node.func
        if isinstance(f, ast.Attribute):
            if f.attr.endswith("_unlocked"):
                self.unlocked_calls.append((f.attr, tuple(self.cls), tuple(self.stack), node.lineno, self.lock_depth > 0))
            if f.attr == "wait" and self.lock_depth > 0:
                self.waits_under_lock.append((tuple(self.stack), node.lineno))
            if f.attr == "wait" and (node.args or node.keywords):
                self.timed_waits.append((tuple(self.stack), node.lineno))
        self.generic_visit(node)


def guard():
    """returns (ok, problems, facts)"""
    problems = []
    facts = {}
    root = repo()
    files = []
    for dirpath, _, fs in os.walk(os.path.join(root, "dns")):
        for f in fs:
            if f.endswith(".py"):
                files.append(os.path.join(dirpath, f))
    total = 0
    for path in sorted(files):
        rel = os.path.relpath(path, root)
        try:
            src = open(path, encoding="utf-8").read()
        except Exception as e:  # noqa
            problems.append(f"{rel}: unreadable ({e})")
            continue
        if not any(fld in src for fld in FIELDS):
            continue
        try:
            tree = ast.parse(src)
        except SyntaxError as e:
            problems.append(f"{rel}: does not parse ({e})")
            continue
        v = Visitor(rel)
        v.visit(tree)
        parents = {}
        for par in ast.walk(tree):
            for ch in ast.iter_child_nodes(par):
                parents[id(ch)] = par
        by_line = {}
        for (ln, col), nd in v.nodes.items():
            by_line.setdefault(ln, []).append(nd)

        def shape_ok(line, fld):
            return all(lockfree_shape_ok(nd, parents) for nd in by_line.get(line, []) if nd.attr == fld)

        for fld, cls, stack, line, locked, store, base in v.accesses:
            total += 1
            fn = stack[-1] if stack else "<module>"
            outer = stack[0] if stack else "<module>"
            where = f"{rel}:{line} {'.'.join(cls)}.{'.'.join(stack)}"
            if rel == os.path.join("dns", "versioned.py") and cls[:1] == ("Zone",):
                if locked or fn.endswith("_unlocked") or outer == "__init__":
                    continue
                if fn == "_get_next_version_id" and fld == "_versions" and not store:
                    if not shape_ok(line, fld):
                        problems.append(f"{where}: lock-free read of _versions is not `self._versions[-1]` / "
                                        "`len(self._versions) > 0` (a stale length or index can miss a concurrent prune)")
                    continue
                if stack == ("writer",) and fld == "_write_txn" and not store:
                    continue
                if stack == ("set_max_versions", "policy") and fld == "_versions" and not store and base == "zone":
                    if not shape_ok(line, fld):
                        problems.append(f"{where}: policy closure uses _versions other than `len(zone._versions) > n`")
                    continue
                problems.append(f"{where}: {'write to' if store else 'read of'} {fld} outside `with self._version_lock`")
            elif rel == os.path.join("dns", "btreezone.py") and cls == ("WritableVersion",) and stack == ("__init__",) \
                    and fld == "_versions" and not store:
                if not shape_ok(line, fld):
                    problems.append(f"{where}: lock-free read of _versions is not `zone._versions[-1]`")
                continue
            else:
                problems.append(f"{where}: access to {fld} of a versioned zone from outside dns.versioned.Zone")
        for callee, cls, stack, line, locked in v.unlocked_calls:
            fn = stack[-1] if stack else "<module>"
            outer = stack[0] if stack else "<module>"
            if locked or fn.endswith("_unlocked") or outer == "__init__":
                continue
            problems.append(f"{rel}:{line} {'.'.join(stack)}: calls {callee} without holding the lock")
        for stack, line in v.waits_under_lock:
            problems.append(f"{rel}:{line} {'.'.join(stack)}: Event.wait() while holding _version_lock")
        if rel == os.path.join("dns", "versioned.py"):
            for stack, line in v.timed_waits:
                problems.append(f"{rel}:{line} {'.'.join(stack)}: Event.wait with a timeout: the model's wait returns only "
                                "when the event is set (a timed-out waiter re-queues a new event and strands the old one)")
            facts_waits = [n for n in ast.walk(tree) if isinstance(n, ast.Call) and isinstance(n.func, ast.Attribute)
                           and n.func.attr == "wait"]
            if len(facts_waits) != 1:
                problems.append(f"{rel}: expected exactly one Event.wait() (in writer()), found {len(facts_waits)}")
    # the shared containers are constructed unbounded ("any number of concurrent writers / readers")
    try:
        vt = ast.parse(open(os.path.join(root, "dns", "versioned.py"), encoding="utf-8").read())
        want = {"_versions": "deque", "_write_waiters": "deque", "_readers": "set"}
        found = {}
        for node in ast.walk(vt):
            if isinstance(node, ast.FunctionDef) and node.name == "__init__":
                for st in ast.walk(node):
                    tgt = None
                    if isinstance(st, ast.AnnAssign):
                        tgt, val = st.target, st.value
                    elif isinstance(st, ast.Assign) and len(st.targets) == 1:
                        tgt, val = st.targets[0], st.value
                    if isinstance(tgt, ast.Attribute) and tgt.attr in want and isinstance(tgt.value, ast.Name) \
                            and tgt.value.id == "self":
                        ok_ctor = isinstance(val, ast.Call) and not val.args and not val.keywords and (
                            (isinstance(val.func, ast.Attribute) and val.func.attr == want[tgt.attr]) or
                            (isinstance(val.func, ast.Name) and val.func.id == want[tgt.attr]))
                        found[tgt.attr] = found.get(tgt.attr, True) and ok_ctor
        for fld, ctor in want.items():
            if fld not in found:
                problems.append(f"dns/versioned.py: construction of self.{fld} not found in Zone.__init__")
            elif not found[fld]:
                problems.append(f"dns/versioned.py: self.{fld} is not constructed as an empty, unbounded {ctor}() "
                                "(a bounded queue silently drops waiters / versions)")
    except Exception as e:  # noqa
        problems.append(f"dns/versioned.py: container construction check failed ({e})")
    facts["accesses_checked"] = total
    if total < 20:
        problems.append(f"only {total} accesses to the shared fields found: the guard no longer recognises the code")
    return (not problems), problems, facts


def generated_obligations(ctx):
    ok, problems, facts = guard()
    ctx.notes["ast_guard"] = {"ok": ok, **facts, "problems": problems[:10]}
    return {
        "obligations": 1,
        "discharged": 1 if ok else 0,
        "ok": ok,
        "theorems": ["astguard_shared_state_only_under_version_lock"],
        "log": "AST guard (premise of the C12 model: shared fields only accessed under _version_lock):\n" + "\n".join(problems),
        "info": facts,
    }


def check(ctx):
    return []
